"""py2lean_varsiter — one iteration of the `while stack:` loop of `_get_variables_iterative` (core/expressions.py), translated
into `varsIterVisitG : Expr → VIterActG` (`Generated/VarsIter.lean`): for a node that was not seen before, WHAT the iteration
does — add the node itself, nothing, `variables.update(node.get_variables())` (directly or through the `try` fall-back), or push
children (in push order).  The chain of `isinstance` tests is resolved per class in source order (all expression classes derive
directly from `Expression`: checked); the prologue (`pop`, `id`, `seen` test, `seen.add`) and the statements around the loop are
checked to be the ones the model's `vstep` / `varsIter` implement.  `Props/VarsIterTie.lean`: `Py.vstep` makes exactly these moves.
"""
from __future__ import annotations

import ast
import json

from py2lean import CTORS, TranslateError, classes_of


def _u(n):
    return ast.unparse(n)


def _strip(stmts):
    return [s for s in stmts if not (isinstance(s, ast.Expr) and isinstance(s.value, ast.Constant))
            and not isinstance(s, (ast.Import, ast.ImportFrom))]


PROLOGUE = ["node = stack.pop()", "node_id = id(node)", "if node_id in seen:\n    continue", "seen.add(node_id)"]
FRAME = ["variables: set[Variable] = set()", "stack: list[Expression] = [expr]", "seen: set[int] = set()", "return variables"]
FALLBACK = "try:\n    variables.update(node.get_variables())\nexcept RecursionError:\n    pass"


def check_bases(trees):
    """every expression class derives directly from Expression: the isinstance tests are disjoint"""
    want = {c for c, _, _ in CTORS}
    seen = {}
    for t in trees:
        for n in ast.walk(t):
            if isinstance(n, ast.ClassDef):
                seen[n.name] = [_u(b) for b in n.bases]
    for c in sorted(want):
        if seen.get(c) != ["Expression"]:
            raise TranslateError(f"class {c} has bases {seen.get(c)}: the per-class resolution of isinstance chains assumes [Expression]")
    # nothing else may derive from one of them
    for name, bases in seen.items():
        if any(b in want for b in bases):
            raise TranslateError(f"class {name} derives from an expression class {bases}")


def action(where, stmts, fields):
    """statements of a branch (ending in `continue`) -> Lean term of type VIterActG"""
    st = [_u(s) for s in stmts]
    if not st or st[-1] != "continue":
        raise TranslateError(f"{where}: a branch does not end in `continue`: {st}")
    st = st[:-1]
    if st == []:
        return ".skip"
    if st == ["variables.add(node)"]:
        return ".addSelf"
    if st == ["variables.update(node.get_variables())"]:
        return ".update"
    pushed = []
    for s in st:
        if not (s.startswith("stack.append(node.") and s.endswith(")")):
            raise TranslateError(f"{where}: unsupported statement in a branch: {s!r}")
        attr = s[len("stack.append(node."):-1]
        b = next((b for a, b, ty in fields if a == attr and ty == "Expr"), None)
        if b is None:
            raise TranslateError(f"{where}: pushes `node.{attr}`, which is not an expression child of the class")
        pushed.append(b)
    return f".push [{', '.join(pushed)}]"


def gen_vars_iter(ex: ast.AST, par: ast.AST, vec: ast.AST, mat: ast.AST) -> str:
    where = "_get_variables_iterative"
    check_bases([ex, par, vec, mat])
    fn = next((n for n in ast.walk(ex) if isinstance(n, ast.FunctionDef) and n.name == where), None)
    if fn is None:
        raise TranslateError(f"{where} not found")
    body = _strip(fn.body)
    loop = next((s for s in body if isinstance(s, ast.While)), None)
    if loop is None or _u(loop.test) != "stack" or loop.orelse:
        raise TranslateError(f"{where}: no `while stack:` loop")
    frame = [" ".join(_u(s).split()) for s in body if s is not loop]
    if frame != FRAME:
        raise TranslateError(f"{where}: the statements around the loop changed: {frame}")
    lb = _strip(loop.body)
    if [_u(s) for s in lb[:4]] != PROLOGUE:
        raise TranslateError(f"{where}: the loop prologue changed: {[_u(s) for s in lb[:4]]}")
    chain = lb[4:]
    if not chain or _u(chain[-1]) != FALLBACK:
        raise TranslateError(f"{where}: the fall-back at the end of the loop body changed: {_u(chain[-1]) if chain else None!r}")
    tests = []
    for s in chain[:-1]:
        cls = classes_of(s.test, "node") if isinstance(s, ast.If) and not s.orelse else None
        if cls is None:
            raise TranslateError(f"{where}: statement in the dispatch chain is not `if isinstance(node, …):` {_u(s)[:80]!r}")
        tests.append((cls, _strip(s.body)))
    known = {c for c, _, _ in CTORS}
    for cls, _ in tests:
        for c in cls:
            if c not in known:
                raise TranslateError(f"{where}: isinstance test on a class outside the expression classes: {c}")
    out = ["/-- what one iteration of `_get_variables_iterative` does with a node it has not seen -/",
           "inductive VIterActG | addSelf | skip | update | fallback | push (children : List Expr)", "",
           "/-- the statements around the loop and the loop prologue (checked by the translator to be these) -/",
           "def varsIterFrameG : List String := [" + ", ".join(json.dumps(x) for x in FRAME + PROLOGUE) + "]", "",
           "def varsIterVisitG : Expr → VIterActG"]
    for cname, ctor, fields in CTORS:
        binders = " ".join(b for _, b, _ in fields)
        act = next((action(f"{where}[{cname}]", stmts, fields) for cls, stmts in tests if cname in cls), ".fallback")
        out.append(f"  | .{ctor} {binders} => {act}")
    return "\n".join(out) + "\n"


if __name__ == "__main__":
    import sys
    d = sys.argv[1]
    P = lambda f: ast.parse(open(d + "/core/" + f).read())
    print(gen_vars_iter(P("expressions.py"), P("parameters.py"), P("vectors.py"), P("matrices.py")))
