"""py2lean_eval — whole-body translation of the `evaluate(self, values)` methods of all expression classes (core/expressions.py,
parameters.py, vectors.py, matrices.py) into the step functional `evalStepG values σ recE : Expr → Except CErr α`
(`Generated/EvalStep.lean`): `X.evaluate(values)` on a child becomes a call of the parameter `recE`, element loops /
comprehensions / `np.fromiter` over a vector operand become `evalVecRec recE v` (the helper iterators `_iter_vector`, `_iter_left`,
`_iter_right` are translated too), and the NumPy expression that combines the element values is mapped through a table of shapes
(text with holes) to the operation of the number algebra it denotes.  A shape outside the table (a de-duplicated sum, an `isclose`
filter, a cast) is a translation error.  `Props/EvalTie.lean`: `Py.evaluate` satisfies these equations and is their only solution;
`C01.evaluate_eq_denote_of_source_equations`.
"""
from __future__ import annotations

import ast

import py2lean
from py2lean import CTORS, TranslateError


def _u(n):
    return ast.unparse(n)


def _body(fn):
    return [s for s in fn.body if not (isinstance(s, ast.Expr) and isinstance(s.value, ast.Constant))
            and not isinstance(s, (ast.Import, ast.ImportFrom))]


def find_class(trees, name):
    for t in trees:
        for n in ast.walk(t):
            if isinstance(n, ast.ClassDef) and n.name == name:
                return n
    raise TranslateError(f"class {name} not found")


def method(cls, name):
    m = next((n for n in cls.body if isinstance(n, ast.FunctionDef) and n.name == name), None)
    if m is None:
        raise TranslateError(f"{cls.name}.{name} not found")
    return m


class Holes(ast.NodeTransformer):
    """replace sub-expressions whose source text is bound in `env` by holes H1, H2, … (in order of first occurrence)"""

    def __init__(self, env):
        self.env = env
        self.used: list[str] = []

    def generic_visit(self, node):
        if isinstance(node, ast.expr):
            k = _u(node)
            if k in self.env:
                if k not in self.used:
                    self.used.append(k)
                return ast.copy_location(ast.Name(id=f"H{self.used.index(k) + 1}", ctx=ast.Load()), node)
        return super().generic_visit(node)

    def visit(self, node):
        if isinstance(node, ast.expr):
            k = _u(node)
            if k in self.env:
                if k not in self.used:
                    self.used.append(k)
                return ast.copy_location(ast.Name(id=f"H{self.used.index(k) + 1}", ctx=ast.Load()), node)
        return super().visit(node)


# scalar results: shape -> (hole types, Lean term of type Except CErr α)
SHAPES = {
    "H1": (["Cst"], "pure (cst {0})"),
    "float(np.sum(H1))": (["Vals"], "pure (sum {0})"),
    "sum(H1)": (["Vals"], "pure (pySum {0})"),
    "float(np.dot(H1, H2))": (["Vals", "Vals"], "npDot {0} {1}"),
    "float(np.dot(H1, H2))#c": (["RatList", "Vals"], "npDotC {0} {1}"),
    "np.sqrt(H1)": (["SumSq"], "pure (unop .sqrt {0})"),
    "float(np.sqrt(H1))": (["SumSq"], "pure (unop .sqrt {0})"),
    "float(H1 @ H2 @ H1)": (["Vals", "RatMat"], "npQuad {1} {0}"),
    "float(np.sum(H1 ** H2))": (["Vals", "Rat"], "pure (sum ({0}.map fun a => NumAlg.pow a (ofRat {1})))"),
    "float(np.sum(H1(H2)))": (["VOpFn", "Vals"], "pure (sum ({1}.map (unop {0}.toUn)))"),
    "H1(H2, H3)": (["BinOpFn", "Val", "Val"], "pure (binop {0} {1} {2})"),
    "H1(H2)": (["UnOpFn", "Val"], "pure (unop {0} {1})"),
    "sum((abs(v) for v in H1))": (["Vals"], "pure (pySum ({0}.map (unop .abs)))"),
}
# derived list / accumulator values: shape -> (hole types, result type, Lean term)
DERIVED = {
    "sum((v * v for v in H1))": (["Vals"], "SumSq", "(pySum ({0}.map fun a => mul a a))"),
    "sum((abs(v) for v in H1))": (["Vals"], "AbsSum", "(pySum ({0}.map (unop .abs)))"),
}


class EvalCompiler:
    def __init__(self, cls: ast.ClassDef, ctor: str, fields, helpers: dict[str, ast.FunctionDef]):
        self.cls, self.ctor, self.fields, self.helpers = cls, ctor, fields, helpers
        self.where = f"{cls.name}.evaluate"
        self.fresh = 0

    def new(self, b):
        self.fresh += 1
        return f"{b}{self.fresh}"

    def fail(self, node, why):
        raise TranslateError(f"{self.where}: {why}: {_u(node)[:100]!r} (line {getattr(node, 'lineno', '?')})")

    # ---- element sources: what a loop / comprehension iterates over -> Lean term of type `Except CErr (List α)`
    def source(self, it: ast.AST, env) -> str:
        u = _u(it)
        # helper iterators
        if isinstance(it, ast.Call) and isinstance(it.func, ast.Attribute) and _u(it.func.value) == "self" and not it.args:
            h = self.helpers.get(it.func.attr)
            if h is None:
                self.fail(it, "unknown helper iterator")
            b = _body(h)
            # if isinstance(self.F, VectorVariable): return iter(self.F._variables) ; return iter(self.F._expressions)
            if len(b) == 2 and isinstance(b[0], ast.If) and not b[0].orelse and len(b[0].body) == 1:
                t = _u(b[0].test)
                if t.startswith("isinstance(self.") and t.endswith(", VectorVariable)"):
                    f = t[len("isinstance(self."):-len(", VectorVariable)")]
                    if _u(b[0].body[0]) == f"return iter(self.{f}._variables)" and _u(b[1]) == f"return iter(self.{f}._expressions)":
                        t2, ty = env[f"self.{f}"]
                        if ty == "Vec":
                            return f"evalVecRec recE {t2}"
            self.fail(it, "helper iterator body")
        if u in env and env[u][1] == "VVar":          # `for v in self.vector` (a VectorVariable iterates its elements)
            return f"evalVarsRec recE {env[u][0]}.vars"
        if u.endswith("._variables") and u[:-11] in env and env[u[:-11]][1] == "VVar":
            return f"evalVarsRec recE {env[u[:-11]][0]}.vars"
        if u.endswith("._expressions") and u[:-13] in env and env[u[:-13]][1] == "ExprList":
            return f"evalListRec recE {env[u[:-13]][0]}"
        self.fail(it, "unsupported element source")

    def elems(self, val: ast.AST, env):
        """`[v.evaluate(values) for v in SRC]`, `np.array([...])`, `np.fromiter((… for v in SRC), dtype=float, count=…)`,
        a bare generator -> Lean term (Except CErr (List α)) or None"""
        node = val
        if isinstance(node, ast.Call) and _u(node.func) in ("np.array",) and len(node.args) == 1 and not node.keywords:
            node = node.args[0]
        if isinstance(node, ast.Call) and _u(node.func) == "np.fromiter" and len(node.args) == 1:
            kws = {k.arg: _u(k.value) for k in node.keywords}
            if kws.get("dtype") != "float" or set(kws) - {"dtype", "count"}:
                self.fail(val, "np.fromiter keywords")
            node = node.args[0]
        if isinstance(node, (ast.ListComp, ast.GeneratorExp)) and len(node.generators) == 1 and not node.generators[0].ifs:
            g = node.generators[0]
            if _u(node.elt) == f"{_u(g.target)}.evaluate(values)":
                return self.source(g.iter, env)
        return None

    def scalar(self, v: ast.AST, env) -> str:
        """a scalar-valued expression -> Lean term of type Except CErr α"""
        # direct recursion / parameter / variable
        h = Holes({k: v2 for k, v2 in env.items() if v2[1] in ("Cst", "Vals", "RatList", "SumSq", "AbsSum", "RatMat", "Rat",
                                                                 "VOpFn", "BinOpFn", "UnOpFn", "Val")})
        body = _u(h.visit(ast.parse(_u(v), mode="eval").body))
        key = body
        if body == "float(np.dot(H1, H2))" and env[h.used[0]][1] == "RatList":
            key = body + "#c"
        if key == "H1" and env[h.used[0]][1] in ("AbsSum",):
            return f"pure {env[h.used[0]][0]}"
        if key == "H1" and env[h.used[0]][1] == "Val":
            return f"pure {env[h.used[0]][0]}"
        if key not in SHAPES:
            self.fail(v, f"value expression outside the table of shapes ({body!r})")
        types, tmpl = SHAPES[key]
        if len(types) != len(h.used):
            self.fail(v, "number of operands")
        args = []
        for src, want in zip(h.used, types):
            t, ty = env[src]
            if ty != want:
                self.fail(v, f"operand {src!r} is a {ty}, the shape needs a {want}")
            args.append(t)
        return tmpl.format(*args)

    def block(self, stmts, env, ind) -> str:
        nl = "\n" + ind
        if not stmts:
            raise TranslateError(f"{self.where}: control reaches the end without `return`")
        st, rest = stmts[0], stmts[1:]
        if isinstance(st, ast.Return):
            # an inline element list inside the returned expression: bind it first
            for sub in ast.walk(st.value):
                if _u(sub) in env:
                    continue
                if any(_u(anc) in env and sub is not anc and any(d is sub for d in ast.walk(anc)) for anc in ast.walk(st.value)):
                    continue
                if isinstance(sub, (ast.ListComp, ast.GeneratorExp, ast.Call)):
                    e = self.elems(sub, env) if not (isinstance(sub, ast.Call) and _u(sub.func) not in ("np.array", "np.fromiter")) else None
                    if e is not None:
                        v = self.new("xs")
                        e2 = dict(env); e2[_u(sub)] = (v, "Vals")
                        return f"do{nl}let {v} ← {e}{nl}{self.block([st], e2, ind)}".replace(f"{nl}do{nl}", nl)
            return self.scalar(st.value, env)
        if isinstance(st, ast.Assign) and len(st.targets) == 1 and isinstance(st.targets[0], ast.Name):
            nm, val = st.targets[0].id, st.value
            e = self.elems(val, env)
            if e is not None:
                v = self.new("xs")
                e2 = dict(env); e2[nm] = (v, "Vals")
                return f"do{nl}let {v} ← {e}{nl}{self.block(rest, e2, ind)}".replace(f"{nl}do{nl}", nl)
            # child.evaluate(values)
            if isinstance(val, ast.Call) and isinstance(val.func, ast.Attribute) and val.func.attr == "evaluate" \
                    and [_u(a) for a in val.args] == ["values"] and _u(val.func.value) in env:
                t, ty = env[_u(val.func.value)]
                v = self.new("a")
                e2 = dict(env); e2[nm] = (v, "Val")
                if ty == "Expr":
                    return f"do{nl}let {v} ← recE {t}{nl}{self.block(rest, e2, ind)}".replace(f"{nl}do{nl}", nl)
                if ty == "ExprList" and self.cls.name == "MatrixSum":
                    # `result = self.matrix.evaluate(values)` of a MatrixExpression: the nested list of element values
                    e2[nm] = (v, "Vals")
                    return f"do{nl}let {v} ← evalListRec recE {t}{nl}{self.block(rest, e2, ind)}".replace(f"{nl}do{nl}", nl)
                self.fail(st, "evaluate of something that is not a child expression")
            u = _u(val)
            if u in env:
                e2 = dict(env); e2[nm] = env[u]
                return self.block(rest, e2, ind)
            if u.endswith(".size") and u[:-5] in env:       # only ever used as `count=` of np.fromiter
                e2 = dict(env); e2[nm] = ("size", "Size")
                return self.block(rest, e2, ind)
            # derived values
            h = Holes({k: v2 for k, v2 in env.items() if v2[1] in ("Vals",)})
            b = _u(h.visit(ast.parse(u, mode="eval").body))
            if b in DERIVED:
                types, rty, tmpl = DERIVED[b]
                e2 = dict(env); e2[nm] = (tmpl.format(*[env[s][0] for s in h.used]), rty)
                return self.block(rest, e2, ind)
            # accumulator initialisation followed by the row-major double loop
            if u in ("0.0", "0") and rest and isinstance(rest[0], ast.For):
                return self.acc_loop(nm, rest[0], rest[1:], env, ind)
            self.fail(st, "unsupported assignment")
        if isinstance(st, ast.If):
            t = _u(st.test)
            if t.startswith("isinstance(") and t.endswith(", VectorVariable)") and st.orelse:
                x = t[len("isinstance("):-len(", VectorVariable)")]
                if x in env and env[x][1] == "Vec":
                    w, es = self.new("w"), self.new("es")
                    e_yes = dict(env); e_yes[x] = (w, "VVar")
                    e_no = dict(env); e_no[x] = (es, "ExprList")
                    a = self.block(list(st.body) + rest, e_yes, ind + "    ")
                    b = self.block(list(st.orelse) + rest, e_no, ind + "    ")
                    return f"(match {env[x][0]} with{nl}| .vars {w} =>{nl}    {a}{nl}| .exprs {es} =>{nl}    {b})"
            if t.startswith("isinstance(") and t.endswith(", MatrixVariable)"):
                x = t[len("isinstance("):-len(", MatrixVariable)")]
                if x in env and env[x][1] == "MVar":
                    return self.block(list(st.body) + ([] if py2lean.always_returns(st.body) else rest), env, ind)
                if x in env and env[x][1] == "ExprList":
                    return self.block(list(st.orelse) + rest, env, ind)
            if t == "self.name not in values" and isinstance(st.body[-1], ast.Raise) and "MissingValueError" in _u(st.body[-1]) \
                    and [_u(x) for x in rest] == ["value = values[self.name]", "return value"]:
                return f"lookupVal values {env['self'][0]}"
            self.fail(st, "unsupported condition")
        self.fail(st, "unsupported statement")

    def acc_loop(self, acc, outer, rest, env, ind) -> str:
        """ACC = 0.0; for i in range(M.rows): for j in range(M.cols): [val = ELEM.evaluate(values)]; ACC += TERM; <rest>"""
        nl = "\n" + ind
        m = None
        for k, (t, ty) in env.items():
            if ty == "MVar":
                m = (k, t)
        if m is None:
            self.fail(outer, "accumulation loop without a matrix variable")
        mk, mt = m
        if not (_u(outer.iter) == f"range({mk}.rows)" and len(outer.body) == 1 and isinstance(outer.body[0], ast.For)
                and _u(outer.body[0].iter) == f"range({mk}.cols)" and not outer.orelse and not outer.body[0].orelse):
            self.fail(outer, "loop header (row-major double loop over the matrix expected)")
        i, j = _u(outer.target), _u(outer.body[0].target)
        inner = list(outer.body[0].body)
        elem_texts = (f"{mk}._variables[{i}][{j}].evaluate(values)", f"{mk}[{i}, {j}].evaluate(values)")
        valname = None
        if len(inner) == 2 and isinstance(inner[0], ast.Assign) and _u(inner[0].value) in elem_texts:
            valname = _u(inner[0].targets[0])
            inner = inner[1:]
        if not (len(inner) == 1 and isinstance(inner[0], ast.AugAssign) and isinstance(inner[0].op, ast.Add)
                and _u(inner[0].target) == acc):
            self.fail(outer, "loop body (ACC += TERM expected)")
        term = _u(inner[0].value)
        v = self.new("xs")
        if valname and term == f"{valname} * {valname}":
            folded, ty = f"(pySum ({v}.map fun a => mul a a))", "SumSq"
        elif not valname and term in tuple(f"float({e})" for e in elem_texts):
            folded, ty = f"(pySum {v})", "AbsSum"
        else:
            self.fail(outer, f"accumulated term {term!r}")
        e2 = dict(env); e2[acc] = (folded, ty)
        return f"do{nl}let {v} ← evalVarsRec recE {mt}.flat{nl}{self.block(rest, e2, ind)}".replace(f"{nl}do{nl}", nl)


def gen_eval_step(ex: ast.AST, par: ast.AST, vec: ast.AST, mat: ast.AST) -> str:
    trees = [ex, par, vec, mat]
    out = ["/-- `expr.evaluate(values)`: the method of the node's class; `recE` stands for `<child>.evaluate(values)` -/",
           "def evalStepG {α : Type} [NumAlg α] (values : String → Option α) (σ : Nat → α) (recE : Expr → Except CErr α) :",
           "    Expr → Except CErr α"]
    for cls_name, ctor, fields in CTORS:
        cls = find_class(trees, cls_name)
        helpers = {n.name: n for n in cls.body if isinstance(n, ast.FunctionDef) and n.name.startswith("_iter_")}
        comp = EvalCompiler(cls, ctor, fields, helpers)
        env = {}
        binders = " ".join(b for _, b, _ in fields)
        for attr, b, ty in fields:
            env[f"self.{attr}" if attr else "self"] = (b, ty)
        if cls_name == "Constant":
            env["self.value"] = (fields[0][1], "Cst")
        if cls_name == "Parameter":
            out.append(f"  | .{ctor} {binders} =>")
            b = _body(method(cls, "evaluate"))
            if [_u(s) for s in b] != ["return self._value"]:
                raise TranslateError(f"Parameter.evaluate: {[_u(s) for s in b]}")
            out.append(f"      pure (σ {fields[0][1]}.oid)")
            continue
        if cls_name == "BinaryOp":
            env["self._OPS[self.op]"] = ("op", "BinOpFn")
        if cls_name == "UnaryOp":
            env["self._numpy_func"] = ("op", "UnOpFn")
        if cls_name == "VectorUnarySum":
            env["self._NUMPY_FUNCS[self.op]"] = ("op", "VOpFn")
        if cls_name == "LinearCombination":
            env["self.coefficients"] = ("cs", "RatList")
        if cls_name == "MatrixSum":
            env["self.matrix"] = (fields[0][1], "MVar" if ctor == "matSumV" else "ExprList")
        if cls_name == "VectorPowerSum":
            env["self.power"] = ("k", "Rat")
        if cls_name == "VectorExpressionSum":
            env["self.expression"] = (fields[0][1], "ExprList")
        body = comp.block(_body(method(cls, "evaluate")), env, "      ")
        out.append(f"  | .{ctor} {binders} =>\n      {body}")
    return "\n".join(out) + "\n"


if __name__ == "__main__":
    import sys
    d = sys.argv[1]
    P = lambda f: ast.parse(open(d + "/core/" + f).read())
    print(gen_eval_step(P("expressions.py"), P("parameters.py"), P("vectors.py"), P("matrices.py")))
