"""C02 — the symbolic gradient is the true partial derivative.

Tie:    structural comparison of optyx.gradient(e, v) (all three tiers of the real
        function: registered rule / recursive / explicit-stack) with the Lean model
        `Py.grad v e` — exact, no numerics.
Oracle: forward-mode dual numbers in the harness (oracle.py) vs gradient(e, v).evaluate(p)
        at regular points; `v` not occurring ⇒ the result must be the literal Constant 0.
        Magnitude family (checklist 1): constants of every magnitude class (tiny 1e-300 … 1e-6, within 2^-52 … 1e-6
        of ±1, huge 1e6 … 1e300) in every multiplicative / chain / exponent / coefficient position, judged
        RELATIVELY to the true derivative (numeric_check_rel), because such a derivative is itself 1e-9-small.
        Parameter family (checklist 29): Parameters as exponent / coefficient / base / additive term / denominator, in
        compound variable-free sub-expressions, inside and beside vector nodes, at the end of deep chains × histories
        'differentiate while the parameter holds v0 (0, 1, default, near 0 / 1, generic) → Parameter.set(v1) → set(v2)':
        every tree obtained so far and the tree returned by a fresh gradient(e, v) are judged at the CURRENT values
        against dual numbers, on the recursive and on the explicit-stack path (param_history_oracle).
        Handle family: the wrt object is equal BY NAME to the leaves but a different Python object (Variable re-created,
        element of a re-created VectorVariable / MatrixVariable, copy, pickle; trees assembled by helpers that each made
        their own objects) × call histories on the name-keyed memo (twin first on a cold memo then the original, original
        then twin, no clearing, clear in between) × recursive / explicit-stack path; dual numbers w.r.t. the NAME
        (twin_history_oracle).
"""
from __future__ import annotations

import math
import re
import warnings

import numpy as np

import core
import gen
import oracle
from ser import Ids, Ser, Unsupported, env_text, ser, deser

LEAN_MODULE = "Optyx.Props.C02"
THEOREMS = [
    "Optyx.Props.C02.grad_hasDerivAt",
    "Optyx.Props.C02.grad_absent",
    "Optyx.Props.C02.rulesIter_eq",
    "Optyx.Props.C02.grad_hasDerivAt_of_source_equations",
    "Optyx.Props.C02.source_equations_solvable",
    "Optyx.Props.GradTie.grad_step",
    "Optyx.Props.GradTie.step_unique",
]
ASSUMPTIONS = [
    "regular points only (Regular e ρ σ): the singular set is the subject of C19",
    "scalar constants only (array-valued Constant nodes are outside the model)",
    "NumPy's real power is Real.rpow on its finite-value domain",
]


def shape_atoms(U):
    from optyx.core.expressions import Constant
    from optyx.core.functions import sin

    x, y = U.scalars[0], U.scalars[1]
    return x, [
        ("K0", Constant(0.0)), ("K1", Constant(1.0)), ("K3", Constant(3.0)), ("X", x), ("Y", y),
        ("2X", 2.0 * x), ("NEGX", -x), ("SINX", sin(x)), ("XY", x * y), ("P", U.params[0]),
        ("X1", U.x[1]),
    ]


def cell_cover(rng):
    """one representative per decision cell of the differentiator"""
    from optyx.core.expressions import BinaryOp, Constant, UnaryOp
    from optyx.core import vectors as V
    from optyx.core import matrices as M

    U = gen.Universe(rng)
    x, atoms = shape_atoms(U)
    out = []
    for op in gen.BIN:
        for (la, l), (ra, r) in ((a, b) for a in atoms for b in atoms):
            out.append((f"bin{op}:{la}:{ra}", BinaryOp(l, r, op), x))
    for k in [0, 1, 2, 3, 0.0, 1.0, 2.0, -1, 0.5, 2.5, -2.0, 4]:
        for la, l in atoms:
            out.append((f"pow{k}:{la}", BinaryOp(l, Constant(k), "**"), x))
    for op in gen.UNARY:
        for la, a in atoms:
            out.append((f"un:{op}:{la}", UnaryOp(a, op), x))
    # compositions whose algebraic "simplification" would be unsound: powers of powers, nested neg/abs/sqrt
    shifted = [("X-3", x - 3.0), ("X", x), ("XY", x * U.scalars[1]), ("2X+1", 2.0 * x + 1.0)]
    for la, base in shifted:
        for a_in in [2, 3, 4, 2.0, 0.5, -1, -2]:
            for b_out in [0.5, 1.5, -0.5, 2, 3, -1, 2.5, 1, 0]:
                out.append((f"powpow:{a_in}:{b_out}:{la}", BinaryOp(BinaryOp(base, Constant(a_in), "**"), Constant(b_out), "**"), x))
        for op in ("sqrt", "abs", "log", "exp", "neg"):
            out.append((f"unpow:{op}:{la}", UnaryOp(BinaryOp(base, Constant(2), "**"), op), x))
            out.append((f"powun:{op}:{la}", BinaryOp(UnaryOp(base, op), Constant(2), "**"), x))
    # vector rules × {wrt inside / outside} × operand kinds
    n = U.n
    views = U.vec_views()
    wrts = [U.x[0], U.x[1], U.w[2], U.y[n - 1], U.scalars[0], U.M[0, 1], U.S[0, 1], U.S[1, 1]]
    cs = np.array([2.0, -1.0, 0.5][:n] + [1.0] * max(0, n - 3))
    Q = np.array([[(i + 1.0) * (j - 1.0) + (0.5 if i == j else 0.0) for j in range(n)] for i in range(n)])
    vexprs = [U.x + 1.0, U.x * U.y if False else (U.x - U.y), 2.0 * U.w[0:n], V.VectorExpression([gen.unary("sin", v) for v in U.x]),
              np.eye(n) @ U.x if False else M.MatrixVectorProduct(Q, U.x)]
    vecs = views + vexprs
    nodes = []
    for v in vecs:
        nodes.append(("lc", V.LinearCombination(cs, v)))
        nodes.append(("l2", V.L2Norm(v)))
        nodes.append(("l1", V.L1Norm(v)))
        nodes.append(("qf", M.QuadraticForm(v, Q)))
        for v2 in vecs[:6] + vexprs[:2]:
            nodes.append(("dot", V.DotProduct(v, v2)))
        nodes.append(("dotself", V.DotProduct(v, v)))
    # numeric types of the stored arrays: entries near the limits of narrow dtypes, so that any arithmetic the
    # rules do in the array's own dtype (Q + Q.T, scaling) wraps; bool: `+` is logical or
    for dt, big in (("uint8", 200), ("int8", 100), ("uint16", 60000), ("int16", 30000), ("int32", 2 ** 30),
                    ("uint32", 2 ** 31 + 5), ("int64", 7), ("float32", 3.5), ("bool", 1)):
        Qd = np.array([[big if i == j else (big // 2 if dt != "float32" else 1.25) * (1 if (i + j) % 2 else 0) + (i < j)
                        for j in range(n)] for i in range(n)]).astype(dt)
        cd = np.array([big, big // 2 if dt != "float32" else 0.5, 1][:n] + [1] * max(0, n - 3)).astype(dt)
        for v in (U.x, U.x[::-1], U.x + 1.0):
            nodes.append((f"qf:{dt}", M.QuadraticForm(v, Qd)))
            nodes.append((f"lc:{dt}", V.LinearCombination(cd, v)))
            nodes.append((f"dotmv:{dt}", V.DotProduct(U.y, M.MatrixVectorProduct(Qd, v))))
        nodes.append((f"dotrw:{dt}", U.x.dot(Qd @ U.x)))
        nodes.append((f"lc2:{dt}", 2 * (cd @ U.x) + (cd @ U.x) * 3))
    # vector operands taken out of matrices (rows / columns / diagonals of general, symmetric and transposed
    # matrices: a symmetric matrix shares its off-diagonal Variable objects between two positions)
    def mvecs():
        out_ = []
        for m in (U.M, U.S, U.M.T, U.S.T):
            for mk in (lambda m: m[0, :], lambda m: m[:, 1], lambda m: m[1, ::-1], lambda m: m.diagonal()):
                try:
                    out_.append(mk(m))
                except Exception:  # noqa: BLE001
                    pass
        return out_
    c2, Q2 = np.array([2.0, -0.5]), np.array([[1.5, -2.0], [0.25, 3.0]])
    for v in mvecs():
        if len(list(v)) != 2:
            continue
        nodes.append(("m:lc", V.LinearCombination(c2, v)))
        nodes.append(("m:l2", V.L2Norm(v)))
        nodes.append(("m:l1", V.L1Norm(v)))
        nodes.append(("m:qf", M.QuadraticForm(v, Q2)))
        nodes.append(("m:dotself", V.DotProduct(v, v)))
        nodes.append(("m:dot", V.DotProduct(v, U.x[0:2])))
        nodes.append(("m:dotm", V.DotProduct(v, U.S[:, 0])))
        nodes.append(("m:vs", V.VectorSum(v)))
        nodes.append(("m:ps3", V.VectorPowerSum(v, 3)))
        nodes.append(("m:ussin", V.VectorUnarySum(v, "sin")))
    for v in views:
        nodes.append(("vs", V.VectorSum(v)))
        for k in [1, 2, 3, 0.5, -1, 2.5, 0]:
            nodes.append((f"ps{k}", V.VectorPowerSum(v, k)))
        for op in gen.VOPS:
            nodes.append((f"us{op}", V.VectorUnarySum(v, op)))
    for v in vexprs:
        nodes.append(("es", v.sum()))
    for m in (U.M, U.S, U.M.T, U.S[0:2, 0:2]):
        nodes.append(("msv", m.sum()))
        nodes.append(("fro", M.FrobeniusNorm(m)))
        nodes.append(("mse", (m * m).sum()))
        nodes.append(("mse2", (m - 1.5).sum()))
    for tag, node in nodes:
        for w in wrts:
            out.append((f"vec:{tag}", node, w))
    return out


SIZES_QUICK = [1, 2, 3, 7, 8, 9, 16, 17, 31, 32, 33, 40, 63, 64, 65, 100]
SIZES_THOROUGH = SIZES_QUICK + [5, 15, 24, 48, 96, 127, 128, 129, 200, 257]


def size_cover(rng, thorough):
    """every reduction rule over operands whose LENGTH crosses the internal thresholds of blocked / pairwise /
    'small n' code paths (checklist 17): lengths 1 … 257 incl. odd, even, 2^k, 2^k ± 1, with dense dependence of
    every element on the differentiation variable (A @ y) and sparse dependence (x ± c, views)"""
    from optyx import VectorVariable
    from optyx.core import vectors as V
    from optyx.core import matrices as M
    from optyx.core.functions import sin

    out = []
    for n in (SIZES_THOROUGH if thorough else SIZES_QUICK):
        x = VectorVariable(f"sx{n}_", n)
        y = VectorVariable(f"sy{n}_", 3)
        A = np.array([[((7 * i + 3 * j) % 11 - 5) / 4.0 or 0.75 for j in range(3)] for i in range(n)])
        b = np.array([((5 * i) % 7 - 3) / 2.0 for i in range(n)])
        cs = np.array([((3 * i) % 5 - 2) / 2.0 or 1.25 for i in range(n)])
        Ay = M.MatrixVectorProduct(A, y)
        vexprs = [("Ay", Ay), ("Ay-b", A @ y - b), ("x+1", x + 1.0), ("x-rev", x - x[::-1]),
                  ("sin", V.VectorExpression([sin(y[i % 3]) * float(i + 1) for i in range(n)])),
                  ("mix", V.VectorExpression([y[i % 3] * x[i] for i in range(n)]))]
        views = [("x", x), ("rev", x[::-1]), ("half", x[0:max(1, n // 2)]), ("odd", x[1::2] if n > 1 else x)]
        wrts = [y[0], y[2], x[0], x[n - 1], x[n // 2]]
        nodes = []
        for tag, v in vexprs + views:
            m = len(list(v))
            nodes.append((f"lc:{tag}", V.LinearCombination(cs[:m], v)))
            nodes.append((f"l2:{tag}", V.L2Norm(v)))
            nodes.append((f"l1:{tag}", V.L1Norm(v)))
            nodes.append((f"dotself:{tag}", V.DotProduct(v, v)))
            if m == n:
                nodes.append((f"dot:{tag}", V.DotProduct(v, Ay)))
                nodes.append((f"dotx:{tag}", V.DotProduct(x, v)))
            if tag in ("x", "rev", "half", "odd"):
                nodes.append((f"vs:{tag}", V.VectorSum(v)))
                nodes.append((f"ps3:{tag}", V.VectorPowerSum(v, 3)))
                nodes.append((f"ussin:{tag}", V.VectorUnarySum(v, "sin")))
            else:
                nodes.append((f"es:{tag}", v.sum()))
            if m <= (70 if thorough else 40):
                # dense Q (every row of Q + Q.T has m non-zeros) and a banded Q
                Qd = np.array([[((i * 5 + j * 3) % 7 - 3) / 2.0 + (2.0 if i == j else 0.0) for j in range(m)] for i in range(m)])
                Qb = np.array([[1.0 + i if i == j else (0.5 if abs(i - j) == 1 else 0.0) for j in range(m)] for i in range(m)])
                nodes.append((f"qfd:{tag}", M.QuadraticForm(v, Qd)))
                nodes.append((f"qfb:{tag}", M.QuadraticForm(v, Qb)))
        for tag, node in nodes:
            for w in wrts:
                out.append((f"size:{n}:{tag}", node, w))
    return out


# ------------------------------------------------------------------ magnitudes of the stored numbers (checklist 1)

EPS = 2.0 ** -52
MAG_RTOL = 2e-13          # relative; a constant within 1e-12 of 1 that is dropped from a product is still seen
MAG_CLASSES = ("tiny", "near1", "huge")


def magnitudes(rng):
    """{class: [values]}: non-zero constants that are NOT 0 / 1 but close to them on some scale, and huge ones.
    Mantissas come from the run's PRNG; the round thresholds a tolerance test would use are included literally."""
    def m():
        return rng.randint(100, 950) / 100.0

    tiny = [m() * 10.0 ** k for k in (-9, -10, -8, -11, -7, -12, -6, -13, -16, -30, -90, -150, -300)]
    tiny = [1e-9, 1e-10, 0.99e-8, 1e-8, 1.01e-8, 1e-12, 1e-7] + tiny
    near1 = []
    for d in (1e-9, 1e-10, 1e-8, 1e-11, 1e-7, 1e-12, 1e-6, 1e-13, 1e-14, 1e-15, 2.0 ** -50, 2.0 ** -52):
        dd = d if d < 1e-15 else d * rng.randint(100, 500) / 100.0
        near1 += [1.0 + dd, 1.0 - dd]
    near1 += [1.0 + 1e-9, 1.0 - 1e-9, 1.0 + 1e-8, 1.0 - 1e-12]
    huge = [m() * 10.0 ** k for k in (6, 8, 9, 12, 16, 17, 30, 90, 150, 300)]
    out = {"tiny": tiny + [-v for v in tiny[::2]], "near1": near1 + [-v for v in near1[::3]],
           "huge": huge + [-v for v in huge[::2]]}
    return out


def mag_templates(U):
    """[(tag, builder(c) -> expression, exact)]: one constant of magnitude c in every position through which the
    differentiator carries a stored number multiplicatively: factor of a product (either side, nested, next to every
    kind of co-factor), numerator, denominator, inner / outer coefficient of every unary function, exponent and
    exponent - 1, base, coefficient entries of LinearCombination / QuadraticForm / MatrixVectorProduct (bare, under an
    outer function, over views and vector expressions), scalings of vectors and matrices under every reduction,
    plus the rescaled forms (c·x)·(1/c) whose true derivative is O(1).
    exact = the rules do no float arithmetic on the stored numbers for this shape (such arithmetic, e.g. n - 1 or
    Q + Q.T, is exact over the rationals of the Lean model but rounded in Python: no structural comparison then)."""
    from optyx.core.expressions import Constant as C, UnaryOp
    from optyx.core import vectors as V
    from optyx.core import matrices as M

    x, y = U.scalars[0], U.scalars[1]
    vx, vy, n = U.x, U.y, U.n
    T = []

    def add(tag, f, exact=True):
        T.append((tag, f, exact))

    sin = lambda a: UnaryOp(a, "sin")  # noqa: E731
    # --- products
    add("c*x", lambda c: C(c) * x)
    add("x*c", lambda c: x * C(c))
    add("(c*x)*y", lambda c: (C(c) * x) * y)
    add("y*(x*c)", lambda c: y * (x * C(c)))
    add("x*(c*y)", lambda c: x * (C(c) * y))
    add("c*(x*y)", lambda c: C(c) * (x * y))
    add("(x*y)*c", lambda c: (x * y) * C(c))
    add("c*x**3", lambda c: C(c) * x ** 3)
    add("(c*x)**3", lambda c: (C(c) * x) ** 3)
    add("(x*c)**2*y", lambda c: (x * C(c)) ** 2 * y)
    add("(c*x)**2.5", lambda c: (C(c) * x) ** 2.5)
    add("(c*x)**-1", lambda c: (C(c) * x) ** -1)
    add("t*t", lambda c: (lambda t: t * t)(C(c) * x))
    add("(c*x)*x", lambda c: (C(c) * x) * x)
    add("c*sin(x)*y", lambda c: C(c) * sin(x) * y)
    add("sin(x)*(c*y)", lambda c: sin(x) * (C(c) * y))
    add("-(c*x)", lambda c: -(C(c) * x))
    add("(-x)*c", lambda c: (-x) * C(c))
    # --- quotients
    add("x/c", lambda c: x / C(c))
    add("c/x", lambda c: C(c) / x)
    add("(c*x)/y", lambda c: (C(c) * x) / y)
    add("y/(c*x)", lambda c: y / (C(c) * x))
    add("x/(c*y)", lambda c: x / (C(c) * y))
    add("(x/c)/y", lambda c: (x / C(c)) / y)
    add("y/(x/c)", lambda c: y / (x / C(c)))
    add("c/(x*x+1)", lambda c: C(c) / (x * x + 1.0))
    add("(x*x+1)/c", lambda c: (x * x + 1.0) / C(c))
    add("sin(x)/(c*y)", lambda c: sin(x) / (C(c) * y))
    # --- next to an ordinary term (the small term must survive the sum of the derivative)
    add("c*x+sin(x)", lambda c: C(c) * x + sin(x))
    add("sin(x)-c*x", lambda c: sin(x) - C(c) * x)
    add("c*x+y*x", lambda c: C(c) * x + y * x)
    add("x/c+x", lambda c: x / C(c) + x)
    add("c*x-x*y", lambda c: C(c) * x - x * y)
    # --- rescaled: the true derivative is O(1) (or exactly (c-1)·K)
    add("(c*x)*(1/c)", lambda c: (C(c) * x) * C(1.0 / c))
    add("(1/c)*(x*c)", lambda c: C(1.0 / c) * (x * C(c)))
    add("(x/c)*c", lambda c: (x / C(c)) * C(c))
    add("(c*x)/c", lambda c: (C(c) * x) / C(c))
    add("sin(c*x)*(1/c)", lambda c: sin(C(c) * x) * C(1.0 / c))
    add("(c*x-x)*K", lambda c: (C(c) * x - x) * C(1.0 / (c - 1.0)))
    add("(x*c-x)*K*y", lambda c: (x * C(c) - x) * C(1.0 / (c - 1.0)) * y)
    # --- chain rule: inner coefficient, shifted inner coefficient, inner divisor, outer coefficient
    for op in gen.UNARY:
        s = 2.0 if op == "acosh" else 0.25
        add(f"{op}(c*x)", lambda c, op=op: UnaryOp(C(c) * x, op))
        add(f"{op}(x*c+s)", lambda c, op=op, s=s: UnaryOp(x * C(c) + s, op))
        add(f"{op}(x/c)", lambda c, op=op: UnaryOp(x / C(c), op))
        add(f"c*{op}(x)", lambda c, op=op: C(c) * UnaryOp(x, op))
        add(f"{op}(y+s)*(c*x)", lambda c, op=op, s=s: UnaryOp(y + s, op) * (C(c) * x))
    # --- exponent, exponent - 1, base
    add("x**c", lambda c: x ** C(c), False)
    add("(x*x+1)**c", lambda c: (x * x + 1.0) ** C(c), False)
    add("x**(1+c)", lambda c: x ** C(1.0 + c), False)
    add("x**(2+c)", lambda c: x ** C(2.0 + c), False)
    add("(x*y)**(c+0.5)", lambda c: (x * y) ** C(c + 0.5), False)
    add("x**(c*y)", lambda c: x ** (C(c) * y))
    add("(x*x+1)**(y*c)", lambda c: (x * x + 1.0) ** (y * C(c)))
    add("c**x", lambda c: C(c) ** x)
    add("c**(x*y)", lambda c: C(c) ** (x * y))
    add("(c*x)**y", lambda c: (C(c) * x) ** y)

    # --- coefficient entries of the vector / matrix nodes
    def cs(c, pos):
        a = np.array(([2.0, -1.0, 0.5] + [1.0] * n)[:n])
        a[pos] = c
        return a

    def ve():
        return V.VectorExpression([sin(vx[0]), vx[1] * vy[0]] + [vx[i] + 1.0 for i in range(2, n)])

    A0 = np.array([[((7 * i + 3 * j) % 11 - 5) / 4.0 or 0.75 for j in range(n)] for i in range(n)])

    def Ac(c, i, j):
        a = A0.copy()
        a[i, j] = c
        return a

    for pos in (0, n - 1):
        add(f"lc{pos}(x)", lambda c, pos=pos: V.LinearCombination(cs(c, pos), vx))
        add(f"c@x{pos}", lambda c, pos=pos: cs(c, pos) @ vx)
        add(f"lc{pos}(rev)", lambda c, pos=pos: V.LinearCombination(cs(c, pos), vx[::-1]))
        add(f"lc{pos}(x+1)", lambda c, pos=pos: V.LinearCombination(cs(c, pos), vx + 1.0))
        add(f"lc{pos}(ve)", lambda c, pos=pos: V.LinearCombination(cs(c, pos), ve()))
        add(f"lc{pos}(A@y)", lambda c, pos=pos: V.LinearCombination(cs(c, pos), M.MatrixVectorProduct(A0, vy)))
        add(f"sin(lc{pos}(x))", lambda c, pos=pos: sin(V.LinearCombination(cs(c, pos), vx)))
        add(f"sin(lc{pos}(x))/c", lambda c, pos=pos: sin(V.LinearCombination(cs(c, pos), vx)) * C(1.0 / c))
        add(f"exp(tanh(lc{pos}(ve)))", lambda c, pos=pos: UnaryOp(UnaryOp(V.LinearCombination(cs(c, pos), ve()), "tanh"), "exp"))
        add(f"L*L{pos}", lambda c, pos=pos: (lambda L: L * L)(V.LinearCombination(cs(c, pos), vx)))
        add(f"lc{pos}(x)*y0", lambda c, pos=pos: V.LinearCombination(cs(c, pos), vx) * vy[0])
        add(f"y0/(lc{pos}(x)**2+1)", lambda c, pos=pos: vy[0] / (V.LinearCombination(cs(c, pos), vx) ** 2 + 1.0))
    Q0 = np.array([[(i + 1.0) * (j - 1.0) + (0.5 if i == j else 0.0) for j in range(n)] for i in range(n)])

    def Qc(c, i, j, mirror):
        q_ = Q0.copy()
        q_[i, j] = c
        if i != j and not mirror:
            q_[j, i] = 0.0
        return q_

    for (i, j, mirror) in ((0, 0, False), (0, 1, False), (n - 1, 0, False), (0, 1, True), (1, n - 1, True)):
        ex = not mirror       # Q + Q.T is exact when the mirrored entry is 0 (or the entry is on the diagonal)
        t = f"{i}{j}{'m' if mirror else ''}"
        add(f"qf{t}(x)", lambda c, a=(i, j, mirror): M.QuadraticForm(vx, Qc(c, *a)), ex)
        add(f"qf{t}(x+1)", lambda c, a=(i, j, mirror): M.QuadraticForm(vx + 1.0, Qc(c, *a)), ex)
        add(f"qf{t}(x-y)", lambda c, a=(i, j, mirror): M.QuadraticForm(vx - vy, Qc(c, *a)), ex)
        add(f"qf{t}(ve)", lambda c, a=(i, j, mirror): M.QuadraticForm(ve(), Qc(c, *a)), ex)
        add(f"sin(qf{t}(x))", lambda c, a=(i, j, mirror): sin(M.QuadraticForm(vx, Qc(c, *a))), ex)
        add(f"qf{t}(x)*y0", lambda c, a=(i, j, mirror): M.QuadraticForm(vx, Qc(c, *a)) * vy[0], ex)
    # --- scaled vectors / matrices under every reduction
    add("(c*x).sum", lambda c: (c * vx).sum())
    add("(x/c).sum", lambda c: (vx / c).sum())
    add("(c*x).y", lambda c: V.DotProduct(c * vx, vy))
    add("x.(y*c)", lambda c: V.DotProduct(vx, vy * c))
    add("(c*x).x", lambda c: V.DotProduct(c * vx, vx))
    add("s.s", lambda c: (lambda s_: V.DotProduct(s_, s_))(c * vx))
    add("(c*x).(A@y)", lambda c: V.DotProduct(c * vx, M.MatrixVectorProduct(A0, vy)))
    add("l2(c*x)", lambda c: V.L2Norm(c * vx))
    add("l2(c*x)/c", lambda c: V.L2Norm(c * vx) * C(1.0 / c))
    add("l1(c*x)", lambda c: V.L1Norm(c * vx))
    add("l2(x-c*y)", lambda c: V.L2Norm(vx - c * vy))
    add("lc(c*x)", lambda c: V.LinearCombination(cs(2.0, 0), c * vx))
    add("qf(c*x)", lambda c: M.QuadraticForm(c * vx, Q0))
    add("sin((c*x).y)", lambda c: sin(V.DotProduct(c * vx, vy)))
    add("ps(x,c)", lambda c: V.VectorPowerSum(vx, c), False)
    add("ps(x,1+c)", lambda c: V.VectorPowerSum(vx, 1.0 + c), False)
    add("ps(x,2+c)", lambda c: V.VectorPowerSum(vx, 2.0 + c), False)
    add("c*ps(x,3)", lambda c: C(c) * V.VectorPowerSum(vx, 3))
    add("c*us(x,sin)", lambda c: C(c) * V.VectorUnarySum(vx, "sin"))
    add("us(x,exp)/c", lambda c: V.VectorUnarySum(vx, "exp") / C(c))
    add("c*sum(x)", lambda c: C(c) * V.VectorSum(vx))
    add("sin(c*sum(x))", lambda c: sin(C(c) * V.VectorSum(vx)))
    for (i, j) in ((0, 0), (1, n - 1)):
        add(f"sum(A{i}{j}@y)", lambda c, a=(i, j): M.MatrixVectorProduct(Ac(c, *a), vy).sum())
        add(f"(A{i}{j}@y).x", lambda c, a=(i, j): V.DotProduct(M.MatrixVectorProduct(Ac(c, *a), vy), vx))
        add(f"l2(A{i}{j}@y)", lambda c, a=(i, j): V.L2Norm(M.MatrixVectorProduct(Ac(c, *a), vy)))
        add(f"sin(sum(A{i}{j}@y))", lambda c, a=(i, j): sin(M.MatrixVectorProduct(Ac(c, *a), vy).sum()))
    add("(c*M).sum", lambda c: (c * U.M).sum())
    add("(S*c).sum", lambda c: (U.S * c).sum())
    add("c*fro(M)", lambda c: C(c) * M.FrobeniusNorm(U.M))
    add("sin(c*sum(S))", lambda c: sin(C(c) * U.S.sum()))
    return T


def magnitude_cover(rng, full):
    """[(tag, expr, wrt, c, exact)]: every template × magnitudes of every class (quick: a PRNG sample of each class per
    template, one occurring variable; full: all magnitudes, every occurring variable)"""
    U = gen.Universe(rng)
    mags = magnitudes(rng)
    per = {"tiny": 3, "near1": 3, "huge": 2}
    out = []
    for tag, build, exact in mag_templates(U):
        for cls in MAG_CLASSES:
            vals = mags[cls] if full else rng.sample(mags[cls], per[cls])
            for c in vals:
                try:
                    with warnings.catch_warnings(), np.errstate(all="ignore"):
                        warnings.simplefilter("ignore")
                        e = build(c)
                except (ZeroDivisionError, OverflowError):
                    continue
                vs = gen.expr_vars(e)
                if not vs:
                    continue
                ws = vs if full else [rng.choice(vs)]
                if full and len(ws) > 3:
                    ws = [ws[0], ws[len(ws) // 2], ws[-1]]
                for w in ws:
                    out.append((f"mag:{cls}:{tag}", e, w, c, exact))
    return out


def mag_points(rng, names, c):
    """points for one magnitude case: positive, mixed signs, and one whose scale compensates the constant
    (c·x = O(1), so that a tiny inner coefficient sits at an ordinary argument of the outer function)"""
    names = sorted(names)
    pos = lambda: {k: rng.randint(1, 16) / 8 + 1 / 16 for k in names}  # noqa: E731
    pts = [pos(), {k: rng.randint(-16, 16) / 8 + 1 / 16 for k in names}]
    a = abs(c)
    if (1e-9 <= a <= 1e-2) or (1e2 <= a <= 1e9):
        pts.append({k: v / a for k, v in pos().items()})
    elif 0.5 < a < 2:
        s = rng.choice([1e-6, 1e-3, 1e3, 1e6])
        pts.append({k: v * s for k, v in pos().items()})
    else:
        pts.append(pos())
    return pts


def stored_numbers(e):
    """every number stored in the tree (constants, coefficient arrays, matrices, powers), harness's own walk"""
    from optyx.core.expressions import BinaryOp, Constant, UnaryOp

    out, stack, seen = [], [e], set()
    while stack:
        t = stack.pop()
        if id(t) in seen:
            continue
        seen.add(id(t))
        if isinstance(t, Constant):
            out += [float(v) for v in np.ravel(np.asarray(t.value, dtype=float))]
        elif isinstance(t, BinaryOp):
            stack += [t.left, t.right]
        elif isinstance(t, UnaryOp):
            stack.append(t.operand)
        else:
            for attr in ("coefficients", "power"):
                v = getattr(t, attr, None)
                if v is not None:
                    out += [float(z) for z in np.ravel(np.asarray(v, dtype=float))]
            m = getattr(t, "matrix", None)
            if isinstance(m, np.ndarray):
                out += [float(z) for z in np.ravel(m.astype(float))]
            for attr in ("vector", "left", "right", "expression", "matrix"):
                sub = getattr(t, attr, None)
                ex = getattr(sub, "_expressions", None)
                if ex is not None:
                    stack += [z for row in ex for z in (row if isinstance(row, list) else [row])]
    return out


# relative perturbation patterns (in units of 4 ulp): mixed signs and incommensurable sizes, so that neither a sum
# (cancellation between terms) nor a low-degree monomial x0^a·x1^b (opposite perturbations cancelling) is blind to them
_PERT_SIGNS = ((1.0, -0.7071, 0.5774, -0.4472, 0.3780, -0.3015, 0.2774),
               (-0.6325, 1.0, 0.5345, 0.4851, -0.2887, -0.9487, -0.3536),
               (1.0, 1.0, 1.0, 1.0, 1.0, 1.0, 1.0))


class _NumpyMath:
    """stand-in for the `math` module inside oracle.py: the same functions from NumPy, which keep np.longdouble
    (64-bit mantissa, exponent range 1e±4932) instead of converting to double"""
    _ALIAS = {"asin": "arcsin", "acos": "arccos", "atan": "arctan", "asinh": "arcsinh", "acosh": "arccosh",
              "atanh": "arctanh"}

    def __getattr__(self, name):
        return getattr(np, self._ALIAS.get(name, name))


def _extended(fn, point):
    """run a function of the harness's reference interpreter (oracle.py) in extended precision (np.longdouble
    coordinates, NumPy functions in place of `math`); None if not regular / not finite"""
    old = oracle.math
    oracle.math = _NumpyMath()
    try:
        with warnings.catch_warnings(), np.errstate(all="ignore"):
            warnings.simplefilter("ignore")
            v = fn({k: np.longdouble(x) for k, x in point.items()})
        return v if np.isfinite(v) else None
    except (oracle.NotRegular, OverflowError, ZeroDivisionError, ValueError, TypeError):
        return None
    finally:
        oracle.math = old


def ref_grad_extended(e, point, wrt):
    """the dual-number oracle re-run in extended precision"""
    return _extended(lambda vals: oracle.ref_grad(e, vals, wrt), point)


def ref_eval_extended(g, point):
    """the value of the expression g by the harness's own interpreter in extended precision"""
    return _extended(lambda vals: oracle.prim(oracle.ref_eval(g, vals)), point)


def numeric_check_rel(e, w, point, rtol=MAG_RTOL, g=None):
    """oracle on the real code, RELATIVE criterion: |gradient(e, w)(p) - D| <= rtol·|D| with D from dual numbers.
    For trees whose stored numbers span many orders of magnitude the true derivative may itself be 1e-9- or
    1e+9-sized, so an absolute tolerance says nothing.  returns None (ok) / 'skip' / failure dict.
    Never an alarm because of rounding — a disagreement only counts when
      (G0) D is finite, non-zero and far from under-/overflow of doubles;
      (G1) D does not move by more than rtol/10 (relatively) when every coordinate is perturbed by a few ulps with
           mixed signs and incommensurable sizes: bounds the condition number, incl. cancellation between terms;
      (G2) the rounding error made in evaluating the *returned gradient expression* in doubles, measured against
           the value of that same expression under the harness's interpreter in np.longdouble, is below rtol/10
           (formulas such as 1 - tanh² at a saturated argument, under-/overflow of one association order);
      (G3) the rounding error of the *oracle's* evaluation, measured by re-running it in np.longdouble, is below
           rtol/10.
    The oracle's absolute regularity margin (1e-3 around every singular set) is switched off here — a denominator
    or a log argument 1e-10·x is tiny, not near-singular — only points ON a singular set are irregular; nearness in
    the relative sense is what G1 measures.
    g: a gradient tree obtained EARLIER from gradient(e, w) (parameter histories); default: requested now."""
    old_margin = oracle.MARGIN
    oracle.MARGIN = 0.0
    try:
        return _numeric_check_rel(e, w, point, rtol, g)
    finally:
        oracle.MARGIN = old_margin


def _numeric_check_rel(e, w, point, rtol, g=None):
    import optyx.core.autodiff as AD

    def ref(pt):
        try:
            v = oracle.ref_grad(e, pt, w.name)
        except (oracle.NotRegular, OverflowError, ZeroDivisionError, ValueError):
            return None
        return v if math.isfinite(v) else None

    want = ref(point)
    if want is None or not (1e-250 < abs(want) < 1e250):
        return "skip"
    with warnings.catch_warnings(), np.errstate(all="ignore"):
        warnings.simplefilter("ignore")
        try:
            if g is None:
                g = AD.gradient(e, w)
            got = float(np.asarray(g.evaluate(point)))
        except Exception as ex:  # noqa: BLE001
            return {"what": "gradient raised", "error": f"{type(ex).__name__}: {ex}"[:200], "criterion": "relative"}
        if math.isfinite(got) and abs(got - want) <= rtol * abs(want):
            return None
        slack = 0.1 * rtol * abs(want)
        names = sorted(point)
        for signs in _PERT_SIGNS:                                                         # G1
            pert = {k: point[k] * (1.0 + 4 * EPS * signs[i % len(signs)]) for i, k in enumerate(names)}
            w2 = ref(pert)
            if w2 is None or abs(w2 - want) > slack:
                return "skip"
        want_x = ref_grad_extended(e, point, w.name)                                      # G3
        if want_x is None or abs(want_x - np.longdouble(want)) > slack:
            return "skip"
        got_x = ref_eval_extended(g, point)                                               # G2
        if got_x is None:
            return "skip"
        if not math.isfinite(got):
            nums = [abs(v) for v in stored_numbers(e) + list(point.values()) if v != 0.0]
            if abs(got_x) < 1e300 or any(v < 1e-100 or v > 1e100 for v in nums):
                return "skip"
        elif abs(got_x - np.longdouble(got)) > slack:
            return "skip"
    return {"what": "gradient value differs from the true partial derivative (relative criterion)", "got": got,
            "want": want, "rel_err": abs(got - want) / abs(want) if math.isfinite(got) else float("inf"),
            "rtol": rtol, "criterion": "relative"}


def magnitude_oracle(rng, cases, rep=None, limit=None):
    """relative dual-number oracle over magnitude cases at mag_points; returns (failures, points checked); stops
    after `limit` failures (one per case at most)"""
    fails = []
    n_pts = 0
    for tag, e, w, c, _exact in cases:
        names = {v.name for v in gen.expr_vars(e)} | {w.name}
        for pt in mag_points(rng, names, c):
            r = numeric_check_rel(e, w, pt)
            n_pts += 1
            if r == "skip":
                if rep is not None:
                    rep.skipped["mag-irregular-or-ill-conditioned"] = rep.skipped.get("mag-irregular-or-ill-conditioned", 0) + 1
            elif r is not None:
                try:
                    s = ser(e)
                except Unsupported as ex:
                    s = f"unsupported:{ex}"
                r.update({"expr": s, "wrt": w.name, "point": pt, "family": tag, "constant": c})
                fails.append(r)
                if limit is not None and len(fails) >= limit:
                    return fails, n_pts
                break
    return fails, n_pts


def py_gradients(e, w):
    """the real function through each of its tiers; returns {tier: serialised | 'raise:<Class>'}"""
    import optyx.core.autodiff as AD

    res = {}

    def grab(fn):
        try:
            with warnings.catch_warnings():
                warnings.simplefilter("ignore")
                return ser(fn(), with_ids=False)
        except Unsupported as ex:
            return f"unsupported:{ex}"
        except RecursionError:
            return "raise:RecursionError"
        except Exception as ex:  # noqa: BLE001
            return f"raise:{type(ex).__name__}"

    res["gradient"] = grab(lambda: AD.gradient(e, w))
    old = AD._RECURSION_THRESHOLD
    try:
        AD._RECURSION_THRESHOLD = 0  # force the explicit-stack differentiator on every tree
        res["iterative"] = grab(lambda: AD.gradient(e, w))
    finally:
        AD._RECURSION_THRESHOLD = old
    return res


def numeric_check(e, w, point, g=None):
    """oracle on the real code: gradient(e, w).evaluate(point) vs dual numbers.
    g: a gradient tree obtained EARLIER from gradient(e, w) (parameter histories); default: requested now.
    returns None (ok / skipped) or a failure dict"""
    import optyx.core.autodiff as AD

    try:
        want = oracle.ref_grad(e, point, w.name)
    except (oracle.NotRegular, OverflowError, ZeroDivisionError, ValueError):
        return "skip"
    if not math.isfinite(want) or abs(want) > 1e8:
        return "skip"
    with warnings.catch_warnings(), np.errstate(all="ignore"):
        warnings.simplefilter("ignore")
        try:
            if g is None:
                g = AD.gradient(e, w)
            got = float(np.asarray(g.evaluate(point)))
        except Exception as ex:  # noqa: BLE001
            return {"what": "gradient raised", "error": f"{type(ex).__name__}: {ex}"[:200]}
    if not oracle.close(got, want, rtol=1e-6, atol=1e-7):
        # conditioning guard: a point where the reference itself moves a lot under a tiny
        # perturbation is not a trustworthy witness
        try:
            pert = {k: v * (1 + 1e-9) + 1e-12 for k, v in point.items()}
            want2 = oracle.ref_grad(e, pert, w.name)
            if not oracle.close(want, want2, rtol=1e-4, atol=1e-6):
                return "skip"
        except Exception:  # noqa: BLE001
            return "skip"
        return {"what": "gradient value differs from the true partial derivative", "got": got, "want": want}
    return None


# ------------------------------------------------------------------ Parameters × set histories (checklist 29)
#
# A Parameter is a leaf whose value changes between calls; `gradient(e, v)` is a TREE, and the property speaks about
# what that tree evaluates to — at the parameter values in force when it is EVALUATED.  So nothing the differentiator
# decides may depend on the value a Parameter happens to hold when the tree is built (shortcuts around 0 and 1, constant
# folding, "fixed exponent" rules, tolerance tests).  Family: Parameters in every position of the differentiated tree
# (exponent, coefficient, base, additive term, denominator, compound variable-free sub-expressions 2*p / p-q / -p / p*q,
# inside vector nodes and beside them, at the far end of deep chains) × histories
#     build while the parameters hold v0 -> gradient -> set(v1) -> gradient again -> set(v2) -> gradient again
# with v0 / v1 / v2 from {0, 1 (exactly; also the constructor's default), within 1e-9 of 0 and 1, generic}; after every
# step EVERY tree obtained so far and the tree returned by a fresh request (the memo of `_gradient_cached` is keyed on
# the expression object) is judged at the CURRENT values against the dual-number oracle (which reads the current values),
# on the recursive path and on the explicit-stack path (threshold forced to 0), values handed over in several numeric types.

PH_SPECIAL = [0.0, 1.0]
PH_GENERIC = [3.0, 2.5, -1.0, 2.0, 0.5, -2.5, 4.0, 1.5, -0.5, -2.0]
PH_NEAR = [1e-9, 1.0 + 1e-9, 1.0 - 1e-9, -1e-9, 1e-12, 1.0 + 1e-12, 1.0 - 2.0 ** -52, 9e-9, 1.0 + 9e-9]
PH_FORMS = ("float", "int", "np.float64", "np.int64", "0d", "np.float32", "np.int8")
PH_PATHS = ("recursive", "iterative")


def ph_value(form, v):
    """the value v in the numeric type `form` (as handed to Parameter(...) / Parameter.set)"""
    if form == "int":
        return int(v)
    if form == "np.float64":
        return np.float64(v)
    if form == "np.int64":
        return np.int64(int(v))
    if form == "np.int8":
        return np.int8(int(v))
    if form == "np.float32":
        return np.float32(v)
    if form == "0d":
        return np.array(float(v))
    return float(v)


def ph_form(rng, v):
    """a numeric type able to hold v exactly"""
    forms = ["float", "float", "np.float64", "0d"]
    if float(v).is_integer() and abs(v) < 100:
        forms += ["int", "int", "np.int64", "np.int8"]
    if float(np.float32(v)) == float(v):
        forms.append("np.float32")
    return rng.choice(forms)


def ph_universe(rng, stage0, via):
    """fresh modelling objects + the two parameters (roles 'p', 'q') created AT their first values.
    via = 'scalar': two Parameter objects, updated by Parameter.set; form 'default' = Parameter(name) without a value
    via = 'vector': the elements of one VectorParameter, updated together by VectorParameter.set(array)"""
    from optyx import Parameter, VectorParameter

    U = gen.Universe(rng)
    if via == "vector":
        vp = VectorParameter("pv", 2, np.array([float(stage0["p"][1]), float(stage0["q"][1])]))
        P = {"p": vp[0], "q": vp[1]}

        def setter(stage):
            vp.set(np.array([float(stage["p"][1]), float(stage["q"][1])]))
    else:
        P = {}
        for role in ("p", "q"):
            form, v = stage0[role]
            P[role] = Parameter("ph" + role) if form == "default" else Parameter("ph" + role, ph_value(form, v))

        def setter(stage):
            for role in ("p", "q"):
                form, v = stage[role]
                P[role].set(ph_value("float" if form == "default" else form, v))
    return U, P, setter


def param_templates(U, P):
    """[(tag, thunk -> expression)]: Parameters p, q in every position of a differentiated tree"""
    from optyx.core.expressions import Constant as C, UnaryOp
    from optyx.core import vectors as V
    from optyx.core import matrices as M

    x, y = U.scalars[0], U.scalars[1]
    vx, vy, n = U.x, U.y, U.n
    p, q = P["p"], P["q"]
    sin = lambda a: UnaryOp(a, "sin")  # noqa: E731
    un = lambda op, a: UnaryOp(a, op)  # noqa: E731
    cs = np.array(([2.0, -1.0, 0.5] + [1.0] * n)[:n])
    Q = np.array([[(i + 1.0) * (j - 1.0) + (0.5 if i == j else 0.0) for j in range(n)] for i in range(n)])
    T = []

    def add(tag, f):
        T.append((tag, f))

    # --- exponent
    add("x**p", lambda: x ** p)
    add("(x*y+1.5)**p", lambda: (x * y + 1.5) ** p)
    add("(x*x+1)**p+sin(x)", lambda: (x * x + 1.0) ** p + sin(x))
    add("sin(x**p)", lambda: sin(x ** p))
    add("(x**p)*y", lambda: (x ** p) * y)
    add("y*(x**p)", lambda: y * (x ** p))
    add("y/((x*x+1)**p+2)", lambda: y / ((x * x + 1.0) ** p + 2.0))
    add("(x**p)**2", lambda: (x ** p) ** 2)
    add("(x**2)**p", lambda: (x ** 2) ** p)
    add("(x**p)**q", lambda: (x ** p) ** q)
    add("x**p*x**q", lambda: x ** p * x ** q)
    add("x**p+y**p", lambda: x ** p + y ** p)
    add("x**p-x", lambda: x ** p - x)
    add("t*t:x**p", lambda: (lambda t: t * t)(x ** p))
    add("exp(x)**p", lambda: un("exp", un("tanh", x)) ** p)
    add("log(x**p+1)", lambda: un("log", x ** p + 1.0))
    add("(x**p-y)**2", lambda: (x ** p - y) ** 2)
    add("3*x**p", lambda: 3.0 * x ** p)
    add("-(x**p)", lambda: -(x ** p))
    add("(x*y)**p/y", lambda: (x * y) ** p / y)
    add("x**(2*p)", lambda: x ** (2.0 * p))
    add("x**(p-q)", lambda: x ** (p - q))
    add("x**(-p)", lambda: x ** (-p))
    add("x**(p*q)", lambda: x ** (p * q))
    add("x**(p+1)", lambda: x ** (p + 1.0))
    add("x**(p/2)", lambda: x ** (p / 2.0))
    add("x**(p*y)", lambda: x ** (p * y))
    add("(x*x+1)**(y+p)", lambda: (x * x + 1.0) ** (y + p))
    # --- coefficient
    add("p*x", lambda: p * x)
    add("x*p", lambda: x * p)
    add("p*(x*y)", lambda: p * (x * y))
    add("(p*x)*y", lambda: (p * x) * y)
    add("y*(x*p)", lambda: y * (x * p))
    add("p*sin(x)", lambda: p * sin(x))
    add("sin(p*x)", lambda: sin(p * x))
    add("exp(p*x)", lambda: un("exp", p * un("tanh", x)))
    add("(p*x)**2", lambda: (p * x) ** 2)
    add("(p*x)**3*y", lambda: (p * x) ** 3 * y)
    add("(p*p*x+1)**q", lambda: (p * p * x * x + 1.0) ** q)
    add("p*x*x", lambda: p * x * x)
    add("p*x+q*y", lambda: p * x + q * y)
    add("(p*x)*(q*x)", lambda: (p * x) * (q * x))
    add("-(p*x)", lambda: -(p * x))
    add("(2*p)*x", lambda: (2.0 * p) * x)
    add("(p-q)*x", lambda: (p - q) * x)
    add("(-p)*x", lambda: (-p) * x)
    add("(p*q)*x", lambda: (p * q) * x)
    add("(p+1)*x", lambda: (p + 1.0) * x)
    add("x*x*p+x", lambda: x * x * p + x)
    add("sin(x)*p*cos(y)", lambda: sin(x) * p * un("cos", y))
    add("p*x-x*y", lambda: p * x - x * y)
    add("p*x**3", lambda: p * x ** 3)
    add("t*t:p*x", lambda: (lambda t: t * t)(p * x))
    for op in ("cos", "tanh", "atan", "sinh", "abs", "sqrt", "log"):
        inner = (lambda: p * x) if op not in ("sqrt", "log") else (lambda: p * p * x * x + 1.0)
        add(f"{op}(p*x)", lambda op=op, inner=inner: un(op, inner()))
        add(f"p*{op}(x)", lambda op=op: p * un(op, x * x + 1.0))
    # --- numerator / denominator
    add("x/p", lambda: x / p)
    add("p/x", lambda: p / x)
    add("(p*x)/y", lambda: (p * x) / y)
    add("y/(p*x)", lambda: y / (p * x))
    add("x/(p*p+1)", lambda: x / (p * p + 1.0))
    add("x/(y*y+p*p+1)", lambda: x / (y * y + p * p + 1.0))
    add("p/(x*x+1)", lambda: p / (x * x + 1.0))
    add("1/(x*x+p*p+0.5)", lambda: C(1.0) / (x * x + p * p + 0.5))
    add("(x/p)/y", lambda: (x / p) / y)
    # --- base
    add("p**x", lambda: p ** x)
    add("p**(x*y)", lambda: p ** (x * y))
    add("(p*p+1)**x", lambda: (p * p + 1.0) ** x)
    add("(p*p+q*q+0.5)**x", lambda: (p * p + q * q + 0.5) ** x)
    add("(p*x)**y", lambda: (p * x) ** y)
    add("p**x*y", lambda: p ** x * y)
    add("sin(p**x)", lambda: sin(p ** x))
    # --- additive term
    add("x+p", lambda: x + p)
    add("p-x", lambda: p - x)
    add("(x+p)**2", lambda: (x + p) ** 2)
    add("(x+p)**3", lambda: (x + p) ** 3)
    add("sin(x+p)", lambda: sin(x + p))
    add("(x+p)*(y-q)", lambda: (x + p) * (y - q))
    add("(x-p)*(x-p)", lambda: (x - p) * (x - p))
    add("log((x+p)**2+1)", lambda: un("log", (x + p) ** 2 + 1.0))
    add("(x+p)/(y*y+1+q*q)", lambda: (x + p) / (y * y + 1.0 + q * q))
    add("x*(y+p)", lambda: x * (y + p))
    add("(x+p)*x", lambda: (x + p) * x)
    add("(x+p)**q", lambda: ((x + p) * (x + p) + 1.0) ** q)
    # --- inside vector nodes and beside them
    add("c@ve(p)", lambda: cs @ V.VectorExpression([p * vx[0], vx[1] + p] + [vx[i] * vx[i] * q for i in range(2, n)]))
    add("lc(ve(x**p))", lambda: V.LinearCombination(cs, V.VectorExpression([(vx[i] * vx[i] + 1.0) ** p for i in range(n)])))
    add("ve(pq)@x", lambda: V.VectorExpression(([p, q, p * q] + [p] * n)[:n]) @ vx)
    add("x.dot(ve(pq))", lambda: vx.dot(V.VectorExpression(([q, p - q, -p] + [p] * n)[:n])))
    add("dot(ve(p*x),y)", lambda: V.DotProduct(V.VectorExpression([p * v for v in vx]), vy))
    add("dot(s,s):p*x", lambda: (lambda s_: V.DotProduct(s_, s_))(V.VectorExpression([p * v + q for v in vx])))
    add("p*(c@x)", lambda: p * (cs @ vx))
    add("(c@x)*p", lambda: (cs @ vx) * p)
    add("p*(c@x)+q*x0", lambda: p * (cs @ vx) + q * vx[0])
    add("((c@x)**2+1)**p", lambda: ((cs @ vx) ** 2 + 1.0) ** p)
    add("(c@x)**2*p", lambda: (cs @ vx) ** 2 * p)
    add("sin(p*(c@x))", lambda: sin(p * (cs @ vx)))
    add("p*x.dot(y)", lambda: p * vx.dot(vy))
    add("x.dot(y)**p", lambda: (vx.dot(vx) + 1.0) ** p)
    add("l2(ve(p))", lambda: V.L2Norm(V.VectorExpression([p * vx[0], vx[1] + q] + [vx[i] for i in range(2, n)])))
    add("l1(ve(p))", lambda: V.L1Norm(V.VectorExpression([p * vx[0] + 3.0, vx[1] * q + 3.0] + [vx[i] for i in range(2, n)])))
    add("p*l2(x)", lambda: p * V.L2Norm(vx))
    add("l2(x)**p", lambda: V.L2Norm(vx) ** p)
    add("qf(ve(p))", lambda: M.QuadraticForm(V.VectorExpression([p * vx[0], vx[1] + p] + [vx[i] ** 2 * q for i in range(2, n)]), Q))
    add("p*qf(x)", lambda: p * M.QuadraticForm(vx, Q))
    add("sum(ve(p))", lambda: V.VectorExpression([p * sin(vx[0]), (vx[1] * vx[1] + 1.0) ** p] + [q * vx[i] for i in range(2, n)]).sum())
    add("p*ps(x,3)", lambda: p * V.VectorPowerSum(vx, 3))
    add("ps(x,2)**p", lambda: (V.VectorPowerSum(vx, 2) + 1.0) ** p)
    add("p*us(x,sin)", lambda: p * V.VectorUnarySum(vx, "sin"))
    add("p*sum(x)", lambda: p * V.VectorSum(vx))
    add("sin(p*sum(x))", lambda: sin(p * V.VectorSum(vx)))
    add("(sum(x)+p)**2", lambda: (V.VectorSum(vx) + p) ** 2)
    add("p*sum(M)", lambda: p * U.M.sum())
    add("fro(S)**p", lambda: M.FrobeniusNorm(U.S) ** p)
    add("p*(M*M).sum", lambda: p * (U.M * U.M).sum() + q * U.M[0, 1])

    # --- depth: the parameter-carrying node at the far end of / on top of a chain deeper than the recursion threshold
    def chain(start, m=420):
        acc = start
        for i in range(m):
            acc = acc + C(((i % 7) - 3) / 8.0) * (y if i % 2 else x)
        return acc

    add("deep:x**p+chain", lambda: chain(x ** p))
    add("deep:p*x+chain", lambda: chain(p * x * x))
    add("deep:(chain**2+1)**p", lambda: (chain(x) * C(1.0 / 64) * (chain(y) * C(1.0 / 64)) + 2.0) ** p)
    add("deep:p*chain", lambda: p * chain(x * y))
    return T


def expr_params(e):
    """name -> Parameter object occurring in the tree (harness's own explicit-stack walk, through vector containers)"""
    from optyx.core.expressions import BinaryOp, UnaryOp
    from optyx.core.parameters import Parameter

    out, stack, seen = {}, [e], set()
    while stack:
        t = stack.pop()
        if id(t) in seen:
            continue
        seen.add(id(t))
        if isinstance(t, Parameter):
            out.setdefault(t.name, t)
        elif isinstance(t, BinaryOp):
            stack += [t.left, t.right]
        elif isinstance(t, UnaryOp):
            stack.append(t.operand)
        else:
            for attr in ("vector", "left", "right", "expression", "matrix"):
                ex = getattr(getattr(t, attr, None), "_expressions", None)
                if ex is not None:
                    stack += [z for row in ex for z in (row if isinstance(row, list) else [row])]
    return out


def nonliteral_pow_bases(e):
    """the base sub-trees of every `**` whose exponent is not a literal Constant (walk as above)"""
    from optyx.core.expressions import BinaryOp, Constant, UnaryOp

    out, stack, seen = [], [e], set()
    while stack:
        t = stack.pop()
        if id(t) in seen:
            continue
        seen.add(id(t))
        if isinstance(t, BinaryOp):
            if t.op == "**" and not isinstance(t.right, Constant):
                out.append(t.left)
            stack += [t.left, t.right]
        elif isinstance(t, UnaryOp):
            stack.append(t.operand)
        else:
            for attr in ("vector", "left", "right", "expression", "matrix"):
                ex = getattr(getattr(t, attr, None), "_expressions", None)
                if ex is not None:
                    stack += [z for row in ex for z in (row if isinstance(row, list) else [row])]
    return out


def regular_nonliteral_pow(bases, point) -> bool:
    """`Regular` of the Lean model for base ** (anything but a literal): 0 < base (a Parameter exponent is not a literal,
    whatever integer it currently holds; the library differentiates such a power through exp / log).  With margin."""
    for b in bases:
        try:
            if not oracle.prim(oracle.ref_eval(b, point)) > 1e-2:
                return False
        except (oracle.NotRegular, OverflowError, ZeroDivisionError, ValueError):
            return False
    return True


def ph_points(rng, names, k=2):
    """positive points first (bases of parameter powers are then usually positive), then mixed signs"""
    names = sorted(names)
    pts = [{m: rng.randint(2, 16) / 8 + 1 / 16 for m in names}]
    while len(pts) < k:
        pts.append({m: rng.randint(-16, 16) / 8 + 1 / 16 for m in names})
    return pts


def ph_histories(rng, full):
    """[[stage, ...]]; stage = {'p': (form, value), 'q': (form, value)}.  Always: first differentiation while p is
    exactly 0 / exactly 1 / the constructor's default, then generic and back to the other special value; generic first,
    then 0 and 1; values within 1e-9 of 0 and 1; every value in a numeric type drawn from those able to hold it."""
    G, S, N = PH_GENERIC, PH_SPECIAL, PH_NEAR
    g = lambda: rng.choice(G)  # noqa: E731
    seqs = [[0.0, g(), 1.0], [1.0, g(), 0.0], ["default", g(), rng.choice(S + G)],
            [g(), rng.choice(S), g()], [rng.choice(N), g(), rng.choice(S + N)]]
    if full:
        seqs += [[0.0, 1.0, g()], [1.0, 0.0, g()], [g(), g(), rng.choice(S)], [g(), rng.choice(N), g()],
                 [0.0, rng.choice(N), g()], [1.0, rng.choice(N), 0.0], [-1.0, 1.0, g()], [2.0, 0.0, 1.0]]
    else:
        seqs = seqs[:3] + [rng.choice(seqs[3:])]
    out = []
    for ps in seqs:
        # q: its own walk through special / generic values, special at the first differentiation half of the time
        qs = [rng.choice(S) if rng.random() < 0.5 else g()]
        while len(qs) < len(ps):
            qs.append(rng.choice([v for v in S + G if v != qs[-1]]))
        stages = []
        for i, (pv, qv) in enumerate(zip(ps, qs)):
            if pv == "default":
                pst = ("default", 0.0)
            else:
                if i and float(pv) == float(stages[-1]["p"][1]):
                    pv = pv + 1.0
                pst = (ph_form(rng, pv), float(pv))
            stages.append({"p": pst, "q": (ph_form(rng, qv), float(qv))})
        out.append(stages)
    return out


def _request_gradient(e, w, path, i):
    """gradient(e, w) through the path under test: 'recursive' (the library's own choice: registered rule / memoised
    recursion / explicit stack for deep trees), 'iterative' (explicit stack forced), 'mixed' (alternating per request)"""
    import optyx.core.autodiff as AD

    force = path == "iterative" or (path == "mixed" and i % 2 == 1)
    old = AD._RECURSION_THRESHOLD
    try:
        if force:
            AD._RECURSION_THRESHOLD = 0
        with warnings.catch_warnings():
            warnings.simplefilter("ignore")
            return AD.gradient(e, w)
    finally:
        AD._RECURSION_THRESHOLD = old


def run_param_history(e, P, setter, stages, path, wrts, points):
    """one history on one expression OBJECT.  P: role -> Parameter (already holding stages[0]); after every stage every
    gradient tree obtained so far (and the one requested now) is judged at the current parameter values.
    returns (failure | None, number of oracle evaluations, number skipped)"""
    held = {w.name: [] for w in wrts}
    bases = nonliteral_pow_bases(e)
    n_chk = n_skip = 0
    for i, stage in enumerate(stages):
        if i:
            setter(stage)
        now = {r: float(np.asarray(P[r].value)) for r in P}
        for w in wrts:
            try:
                held[w.name].append((i, _request_gradient(e, w, path, i)))
            except Exception as ex:  # noqa: BLE001
                return ({"what": f"gradient() raised {type(ex).__name__} (parameter history)", "error": str(ex)[:200],
                         "wrt": w.name, "stage": i, "tree_from_stage": i, "param_values": now}, n_chk, n_skip)
        for pt in points:
            if not regular_nonliteral_pow(bases, pt):
                n_skip += 1
                continue
            for w in wrts:
                for j, g in held[w.name]:
                    r = numeric_check(e, w, pt, g=g)
                    n_chk += 1
                    if r is None:
                        # a derivative that is itself 1e-9-small (a parameter now holding 1e-9): judged relatively
                        try:
                            want = oracle.ref_grad(e, pt, w.name)
                        except (oracle.NotRegular, OverflowError, ZeroDivisionError, ValueError):
                            want = None
                        if want is not None and 0.0 < abs(want) < 1e-4:
                            r = numeric_check_rel(e, w, pt, rtol=1e-9, g=g)
                    if r == "skip":
                        n_skip += 1
                    elif r is not None:
                        what = ("the gradient tree obtained while the parameters held earlier values is not the partial "
                                "derivative at the current parameter values (something was decided on a Parameter's value "
                                "at differentiation time)") if j < i else \
                               ("gradient(e, v) requested after Parameter.set() is not the partial derivative at the current "
                                "parameter values") if i else \
                               "gradient value differs from the true partial derivative (tree with Parameters)"
                        r.update({"what": what, "wrt": w.name, "point": pt, "stage": i, "tree_from_stage": j,
                                  "param_values": now})
                        return r, n_chk, n_skip
    return None, n_chk, n_skip


def _ph_failure(r, e, tag, via, path, stages, P):
    try:
        s = ser(e)
    except Unsupported as ex:
        s = f"unsupported:{ex}"
    r.update({"kind": "param-history", "family": "phist:" + tag, "template": tag, "via": via, "path": path, "expr": s,
              "history": [{k: [v[0], v[1]] for k, v in st.items()} for st in stages],
              "param_names": {role: P[role].name for role in P}})
    return r


def param_history_oracle(rng, full, rep=None, limit=None, only=None):
    """every template × histories × paths; a fresh build of the template (fresh expression object: the memo of the
    recursive differentiator is keyed on it) for every (history, path).  returns (failures, runs, oracle evaluations)"""
    fails, n_runs, n_chk = [], 0, 0
    tags = [t for t, _ in param_templates(*ph_universe(rng, {"p": ("float", 2.0), "q": ("float", 3.0)}, "scalar")[:2])]
    paths = PH_PATHS + ("mixed",) if full else PH_PATHS
    for tag in tags:
        if only is not None and tag != only:
            continue
        deep = tag.startswith("deep:")
        for stages in ph_histories(rng, full and not deep):
            for path in paths:
                via = "vector" if (rng.random() < 0.2 and stages[0]["p"][0] != "default") else "scalar"
                U, P, setter = ph_universe(rng, stages[0], via)
                build = dict(param_templates(U, P))[tag]
                try:
                    with warnings.catch_warnings(), np.errstate(all="ignore"):
                        warnings.simplefilter("ignore")
                        e = build()
                except (ZeroDivisionError, OverflowError):
                    continue
                vs = gen.expr_vars(e)
                if not vs:
                    continue
                wrts = vs if (full and len(vs) <= 3) else ([vs[0]] if len(vs) == 1 else rng.sample(vs, 2))
                if deep:
                    wrts = wrts[:1]
                pts = ph_points(rng, {v.name for v in vs}, 3 if full else 2)
                r, c, sk = run_param_history(e, P, setter, stages, path, wrts, pts)
                n_runs += 1
                n_chk += c
                if rep is not None and sk:
                    rep.skipped["phist-irregular-point"] = rep.skipped.get("phist-irregular-point", 0) + sk
                if r is not None:
                    fails.append(_ph_failure(r, e, tag, via, path, stages, P))
                    if limit is not None and len(fails) >= limit:
                        return fails, n_runs, n_chk
                    break
            else:
                continue
            break       # one failure per template is enough
    return fails, n_runs, n_chk


def _text_setter(P, ps):
    """setter for a rebuilt tree: roles p (and q, when there are two parameters) follow the history, every further
    parameter follows q's values"""
    def setter(stage):
        for role, o in P.items():
            o.set(ph_value("float" if stage[role][0] == "default" else stage[role][0], stage[role][1]))
        for o in ps.values():
            if all(o is not r for r in P.values()):
                o.set(float(stage["q"][1]))
    return setter


def param_history_on_text(rng, text, wrt_name, full=False):
    """the same histories on an arbitrary serialised expression containing Parameters (search(): the mismatching cases
    themselves); every history on a freshly rebuilt tree.  returns a failure or None"""
    from ser import Deser

    probe = deser(text)
    names = sorted(expr_params(probe))
    if not names:
        return None
    roles = {"p": names[0]}
    if len(names) > 1:
        roles["q"] = names[1]
    for stages in ph_histories(rng, full):
        for path in PH_PATHS:
            e = deser(text, Deser())
            ps = expr_params(e)
            P = {role: ps[nm] for role, nm in roles.items()}
            setter = _text_setter(P, ps)
            setter(stages[0])
            vs = gen.expr_vars(e)
            w = next((v for v in vs if v.name == wrt_name), None)
            if w is None:
                return None
            r, _c, _s = run_param_history(e, P, setter, stages, path, [w], ph_points(rng, {v.name for v in vs}, 3))
            if r is not None:
                return _ph_failure(r, e, "", "scalar", path, stages, P)
    return None


def replay_param_history(f) -> bool:
    """rebuild the tree (by template tag when it came from the family, else from its serialisation), re-run the history"""
    import sys
    from ser import Deser

    stages = [{k: (v[0], float(v[1])) for k, v in st.items()} for st in f["history"]]
    rng = core.Rng(0)
    old_limit = sys.getrecursionlimit()
    sys.setrecursionlimit(max(old_limit, 20000))
    try:
        if f.get("template"):
            U, P, setter = ph_universe(rng, stages[0], f.get("via", "scalar"))
            e = dict(param_templates(U, P))[f["template"]]()
        else:
            e = deser(f["expr"], Deser())
            ps = expr_params(e)
            P = {role: ps[nm] for role, nm in f["param_names"].items()}
            setter = _text_setter(P, ps)
            setter(stages[0])
    finally:
        sys.setrecursionlimit(old_limit)
    w = next((v for v in gen.expr_vars(e) if v.name == f["wrt"]), None)
    if w is None:
        print("variable not found:", f["wrt"])
        return True
    pt = {k: float(v) for k, v in f["point"].items()}
    r, n, _ = run_param_history(e, P, setter, stages, f.get("path", "recursive"), [w], [pt])
    print("history:", f["history"], "path:", f.get("path"), "oracle evaluations:", n)
    print("result:", r)
    return r is None


# ------------------------------------------------------------------ handles equal by NAME × histories on the name-keyed memo
#
# In optyx a variable IS its name: Variable.__eq__ / __hash__ compare names, evaluate() looks values up by name, and the
# memo of the recursive differentiator is keyed on (expression, wrt) with wrt hashed BY NAME.  So "the derivative of e
# with respect to v" is the derivative with respect to the NAME v.name, whichever Python object carries it.  Family:
#   handle      the wrt object is equal by name to the leaves of e but a DIFFERENT object: Variable(name) again, an element
#               of a re-created VectorVariable / MatrixVariable (general and symmetric), copy.copy, a pickle round trip;
#   build       one model object per name, or "helpers": the tree is assembled from parts built by separate helpers that
#               each created their own objects with the same names (then no single object is "the" leaf: wrt is one of
#               them or a further one);
#   tree        scalar leaves under + - * / ** and unary functions, vector / matrix elements used as scalar leaves, vector
#               nodes beside scalar leaves and over element expressions, seeded random trees, a chain deeper than the
#               recursion threshold;
#   history     on the name-keyed memo: twin handle first on a cold memo, then the original; original first, then the twin;
#               whatever the memo holds (no clearing), twin / original / another twin; original, clear, twin, original;
#   path        memoised recursion / explicit stack (threshold forced to 0) / alternating.
# After every request the returned tree is judged by dual numbers w.r.t. the handle's NAME at dyadic points.

TW_PATHS = ("recursive", "iterative", "mixed")
TW_HISTORIES = (
    ("cold:twin,orig", ("clear", "twin", "orig")),
    ("cold:orig,twin", ("clear", "orig", "twin")),
    ("warm:twin,orig,twin2", ("twin", "orig", "twin2")),
    ("orig,clear,twin,orig", ("orig", "clear", "twin", "orig")),
    ("cold:twin,twin2,clear,orig,twin", ("clear", "twin", "twin2", "clear", "orig", "twin")),
)
_TW_VEC = re.compile(r"^(.*)\[(\d+)\]$")
_TW_MAT = re.compile(r"^(.*)\[(\d+),(\d+)\]$")


def clear_gradient_memos():
    """empty every functools memo of the differentiator module (whatever they are called)"""
    import optyx.core.autodiff as AD

    for f in list(vars(AD).values()):
        clear = getattr(f, "cache_clear", None)
        if callable(clear):
            clear()


def twin_kinds(name):
    """the ways of obtaining another handle for the variable called `name`"""
    ks = ["recreated", "copy", "pickle"]
    if _TW_VEC.match(name):
        ks += ["vector-element", "reversed-vector-element"]
    m = _TW_MAT.match(name)
    if m:
        ks.append("matrix-element")
        if int(m.group(2)) <= int(m.group(3)):
            ks.append("symmetric-matrix-element")
    return ks


def make_twin(kind, w):
    """a Variable equal to w (same name) that is not the object w"""
    import copy
    import pickle
    from optyx import MatrixVariable, Variable, VectorVariable

    name = w.name
    if kind == "copy":
        t = copy.copy(w)
    elif kind == "pickle":
        t = pickle.loads(pickle.dumps(w))
    elif kind == "vector-element":
        m = _TW_VEC.match(name)
        t = VectorVariable(m.group(1), int(m.group(2)) + 2)[int(m.group(2))]
    elif kind == "reversed-vector-element":
        m = _TW_VEC.match(name)
        t = VectorVariable(m.group(1), int(m.group(2)) + 1)[::-1][0]
    elif kind in ("matrix-element", "symmetric-matrix-element"):
        m = _TW_MAT.match(name)
        i, j = int(m.group(2)), int(m.group(3))
        k = max(i, j) + 1
        t = MatrixVariable(m.group(1), k, k, symmetric=True)[i, j] if kind.startswith("sym") else \
            MatrixVariable(m.group(1), i + 1, j + 1)[i, j]
    else:
        t = Variable(name)
    if t is w or t.name != name or not (t == w) or hash(t) != hash(w):
        raise AssertionError(f"harness: make_twin({kind}) did not produce an equal, non-identical handle for {name}")
    return t


def leaf_objects(e):
    """name -> the DISTINCT Variable objects carrying that name inside e, in a deterministic traversal order
    (explicit stack, independent of optyx's own traversals)"""
    from optyx.core.expressions import BinaryOp, UnaryOp, Variable

    out, seen, stack = {}, set(), [e]
    while stack:
        n = stack.pop()
        if id(n) in seen:
            continue
        seen.add(id(n))
        if isinstance(n, Variable):
            out.setdefault(n.name, []).append(n)
        elif isinstance(n, BinaryOp):
            stack += [n.right, n.left]
        elif isinstance(n, UnaryOp):
            stack.append(n.operand)
        else:
            for attr in ("matrix", "expression", "right", "left", "vector"):
                sub = getattr(n, attr, None)
                if sub is None:
                    continue
                if hasattr(sub, "_expressions"):
                    ex = sub._expressions
                    stack += [y for row in ex for y in (row if isinstance(row, list) else [row])][::-1]
                elif hasattr(sub, "_variables"):
                    vs = sub._variables
                    stack += [y for row in vs for y in (row if isinstance(row, list) else [row])][::-1]
                elif hasattr(sub, "evaluate"):
                    stack.append(sub)
    return out


def twin_templates(rng, full):
    """[(tag, tree)] on fresh objects; 'helpers:*' are assembled from two universes with the same names"""
    from optyx.core.expressions import Constant as C
    from optyx.core.functions import exp, sin, tanh
    from optyx.core import vectors as V
    from optyx.core import matrices as M

    U, U2 = gen.Universe(rng), gen.Universe(rng)
    a, b = U.scalars[:2]
    a2, b2 = U2.scalars[:2]
    x, x2, n = U.x, U2.x, U.n
    cs = np.array([2.0, -1.0, 0.5][:n] + [1.0] * max(0, n - 3))
    Q = np.array([[(i + 1.0) * (j - 1.0) + (0.5 if i == j else 0.0) for j in range(n)] for i in range(n)])
    T = [
        ("leaf", a),
        ("prod-quot", a * a * b + sin(a) / (1.0 + b * b)),
        ("chain", exp(a * b * 0.25) * tanh(a - b) - a),
        ("pow", (a * a + 1.0) ** 1.5 + b ** 3 * a),
        ("vec-elems", x[0] * x[1] + exp(x[2] * 0.5) * x[1] ** 2),
        ("mat-elems", U.M[0, 1] * U.M[1, 0] + U.S[0, 1] ** 2 * U.M[0, 0] + U.S[1, 1] * U.S[0, 1]),
        ("node*leaf", x.dot(x) * x[0] + V.VectorSum(x) * a + a * a),
        ("exprsum", V.VectorExpression([sin(v) * a for v in x]).sum() + x[1]),
        ("lc-of-exprs", V.LinearCombination(cs, V.VectorExpression([a * v + v * v for v in x]))),
        ("l2*leaf", V.L2Norm(x + 1.5) * x[1] + M.QuadraticForm(x, Q) * a),
        ("msum*leaf", (U.M * U.M).sum() * U.M[0, 1] + U.S.sum() * U.S[0, 1]),
        ("helpers:sum", (a * a * b) + (sin(a2) * b2 + a2)),
        ("helpers:prod", (a + 2.0 * b) * (a2 * b2 + 1.5)),
        ("helpers:quot", (a * b + 1.0) / (a2 * a2 + b2 * b2 + 1.0)),
        ("helpers:vec", x[0] * x[1] + x2[1] * x2[1] * x2[2]),
        ("helpers:node+leaves", x.dot(x) + x2[0] * x2[1] * 3.0),
        ("helpers:dot", V.DotProduct(x, x2) + V.DotProduct(x + 1.0, V.VectorExpression([v * v for v in x2]))),
        ("helpers:mat", U.M[0, 1] * U2.M[0, 1] + U.S[0, 1] * U2.S[1, 1] * U2.S[0, 1]),
    ]
    for i in range(16 if full else 6):
        T.append((f"rand{i}", gen.rand_expr(rng, U, rng.randint(1, 4), safe=True)))
    for i in range(12 if full else 4):
        l, r = gen.rand_expr(rng, U, rng.randint(1, 3), safe=True), gen.rand_expr(rng, U2, rng.randint(1, 3), safe=True)
        T.append((f"helpers:rand{i}", l * r if i % 2 else l + r))

    def chain(start, p, q_, m=430):
        acc = start
        for i in range(m):
            acc = acc + C(((i % 7) - 3) / 8.0) * (q_ if i % 2 else p) * (p if i % 3 == 0 else C(1.0))
        return acc

    T.append(("deep:chain", chain(a * b, a, b)))
    T.append(("helpers:deep:chain", chain(a * b, a2, b)))
    return T, U


def run_twin_history(e, objs, kind, steps, path, points, offset=0):
    """one history of requests gradient(e, handle) for ONE name.  objs: the leaf objects of e carrying the name (or the
    single absent handle); steps: 'clear' | 'orig' (the next of objs) | 'twin' / 'twin2' (equal handles made by `kind`).
    returns (failure | None, oracle evaluations, skipped)"""
    n_chk = n_skip = 0
    k = offset
    twins = {}
    for i, st in enumerate(steps):
        if st == "clear":
            clear_gradient_memos()
            continue
        if st == "orig":
            h = objs[k % len(objs)]
            k += 1
        else:
            if st not in twins:
                twins[st] = make_twin(kind, objs[0])
            h = twins[st]
        try:
            g = _request_gradient(e, h, path, i)
        except Exception as ex:  # noqa: BLE001
            return ({"what": f"gradient() raised {type(ex).__name__} for a handle equal by name to the leaves",
                     "error": str(ex)[:200], "step": i, "handle": st}, n_chk, n_skip)
        for pt in points:
            r = numeric_check(e, h, pt, g=g)
            n_chk += 1
            if r == "skip":
                n_skip += 1
            elif r is not None:
                what = ("gradient(e, v) for a handle v equal BY NAME to leaves of e (a different Python object) is not the "
                        "partial derivative with respect to that name") if st != "orig" else \
                       ("gradient(e, v) through a leaf object of e is not the partial derivative with respect to its name "
                        "(history of calls through equal handles / other equal leaf objects in e)")
                r.update({"what": what, "point": pt, "step": i, "handle": st})
                return r, n_chk, n_skip
    return None, n_chk, n_skip


def _tw_ser(e):
    import sys

    old = sys.getrecursionlimit()
    sys.setrecursionlimit(max(old, 20000))
    try:
        return ser(e)
    except Unsupported as ex:
        return f"unsupported:{ex}"
    finally:
        sys.setrecursionlimit(old)


def twin_history_oracle(rng, full, rep=None, limit=None):
    """templates × names (occurring, and one absent) × handle kinds × histories × paths; every history on a freshly
    built tree.  returns (failures, runs, oracle evaluations)"""
    fails, n_runs, n_chk = [], 0, 0
    tags = [t for t, _ in twin_templates(rng, full)[0]]
    for tag in tags:
        deep = "deep:" in tag
        hists = list(TW_HISTORIES) if (full or not deep) else list(TW_HISTORIES[:2])
        paths = TW_PATHS if full else (("recursive",) if deep else ("recursive", rng.choice(TW_PATHS[1:])))
        failed = False
        for hname, steps in hists:
            for path in paths:
                T, U = twin_templates(rng, full)
                e = dict(T)[tag]
                leaves = leaf_objects(e)
                if not leaves:
                    continue
                names = sorted(leaves)
                picks = names if (full and len(names) <= 3) else rng.sample(names, min(2, len(names)))
                absent = [v for v in U.all_vars() if v.name not in leaves]
                targets = [(nm, leaves[nm]) for nm in picks]
                if absent and not deep and rng.random() < 0.5:
                    v = rng.choice(absent)
                    targets.append((v.name, [v]))
                for nm, objs in targets:
                    kind = rng.choice(twin_kinds(nm))
                    offset = rng.randint(0, max(0, len(objs) - 1))
                    pts = [gen.rand_point(rng, [_Name(m) for m in sorted(set(names) | {nm})]) for _ in range(2)]
                    r, c, sk = run_twin_history(e, objs, kind, steps, path, pts, offset)
                    n_runs += 1
                    n_chk += c
                    if rep is not None and sk:
                        rep.skipped["twin-irregular-point"] = rep.skipped.get("twin-irregular-point", 0) + sk
                    if r is not None:
                        r.update({"kind": "twin-history", "family": "twin:" + tag, "expr": _tw_ser(e), "wrt": nm,
                                  "twin_kind": kind, "history_name": hname, "history": list(steps), "path": path,
                                  "orig_offset": offset, "leaf_objects_with_that_name": len(objs)})
                        fails.append(r)
                        if limit is not None and len(fails) >= limit:
                            return fails, n_runs, n_chk
                        failed = True
                        break
                if failed:
                    break
            if failed:
                break       # one failure per template is enough
    return fails, n_runs, n_chk


class _Name:
    """lightweight name carrier for gen.rand_point"""

    def __init__(self, n):
        self.name = n


def replay_twin_history(f) -> bool:
    """rebuild the tree from its serialisation (object identities restored from the oids), re-run the history"""
    import sys
    from optyx import Variable
    from ser import Deser

    old = sys.getrecursionlimit()
    sys.setrecursionlimit(max(old, 20000))
    try:
        e = deser(f["expr"], Deser())
    finally:
        sys.setrecursionlimit(old)
    objs = leaf_objects(e).get(f["wrt"]) or [Variable(f["wrt"])]
    pt = {k: float(v) for k, v in f["point"].items()}
    clear_gradient_memos()
    r, n, _ = run_twin_history(e, objs, f["twin_kind"], f["history"], f.get("path", "recursive"), [pt],
                               int(f.get("orig_offset", 0)))
    print("history:", f["history"], "twin kind:", f["twin_kind"], "path:", f.get("path"), "oracle evaluations:", n)
    print("result:", r)
    return r is None


def run(ctx) -> core.Report:
    rng = ctx["rng"]
    thorough = ctx["tier"] == "thorough" or ctx["escalate"]
    rep = core.Report(rule="cell cover of the differentiator (operator × child-derivative shape, every unary "
                           "function, every registered vector rule × operand kind × wrt inside/outside) + seeded random "
                           "trees + magnitude family (constants tiny / within 1e-15..1e-6 of ±1 / huge in every "
                           "multiplicative, chain, exponent and coefficient position, relative dual-number oracle) + Parameters in "
                           "every position × differentiate / Parameter.set / re-evaluate old and re-requested trees at the "
                           "current values (first differentiation at exactly 0 / 1 / default, both differentiator paths) + wrt handles "
                           "equal by name but not identical to the leaves (re-created Variable / container element / copy / "
                           "per-helper objects) × call histories on the name-keyed memo × paths; "
                           "non-trivial = distinct (expression, wrt) whose gradient is not the literal 0")
    cases = []
    for tag, e, w in cell_cover(rng):
        cases.append((tag, e, w, False))
    for tag, e, w in size_cover(rng, thorough):
        cases.append((tag, e, w, False))
    n_rand = 20000 if thorough else 3000
    depth_hi = 6 if thorough else 4
    for i in range(n_rand):
        U = gen.Universe(rng)
        safe = i % 3 == 0
        e = gen.rand_expr(rng, U, rng.randint(1, depth_hi), safe=safe)
        vs = gen.expr_vars(e)
        pool = vs + U.all_vars()[:3]
        w = rng.choice(pool) if pool else U.scalars[0]
        cases.append(("rand-safe" if safe else "rand", e, w, safe))

    # the same compound sub-expression OBJECT at several places of one tree (the differentiator memoises by id)
    from optyx.core.expressions import BinaryOp, UnaryOp, Constant
    for i in range(1500 if thorough else 250):
        U = gen.Universe(rng)
        t = gen.rand_expr(rng, U, rng.randint(1, 3), safe=True)
        u = gen.rand_expr(rng, U, rng.randint(0, 2), safe=True)
        form = rng.choice(["t*t", "t+t", "t-t", "t/u+t", "f(t)*t", "(t*u)+(u*t)", "t**2*t", "dot"])
        e = {"t*t": lambda: BinaryOp(t, t, "*"), "t+t": lambda: BinaryOp(t, t, "+"), "t-t": lambda: BinaryOp(t, t, "-"),
             "t/u+t": lambda: BinaryOp(BinaryOp(t, BinaryOp(BinaryOp(u, u, "*"), Constant(1.0), "+"), "/"), t, "+"),
             "f(t)*t": lambda: BinaryOp(UnaryOp(t, rng.choice(["sin", "exp", "tanh"])), t, "*"),
             "(t*u)+(u*t)": lambda: BinaryOp(BinaryOp(t, u, "*"), BinaryOp(u, t, "*"), "+"),
             "t**2*t": lambda: BinaryOp(BinaryOp(t, Constant(2), "**"), t, "*"),
             "dot": lambda: __import__("optyx.core.vectors", fromlist=["VectorExpression"]).VectorExpression([t, u, t]).dot(
                 __import__("optyx.core.vectors", fromlist=["VectorExpression"]).VectorExpression([u, t, t]))}[form]()
        vs = gen.expr_vars(e)
        if vs:
            cases.append(("shared:" + form, e, rng.choice(vs), True))

    # magnitudes of the stored numbers (checklist 1): structural comparison where the rules do no float arithmetic
    # on the numbers (quick: all such cases; thorough / escalated: every 4th, the oracle below sees all of them)
    mag_cases = magnitude_cover(rng, thorough)
    for i, (tag, e, w, _c, exact) in enumerate(mag_cases):
        if exact and (not thorough or i % 4 == 0):
            cases.append((tag, e, w, False))

    # Parameters in every position, holding exactly 0 / 1 when the tree is differentiated (checklist 29): the model's
    # derivative of a tree does not depend on parameter values, so the structure must not either
    for v0p, v0q in ((0.0, 1.0), (1.0, 0.0)):
        Up, Pp, _ = ph_universe(rng, {"p": ("float", v0p), "q": ("float", v0q)}, "scalar")
        for tag, build in param_templates(Up, Pp):
            if tag.startswith("deep:"):
                continue
            e = build()
            vs = gen.expr_vars(e)
            if vs:
                cases.append((f"phist{int(v0p)}:{tag}", e, rng.choice(vs), False))

    # wrt handles equal by name to the leaves but different objects (the model's leaf rule compares names)
    T_tw, _U_tw = twin_templates(rng, thorough)
    for tag, e in T_tw:
        if "deep:" in tag:
            continue
        for nm, objs in sorted(leaf_objects(e).items())[:3]:
            cases.append(("twin:" + tag, e, make_twin(rng.choice(twin_kinds(nm)), objs[0]), False))

    ids = Ids()
    lines, metas = [], []
    for tag, e, w, safe in cases:
        try:
            s = Ser(ids).expr(e)
            ws = Ser(ids).var(w)
        except Unsupported as ex:
            rep.skipped["unsupported:" + str(ex)] = rep.skipped.get("unsupported:" + str(ex), 0) + 1
            continue
        lines.append(f"grad {s} {ws}")
        metas.append((tag, e, w, safe, s, ws))
    outs = core.run_lean(lines)
    rep.evaluations = len(lines)

    for (tag, e, w, safe, s, ws), model in zip(metas, outs):
        py = py_gradients(e, w)
        key = tag.split(":")[0]
        rep.histogram[key] = rep.histogram.get(key, 0) + 1
        if model != "(c 0)":
            rep.nontrivial.add(hash((s, ws)))
        for tier, got in py.items():
            if got != model:
                rep.corr_mismatches.append({"tier": tier, "expr": s, "wrt": w.name, "impl": got[:400], "model": model[:400]})
                if got.startswith("raise:"):
                    rep.oracle_failures.append({"what": f"gradient() raised {got[6:]} via the {tier} path",
                                                "expr": s, "wrt": w.name, "tier": tier})
        # 'identically zero for variables that do not occur'
        occurs = w.name in {v.name for v in gen.expr_vars(e)}
        if not occurs and py["gradient"] != "(c 0)" and not py["gradient"].startswith("raise:"):
            rep.oracle_failures.append({"what": "gradient w.r.t. an absent variable is not the literal zero",
                                        "expr": s, "wrt": w.name, "got": py["gradient"][:300]})
        if len(rep.samples) < 6 and model != "(c 0)" and len(s) < 200:
            rep.samples.append({"expr": s, "wrt": w.name, "gradient": model})

    # (the requests through equal handles above / below must not decide what the other families see: their failures
    # are replayed in a fresh process)
    clear_gradient_memos()
    # handles equal by name (re-created Variable / container element / copy / helpers with their own objects) × call
    # histories on the name-keyed memo × differentiator paths, judged by dual numbers w.r.t. the NAME
    fails, n_runs, n_chk = twin_history_oracle(rng, thorough, rep, limit=10)
    rep.oracle_failures.extend(fails)
    rep.histogram["twin_history_runs"] = n_runs
    rep.histogram["twin_history_oracle_points"] = n_chk
    clear_gradient_memos()

    # numeric oracle on the regular-by-construction subset + all cell-cover cases
    n_num = 0
    for tag, e, w, safe, s, ws in metas:
        if not (safe or tag.startswith(("bin", "pow", "un", "vec", "powpow", "unpow", "powun", "size"))):
            continue
        if n_num > (160000 if thorough else 26000):
            break
        vs = gen.expr_vars(e)
        names = {v.name for v in vs} | {w.name}

        class _V:  # lightweight name carrier
            def __init__(self, n): self.name = n
        for _ in range(2 if safe else 3 if tag.startswith(("powpow", "unpow", "powun")) else 1):
            pt = gen.rand_point(rng, [_V(n) for n in sorted(names)])
            r = numeric_check(e, w, pt)
            n_num += 1
            if r == "skip":
                rep.skipped["irregular-point"] = rep.skipped.get("irregular-point", 0) + 1
            elif r is not None:
                r.update({"expr": s, "wrt": w.name, "point": pt})
                rep.oracle_failures.append(r)
    rep.histogram["numeric_oracle_points"] = n_num
    # relative oracle over the magnitude family
    fails, n_mag = magnitude_oracle(rng, mag_cases, rep, limit=25)
    rep.oracle_failures.extend(fails)
    rep.histogram["magnitude_cases"] = len(mag_cases)
    rep.histogram["magnitude_oracle_points"] = n_mag
    # Parameters × set histories: trees obtained before a Parameter.set() and trees requested again after it, judged
    # at the current values
    fails, n_runs, n_chk = param_history_oracle(rng, thorough, rep, limit=10)
    rep.oracle_failures.extend(fails)
    rep.histogram["param_history_runs"] = n_runs
    rep.histogram["param_history_oracle_points"] = n_chk
    return rep


def search(ctx, rep):
    """correspondence or proof broken and no failing input among the cases of this run: widen — the mismatching
    cases themselves at many points (absolute and relative criterion), then the full magnitude family with fresh
    mantissas, then many more regular-by-construction random trees against the dual-number oracle"""
    rng = core.Rng(ctx["seed"] + 7919)
    # first the disagreeing cases themselves, at many points (incl. negative coordinates)
    seen = set()
    for mm in rep.corr_mismatches[:400]:
        key = (mm["expr"], mm["wrt"])
        if key in seen:
            continue
        seen.add(key)
        try:
            e = deser(mm["expr"])
        except Exception:  # noqa: BLE001
            continue
        vs = gen.expr_vars(e)
        w = next((v for v in vs if v.name == mm["wrt"]), None)
        if w is None:
            continue
        if expr_params(e) and len(seen) <= 120:
            # a tree with Parameters: histories (differentiate at 0 / 1 / generic, set, judge old and new trees)
            r = param_history_on_text(rng, mm["expr"], w.name, full=True)
            if r is not None:
                return r
        for _ in range(40):
            pt = gen.rand_point(rng, vs, lo=-3.0, hi=3.0)
            for chk in (numeric_check, numeric_check_rel):
                r = chk(e, w, pt)
                if r not in (None, "skip"):
                    r.update({"expr": mm["expr"], "wrt": w.name, "point": pt})
                    return r
    fails, _, _ = twin_history_oracle(rng, True, limit=1)
    if fails:
        return fails[0]
    fails, _, _ = param_history_oracle(rng, True, limit=1)
    if fails:
        return fails[0]
    fails, _ = magnitude_oracle(rng, magnitude_cover(rng, True), limit=1)
    if fails:
        return fails[0]
    for i in range(12000):
        U = gen.Universe(rng)
        e = gen.rand_expr(rng, U, rng.randint(1, 5), safe=True)
        vs = gen.expr_vars(e)
        if not vs:
            continue
        w = rng.choice(vs)
        for _ in range(2):
            pt = gen.rand_point(rng, vs)
            r = numeric_check(e, w, pt)
            if r not in (None, "skip"):
                r.update({"expr": ser(e), "wrt": w.name, "point": pt})
                return r
    return None


def replay(payload) -> bool:
    f = payload["failure"]
    if f.get("kind") == "param-history":
        return replay_param_history(f)
    if f.get("kind") == "twin-history":
        return replay_twin_history(f)
    e = deser(f["expr"])
    from optyx import Variable

    w = next((v for v in gen.expr_vars(e) if v.name == f["wrt"]), Variable(f["wrt"]))
    if "point" in f:
        chk = numeric_check_rel if f.get("criterion") == "relative" else numeric_check
        r = chk(e, w, {k: float(v) for k, v in f["point"].items()})
        print("numeric_check:", r)
        return r in (None, "skip")
    py = py_gradients(e, w)
    print(py)
    return not any(v.startswith("raise:") for v in py.values())
