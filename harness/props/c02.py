"""C02 — the symbolic gradient is the true partial derivative.

Tie:    structural comparison of optyx.gradient(e, v) (all three tiers of the real
        function: registered rule / recursive / explicit-stack) with the Lean model
        `Py.grad v e` — exact, no numerics.
Oracle: forward-mode dual numbers in the harness (oracle.py) vs gradient(e, v).evaluate(p)
        at regular points; `v` not occurring ⇒ the result must be the literal Constant 0.
"""
from __future__ import annotations

import math
import warnings

import numpy as np

import core
import gen
import oracle
from ser import Ids, Ser, Unsupported, env_text, ser, deser

LEAN_MODULE = "Optyx.Props.C02"
THEOREMS = [
    "Optyx.Props.C02.grad_hasDerivAt",
    "Optyx.Props.C02.grad_absent",
    "Optyx.Props.C02.rulesIter_eq",
    "Optyx.Props.C02.grad_hasDerivAt_of_source_equations",
    "Optyx.Props.C02.source_equations_solvable",
    "Optyx.Props.GradTie.grad_step",
    "Optyx.Props.GradTie.step_unique",
]
ASSUMPTIONS = [
    "regular points only (Regular e ρ σ): the singular set is the subject of C19",
    "scalar constants only (array-valued Constant nodes are outside the model)",
    "NumPy's real power is Real.rpow on its finite-value domain",
]


def shape_atoms(U):
    from optyx.core.expressions import Constant
    from optyx.core.functions import sin

    x, y = U.scalars[0], U.scalars[1]
    return x, [
        ("K0", Constant(0.0)), ("K1", Constant(1.0)), ("K3", Constant(3.0)), ("X", x), ("Y", y),
        ("2X", 2.0 * x), ("NEGX", -x), ("SINX", sin(x)), ("XY", x * y), ("P", U.params[0]),
        ("X1", U.x[1]),
    ]


def cell_cover(rng):
    """one representative per decision cell of the differentiator"""
    from optyx.core.expressions import BinaryOp, Constant, UnaryOp
    from optyx.core import vectors as V
    from optyx.core import matrices as M

    U = gen.Universe(rng)
    x, atoms = shape_atoms(U)
    out = []
    for op in gen.BIN:
        for (la, l), (ra, r) in ((a, b) for a in atoms for b in atoms):
            out.append((f"bin{op}:{la}:{ra}", BinaryOp(l, r, op), x))
    for k in [0, 1, 2, 3, 0.0, 1.0, 2.0, -1, 0.5, 2.5, -2.0, 4]:
        for la, l in atoms:
            out.append((f"pow{k}:{la}", BinaryOp(l, Constant(k), "**"), x))
    for op in gen.UNARY:
        for la, a in atoms:
            out.append((f"un:{op}:{la}", UnaryOp(a, op), x))
    # compositions whose algebraic "simplification" would be unsound: powers of powers, nested neg/abs/sqrt
    shifted = [("X-3", x - 3.0), ("X", x), ("XY", x * U.scalars[1]), ("2X+1", 2.0 * x + 1.0)]
    for la, base in shifted:
        for a_in in [2, 3, 4, 2.0, 0.5, -1, -2]:
            for b_out in [0.5, 1.5, -0.5, 2, 3, -1, 2.5, 1, 0]:
                out.append((f"powpow:{a_in}:{b_out}:{la}", BinaryOp(BinaryOp(base, Constant(a_in), "**"), Constant(b_out), "**"), x))
        for op in ("sqrt", "abs", "log", "exp", "neg"):
            out.append((f"unpow:{op}:{la}", UnaryOp(BinaryOp(base, Constant(2), "**"), op), x))
            out.append((f"powun:{op}:{la}", BinaryOp(UnaryOp(base, op), Constant(2), "**"), x))
    # vector rules × {wrt inside / outside} × operand kinds
    n = U.n
    views = U.vec_views()
    wrts = [U.x[0], U.x[1], U.w[2], U.y[n - 1], U.scalars[0], U.M[0, 1], U.S[0, 1], U.S[1, 1]]
    cs = np.array([2.0, -1.0, 0.5][:n] + [1.0] * max(0, n - 3))
    Q = np.array([[(i + 1.0) * (j - 1.0) + (0.5 if i == j else 0.0) for j in range(n)] for i in range(n)])
    vexprs = [U.x + 1.0, U.x * U.y if False else (U.x - U.y), 2.0 * U.w[0:n], V.VectorExpression([gen.unary("sin", v) for v in U.x]),
              np.eye(n) @ U.x if False else M.MatrixVectorProduct(Q, U.x)]
    vecs = views + vexprs
    nodes = []
    for v in vecs:
        nodes.append(("lc", V.LinearCombination(cs, v)))
        nodes.append(("l2", V.L2Norm(v)))
        nodes.append(("l1", V.L1Norm(v)))
        nodes.append(("qf", M.QuadraticForm(v, Q)))
        for v2 in vecs[:6] + vexprs[:2]:
            nodes.append(("dot", V.DotProduct(v, v2)))
        nodes.append(("dotself", V.DotProduct(v, v)))
    # numeric types of the stored arrays: entries near the limits of narrow dtypes, so that any arithmetic the
    # rules do in the array's own dtype (Q + Q.T, scaling) wraps; bool: `+` is logical or
    for dt, big in (("uint8", 200), ("int8", 100), ("uint16", 60000), ("int16", 30000), ("int32", 2 ** 30),
                    ("uint32", 2 ** 31 + 5), ("int64", 7), ("float32", 3.5), ("bool", 1)):
        Qd = np.array([[big if i == j else (big // 2 if dt != "float32" else 1.25) * (1 if (i + j) % 2 else 0) + (i < j)
                        for j in range(n)] for i in range(n)]).astype(dt)
        cd = np.array([big, big // 2 if dt != "float32" else 0.5, 1][:n] + [1] * max(0, n - 3)).astype(dt)
        for v in (U.x, U.x[::-1], U.x + 1.0):
            nodes.append((f"qf:{dt}", M.QuadraticForm(v, Qd)))
            nodes.append((f"lc:{dt}", V.LinearCombination(cd, v)))
            nodes.append((f"dotmv:{dt}", V.DotProduct(U.y, M.MatrixVectorProduct(Qd, v))))
        nodes.append((f"dotrw:{dt}", U.x.dot(Qd @ U.x)))
        nodes.append((f"lc2:{dt}", 2 * (cd @ U.x) + (cd @ U.x) * 3))
    # vector operands taken out of matrices (rows / columns / diagonals of general, symmetric and transposed
    # matrices: a symmetric matrix shares its off-diagonal Variable objects between two positions)
    def mvecs():
        out_ = []
        for m in (U.M, U.S, U.M.T, U.S.T):
            for mk in (lambda m: m[0, :], lambda m: m[:, 1], lambda m: m[1, ::-1], lambda m: m.diagonal()):
                try:
                    out_.append(mk(m))
                except Exception:  # noqa: BLE001
                    pass
        return out_
    c2, Q2 = np.array([2.0, -0.5]), np.array([[1.5, -2.0], [0.25, 3.0]])
    for v in mvecs():
        if len(list(v)) != 2:
            continue
        nodes.append(("m:lc", V.LinearCombination(c2, v)))
        nodes.append(("m:l2", V.L2Norm(v)))
        nodes.append(("m:l1", V.L1Norm(v)))
        nodes.append(("m:qf", M.QuadraticForm(v, Q2)))
        nodes.append(("m:dotself", V.DotProduct(v, v)))
        nodes.append(("m:dot", V.DotProduct(v, U.x[0:2])))
        nodes.append(("m:dotm", V.DotProduct(v, U.S[:, 0])))
        nodes.append(("m:vs", V.VectorSum(v)))
        nodes.append(("m:ps3", V.VectorPowerSum(v, 3)))
        nodes.append(("m:ussin", V.VectorUnarySum(v, "sin")))
    for v in views:
        nodes.append(("vs", V.VectorSum(v)))
        for k in [1, 2, 3, 0.5, -1, 2.5, 0]:
            nodes.append((f"ps{k}", V.VectorPowerSum(v, k)))
        for op in gen.VOPS:
            nodes.append((f"us{op}", V.VectorUnarySum(v, op)))
    for v in vexprs:
        nodes.append(("es", v.sum()))
    for m in (U.M, U.S, U.M.T, U.S[0:2, 0:2]):
        nodes.append(("msv", m.sum()))
        nodes.append(("fro", M.FrobeniusNorm(m)))
        nodes.append(("mse", (m * m).sum()))
        nodes.append(("mse2", (m - 1.5).sum()))
    for tag, node in nodes:
        for w in wrts:
            out.append((f"vec:{tag}", node, w))
    return out


SIZES_QUICK = [1, 2, 3, 7, 8, 9, 16, 17, 31, 32, 33, 40, 63, 64, 65, 100]
SIZES_THOROUGH = SIZES_QUICK + [5, 15, 24, 48, 96, 127, 128, 129, 200, 257]


def size_cover(rng, thorough):
    """every reduction rule over operands whose LENGTH crosses the internal thresholds of blocked / pairwise /
    'small n' code paths (checklist 17): lengths 1 … 257 incl. odd, even, 2^k, 2^k ± 1, with dense dependence of
    every element on the differentiation variable (A @ y) and sparse dependence (x ± c, views)"""
    from optyx import VectorVariable
    from optyx.core import vectors as V
    from optyx.core import matrices as M
    from optyx.core.functions import sin

    out = []
    for n in (SIZES_THOROUGH if thorough else SIZES_QUICK):
        x = VectorVariable(f"sx{n}_", n)
        y = VectorVariable(f"sy{n}_", 3)
        A = np.array([[((7 * i + 3 * j) % 11 - 5) / 4.0 or 0.75 for j in range(3)] for i in range(n)])
        b = np.array([((5 * i) % 7 - 3) / 2.0 for i in range(n)])
        cs = np.array([((3 * i) % 5 - 2) / 2.0 or 1.25 for i in range(n)])
        Ay = M.MatrixVectorProduct(A, y)
        vexprs = [("Ay", Ay), ("Ay-b", A @ y - b), ("x+1", x + 1.0), ("x-rev", x - x[::-1]),
                  ("sin", V.VectorExpression([sin(y[i % 3]) * float(i + 1) for i in range(n)])),
                  ("mix", V.VectorExpression([y[i % 3] * x[i] for i in range(n)]))]
        views = [("x", x), ("rev", x[::-1]), ("half", x[0:max(1, n // 2)]), ("odd", x[1::2] if n > 1 else x)]
        wrts = [y[0], y[2], x[0], x[n - 1], x[n // 2]]
        nodes = []
        for tag, v in vexprs + views:
            m = len(list(v))
            nodes.append((f"lc:{tag}", V.LinearCombination(cs[:m], v)))
            nodes.append((f"l2:{tag}", V.L2Norm(v)))
            nodes.append((f"l1:{tag}", V.L1Norm(v)))
            nodes.append((f"dotself:{tag}", V.DotProduct(v, v)))
            if m == n:
                nodes.append((f"dot:{tag}", V.DotProduct(v, Ay)))
                nodes.append((f"dotx:{tag}", V.DotProduct(x, v)))
            if tag in ("x", "rev", "half", "odd"):
                nodes.append((f"vs:{tag}", V.VectorSum(v)))
                nodes.append((f"ps3:{tag}", V.VectorPowerSum(v, 3)))
                nodes.append((f"ussin:{tag}", V.VectorUnarySum(v, "sin")))
            else:
                nodes.append((f"es:{tag}", v.sum()))
            if m <= (70 if thorough else 40):
                # dense Q (every row of Q + Q.T has m non-zeros) and a banded Q
                Qd = np.array([[((i * 5 + j * 3) % 7 - 3) / 2.0 + (2.0 if i == j else 0.0) for j in range(m)] for i in range(m)])
                Qb = np.array([[1.0 + i if i == j else (0.5 if abs(i - j) == 1 else 0.0) for j in range(m)] for i in range(m)])
                nodes.append((f"qfd:{tag}", M.QuadraticForm(v, Qd)))
                nodes.append((f"qfb:{tag}", M.QuadraticForm(v, Qb)))
        for tag, node in nodes:
            for w in wrts:
                out.append((f"size:{n}:{tag}", node, w))
    return out


def py_gradients(e, w):
    """the real function through each of its tiers; returns {tier: serialised | 'raise:<Class>'}"""
    import optyx.core.autodiff as AD

    res = {}

    def grab(fn):
        try:
            with warnings.catch_warnings():
                warnings.simplefilter("ignore")
                return ser(fn(), with_ids=False)
        except Unsupported as ex:
            return f"unsupported:{ex}"
        except RecursionError:
            return "raise:RecursionError"
        except Exception as ex:  # noqa: BLE001
            return f"raise:{type(ex).__name__}"

    res["gradient"] = grab(lambda: AD.gradient(e, w))
    old = AD._RECURSION_THRESHOLD
    try:
        AD._RECURSION_THRESHOLD = 0  # force the explicit-stack differentiator on every tree
        res["iterative"] = grab(lambda: AD.gradient(e, w))
    finally:
        AD._RECURSION_THRESHOLD = old
    return res


def numeric_check(e, w, point):
    """oracle on the real code: gradient(e, w).evaluate(point) vs dual numbers.
    returns None (ok / skipped) or a failure dict"""
    import optyx.core.autodiff as AD

    try:
        want = oracle.ref_grad(e, point, w.name)
    except (oracle.NotRegular, OverflowError, ZeroDivisionError, ValueError):
        return "skip"
    if not math.isfinite(want) or abs(want) > 1e8:
        return "skip"
    with warnings.catch_warnings(), np.errstate(all="ignore"):
        warnings.simplefilter("ignore")
        try:
            g = AD.gradient(e, w)
            got = float(np.asarray(g.evaluate(point)))
        except Exception as ex:  # noqa: BLE001
            return {"what": "gradient raised", "error": f"{type(ex).__name__}: {ex}"[:200]}
    if not oracle.close(got, want, rtol=1e-6, atol=1e-7):
        # conditioning guard: a point where the reference itself moves a lot under a tiny
        # perturbation is not a trustworthy witness
        try:
            pert = {k: v * (1 + 1e-9) + 1e-12 for k, v in point.items()}
            want2 = oracle.ref_grad(e, pert, w.name)
            if not oracle.close(want, want2, rtol=1e-4, atol=1e-6):
                return "skip"
        except Exception:  # noqa: BLE001
            return "skip"
        return {"what": "gradient value differs from the true partial derivative", "got": got, "want": want}
    return None


def run(ctx) -> core.Report:
    rng = ctx["rng"]
    thorough = ctx["tier"] == "thorough" or ctx["escalate"]
    rep = core.Report(rule="cell cover of the differentiator (operator × child-derivative shape, every unary "
                           "function, every registered vector rule × operand kind × wrt inside/outside) + seeded random "
                           "trees; non-trivial = distinct (expression, wrt) whose gradient is not the literal 0")
    cases = []
    for tag, e, w in cell_cover(rng):
        cases.append((tag, e, w, False))
    for tag, e, w in size_cover(rng, thorough):
        cases.append((tag, e, w, False))
    n_rand = 20000 if thorough else 3000
    depth_hi = 6 if thorough else 4
    for i in range(n_rand):
        U = gen.Universe(rng)
        safe = i % 3 == 0
        e = gen.rand_expr(rng, U, rng.randint(1, depth_hi), safe=safe)
        vs = gen.expr_vars(e)
        pool = vs + U.all_vars()[:3]
        w = rng.choice(pool) if pool else U.scalars[0]
        cases.append(("rand-safe" if safe else "rand", e, w, safe))

    # the same compound sub-expression OBJECT at several places of one tree (the differentiator memoises by id)
    from optyx.core.expressions import BinaryOp, UnaryOp, Constant
    for i in range(1500 if thorough else 250):
        U = gen.Universe(rng)
        t = gen.rand_expr(rng, U, rng.randint(1, 3), safe=True)
        u = gen.rand_expr(rng, U, rng.randint(0, 2), safe=True)
        form = rng.choice(["t*t", "t+t", "t-t", "t/u+t", "f(t)*t", "(t*u)+(u*t)", "t**2*t", "dot"])
        e = {"t*t": lambda: BinaryOp(t, t, "*"), "t+t": lambda: BinaryOp(t, t, "+"), "t-t": lambda: BinaryOp(t, t, "-"),
             "t/u+t": lambda: BinaryOp(BinaryOp(t, BinaryOp(BinaryOp(u, u, "*"), Constant(1.0), "+"), "/"), t, "+"),
             "f(t)*t": lambda: BinaryOp(UnaryOp(t, rng.choice(["sin", "exp", "tanh"])), t, "*"),
             "(t*u)+(u*t)": lambda: BinaryOp(BinaryOp(t, u, "*"), BinaryOp(u, t, "*"), "+"),
             "t**2*t": lambda: BinaryOp(BinaryOp(t, Constant(2), "**"), t, "*"),
             "dot": lambda: __import__("optyx.core.vectors", fromlist=["VectorExpression"]).VectorExpression([t, u, t]).dot(
                 __import__("optyx.core.vectors", fromlist=["VectorExpression"]).VectorExpression([u, t, t]))}[form]()
        vs = gen.expr_vars(e)
        if vs:
            cases.append(("shared:" + form, e, rng.choice(vs), True))

    ids = Ids()
    lines, metas = [], []
    for tag, e, w, safe in cases:
        try:
            s = Ser(ids).expr(e)
            ws = Ser(ids).var(w)
        except Unsupported as ex:
            rep.skipped["unsupported:" + str(ex)] = rep.skipped.get("unsupported:" + str(ex), 0) + 1
            continue
        lines.append(f"grad {s} {ws}")
        metas.append((tag, e, w, safe, s, ws))
    outs = core.run_lean(lines)
    rep.evaluations = len(lines)

    for (tag, e, w, safe, s, ws), model in zip(metas, outs):
        py = py_gradients(e, w)
        key = tag.split(":")[0]
        rep.histogram[key] = rep.histogram.get(key, 0) + 1
        if model != "(c 0)":
            rep.nontrivial.add(hash((s, ws)))
        for tier, got in py.items():
            if got != model:
                rep.corr_mismatches.append({"tier": tier, "expr": s, "wrt": w.name, "impl": got[:400], "model": model[:400]})
                if got.startswith("raise:"):
                    rep.oracle_failures.append({"what": f"gradient() raised {got[6:]} via the {tier} path",
                                                "expr": s, "wrt": w.name, "tier": tier})
        # 'identically zero for variables that do not occur'
        occurs = w.name in {v.name for v in gen.expr_vars(e)}
        if not occurs and py["gradient"] != "(c 0)" and not py["gradient"].startswith("raise:"):
            rep.oracle_failures.append({"what": "gradient w.r.t. an absent variable is not the literal zero",
                                        "expr": s, "wrt": w.name, "got": py["gradient"][:300]})
        if len(rep.samples) < 6 and model != "(c 0)" and len(s) < 200:
            rep.samples.append({"expr": s, "wrt": w.name, "gradient": model})

    # numeric oracle on the regular-by-construction subset + all cell-cover cases
    n_num = 0
    for tag, e, w, safe, s, ws in metas:
        if not (safe or tag.startswith(("bin", "pow", "un", "vec", "powpow", "unpow", "powun", "size"))):
            continue
        if n_num > (160000 if thorough else 26000):
            break
        vs = gen.expr_vars(e)
        names = {v.name for v in vs} | {w.name}

        class _V:  # lightweight name carrier
            def __init__(self, n): self.name = n
        for _ in range(2 if safe else 3 if tag.startswith(("powpow", "unpow", "powun")) else 1):
            pt = gen.rand_point(rng, [_V(n) for n in sorted(names)])
            r = numeric_check(e, w, pt)
            n_num += 1
            if r == "skip":
                rep.skipped["irregular-point"] = rep.skipped.get("irregular-point", 0) + 1
            elif r is not None:
                r.update({"expr": s, "wrt": w.name, "point": pt})
                rep.oracle_failures.append(r)
    rep.histogram["numeric_oracle_points"] = n_num
    return rep


def search(ctx, rep):
    """correspondence or proof broken and no failing input among the cases of this run:
    widen — many more regular-by-construction random trees against the dual-number oracle"""
    rng = core.Rng(ctx["seed"] + 7919)
    # first the disagreeing cases themselves, at many points (incl. negative coordinates)
    seen = set()
    for mm in rep.corr_mismatches[:400]:
        key = (mm["expr"], mm["wrt"])
        if key in seen:
            continue
        seen.add(key)
        try:
            e = deser(mm["expr"])
        except Exception:  # noqa: BLE001
            continue
        vs = gen.expr_vars(e)
        w = next((v for v in vs if v.name == mm["wrt"]), None)
        if w is None:
            continue
        for _ in range(40):
            pt = gen.rand_point(rng, vs, lo=-3.0, hi=3.0)
            r = numeric_check(e, w, pt)
            if r not in (None, "skip"):
                r.update({"expr": mm["expr"], "wrt": w.name, "point": pt})
                return r
    for i in range(12000):
        U = gen.Universe(rng)
        e = gen.rand_expr(rng, U, rng.randint(1, 5), safe=True)
        vs = gen.expr_vars(e)
        if not vs:
            continue
        w = rng.choice(vs)
        for _ in range(2):
            pt = gen.rand_point(rng, vs)
            r = numeric_check(e, w, pt)
            if r not in (None, "skip"):
                r.update({"expr": ser(e), "wrt": w.name, "point": pt})
                return r
    return None


def replay(payload) -> bool:
    f = payload["failure"]
    e = deser(f["expr"])
    from optyx import Variable

    w = next((v for v in gen.expr_vars(e) if v.name == f["wrt"]), Variable(f["wrt"]))
    if "point" in f:
        r = numeric_check(e, w, {k: float(v) for k, v in f["point"].items()})
        print("numeric_check:", r)
        return r in (None, "skip")
    py = py_gradients(e, w)
    print(py)
    return not any(v.startswith("raise:") for v in py.values())
