"""C06 — a solution reported OPTIMAL is feasible.

Tie:    the real `Problem.solve` / `solve_scipy` / `solve_lp` run with the solver seams
        (`optyx.solvers.scipy_solver.minimize`, `scipy.optimize.linprog`) replaced by stubs that
        return *enumerated* result records (success × message class × point ∈ {feasible, violates a
        constraint, violates a bound, borderline} × method × sense × tol × problem shape, and the
        record returned to the SLSQP→trust-constr retry); the resulting Solution, the observable
        events (warnings, solver-call arguments) and the cache / hook state are compared *exactly*
        (rationals) with `Py.Solve.solve*` run by the Lean driver.
Oracle: independent of the model — whenever the returned status is OPTIMAL, every
        `Constraint.violation(values)` and every finite bound must be within the tolerance the code
        states (atol + rtol·max(1, |value|), atol = tol or 1e-6, rtol = 1e-6); on the stub table and
        on real solves of generated feasible / infeasible problems through every method.

This module also hosts the machinery shared by c07 / c18 / c20 (problem specs, seams, fault
injection, canonical text of an observed run).
"""
from __future__ import annotations

import math
import sys
import warnings
from fractions import Fraction

import numpy as np

import core
from ser import rat

LEAN_MODULE = "Optyx.Props.C06b"
EXTRA_MODULES = ["Optyx.Props.PinsC06", "Optyx.Props.SolveTie", "Optyx.Props.ConstraintTie", "Optyx.Props.C06Source", "Optyx.Props.BuildTie", "Optyx.Props.LPFastTie", "Optyx.Props.CompileEntryTie"]   # transcription anchors (harness/source_pins.py)
THEOREMS = [
    "Optyx.Props.C06.pass_optimal_feasible",
    "Optyx.Props.C06.scipy_optimal_feasible",
    "Optyx.Props.C06.scipy_optimal_violation",
    "Optyx.Props.C06.retry_depth",
    "Optyx.Props.C06.lp_optimal_success",
    "Optyx.Props.C06.lp_optimal_feasible",
    "Optyx.Props.C06.solve_optimal_feasible",
    "Optyx.Props.C06.lp_optimal_user_feasible",
    "Optyx.Props.Glue.lpGlue_text",
    "Optyx.Props.Dispatch.solve_autoSelect_eq_generated",
    "Optyx.Props.Dispatch.solve_route_eq_generated",
    "Optyx.Props.SolveTie.post_processing_is_source",
    "Optyx.Props.SolveTie.violatedAt_eq",
    "Optyx.Props.SolveTie.postPass_retry_iff",
    "Optyx.Props.SolveTie.finish_status_eq",
    "Optyx.Props.SolveTie.retryKwargs_pin",
    "Optyx.Props.SolveTie.solutionKwargs_pin",
    "Optyx.Props.ConstraintTie.solve_violation_eq",
    "Optyx.Props.ConstraintTie.senses_solve_eq",
    "Optyx.Props.C06Source.optimal_feasible_of_source_equations",
    "Optyx.Props.C06Source.status_optimal",
    "Optyx.Props.BuildTie.compile_step",
    "Optyx.Props.BuildTie.compileVec_step",
    "Optyx.Props.LPFastTie.fastBinop_eq",
    "Optyx.Props.LPFastTie.extractAll_eq",
    "Optyx.Props.LPFastTie.extractLinearCoefficient_eq",
    "Optyx.Props.LPFastTie.extractConstantTerm_eq",
    "Optyx.Props.LPFastTie.aligned_iff",
    "Optyx.Props.CompileEntryTie.compileExpression_eq",
    "Optyx.Props.CompileEntryTie.param_run",
    "Optyx.Props.ConstraintTie.getVariables_text",
    "Optyx.Props.PinsC06.anchors",
]
ASSUMPTIONS = [
    "solver results are finite: NaN / ±inf inside result.x or result.fun are outside the rational model",
    "SciPy's `minimize` / `linprog` are parameters (arbitrary result records); nothing inside SciPy/HiGHS is verified",
    "LP path: feasibility of an OPTIMAL point is linprog's contract (explicit hypothesis of lp_optimal_feasible); "
    "transfer from the extracted data to the user's constraints is C05",
    "constraint functions are abstract: the model receives their values at the result points",
]
MAIN = "Driver/Main.lean"
RTOL = 1e-6


def run_lean_unit(lines):
    return core.run_lean(lines, main=MAIN)


# ----------------------------------------------------------------------------- problem specs
# A spec is plain JSON: {"vars": [[name, lb, ub, domain], ..], "sense": "min"|"max",
#  "obj": POLY, "cons": [[POLY, "<="|">="|"==", rhs], ..]}, POLY = [[coef, [[var_index, power], ..]], ..]
# (a monomial with power 0 < p; an entry ["exp", coef, var_index] adds coef*exp(var)).


def build_expr(poly, vs):
    from optyx.core.expressions import Constant
    from optyx.core.functions import exp

    total = None
    for mon in poly:
        if mon[0] == "exp":
            term = float(mon[1]) * exp(vs[mon[2]])
        else:
            coef, factors = mon
            term = None
            for vi, p in factors:
                f = vs[vi] if p == 1 else vs[vi] ** p
                term = f if term is None else term * f
            term = Constant(float(coef)) if term is None else (term if coef == 1 else float(coef) * term)
        total = term if total is None else total + term
    return Constant(0.0) if total is None else total


def build_problem(spec):
    """-> (problem, variables by spec index); fresh Python objects on every call"""
    from optyx import Problem, Variable

    vs = [Variable(n, lb=lb, ub=ub, domain=dom) for n, lb, ub, dom in spec["vars"]]
    P = Problem()
    if spec.get("obj") is not None:
        e = build_expr(spec["obj"], vs)
        P.minimize(e) if spec.get("sense", "min") == "min" else P.maximize(e)
    for poly, sense, rhs in spec.get("cons", []):
        lhs = build_expr(poly, vs)
        P.subject_to(lhs <= rhs if sense == "<=" else lhs >= rhs if sense == ">=" else lhs.eq(rhs))
    return P, vs


def poly_eval(poly, xs):
    """independent evaluation of a POLY at a point (floats)"""
    t = 0.0
    for mon in poly:
        if mon[0] == "exp":
            t += mon[1] * math.exp(xs[mon[2]])
        else:
            m = float(mon[0])
            for vi, p in mon[1]:
                m *= xs[vi] ** p
            t += m
    return t


# ----------------------------------------------------------------------------- serialisation to the model


def b01(b):
    return "1" if b else "0"


def orat(x):
    if x is None:
        return "None"
    xf = float(x)
    return "None" if not math.isfinite(xf) else rat(xf)


def qs(s):
    if '"' in s:
        raise ValueError("quote in name")
    return '"' + s + '"'


def msg_flags(m: str):
    m = m.lower()
    return ("maximum" in m and "iteration" in m, "infeasible" in m, "positive directional derivative" in m)


class Res:
    """an OptimizeResult of `minimize` to be returned by the stub"""

    def __init__(self, success, message, x, fun, nit=3):
        self.success, self.message, self.x, self.fun, self.nit = success, message, list(x), fun, nit

    def ser(self):
        mi, inf, pd = msg_flags(self.message)
        return (f"(res {b01(self.success)} {b01(mi)} {b01(inf)} {b01(pd)} ({' '.join(rat(v) for v in self.x)}) "
                f"{rat(self.fun)} {'None' if self.nit is None else self.nit})")

    def make(self):
        from scipy.optimize import OptimizeResult

        d = dict(x=np.array(self.x, dtype=float), success=self.success, message=self.message, fun=self.fun)
        if self.nit is not None:
            d["nit"] = self.nit
        return OptimizeResult(**d)

    def js(self):
        return [self.success, self.message, self.x, self.fun, self.nit]


class LRes:
    """a linprog result to be returned by the stub"""

    def __init__(self, success, status, x, fun, nit=2, message="stub"):
        self.success, self.status, self.x, self.fun, self.nit, self.message = success, status, x, fun, nit, message

    def ser(self):
        xs = "None" if self.x is None else "(" + " ".join(rat(v) for v in self.x) + ")"
        return (f"(lres {b01(self.success)} {self.status} {xs} {'None' if self.fun is None else rat(self.fun)} "
                f"{'None' if self.nit is None else self.nit})")

    def make(self):
        from scipy.optimize import OptimizeResult

        d = dict(x=None if self.x is None else np.array(self.x, dtype=float), success=self.success,
                 status=self.status, message=self.message, fun=self.fun)
        if self.nit is not None:
            d["nit"] = self.nit
        return OptimizeResult(**d)

    def js(self):
        return [self.success, self.status, self.x, self.fun, self.nit]


DUMMY_RES = Res(True, "ok", [0.0], 0.0, 1)
DUMMY_LRES = LRes(True, 0, [0.0, 0.0, 0.0, 0.0], 0.0, 1)


class Fault:
    """(pass, step, exception class); step = "minimize" | ("buildCon", k) | ..."""

    def __init__(self, pass_, step, cls):
        self.pass_, self.step, self.cls = pass_, step, cls

    @property
    def base_only(self):
        return not issubclass(self.cls, Exception)

    def ser(self):
        st = self.step if isinstance(self.step, str) else f"({self.step[0]} {self.step[1]})"
        return f"(fault {self.pass_} {st} {b01(self.base_only)})"

    def js(self):
        return [self.pass_, self.step if isinstance(self.step, str) else list(self.step), self.cls.__name__]


def ser_state(problem):
    c = problem._solver_cache
    cache = "None" if c is None else "(" + " ".join(c.keys()) + ")"
    lin = problem._is_linear_cache
    return f"(state {cache} {b01(problem._lp_cache is not None)} {'None' if lin is None else b01(lin)})"


def values_at(problem, x):
    vs = problem.variables
    if len(x) < len(vs):
        return None
    return {v.name: float(x[i]) for i, v in enumerate(vs)}


def ser_problem(problem, x1, x2):
    """the problem as the glue sees it (is_linear / compute_degree / LP coefficients come from optyx
    itself: they are inputs of the glue, verified by C04 / C05)"""
    from optyx.analysis import compute_degree, extract_constant_term, extract_linear_coefficient, is_linear

    obj = problem.objective
    vs = problem.variables
    has = obj is not None
    lin = bool(has and is_linear(obj))
    deg = compute_degree(obj) if has else None
    v1, v2 = values_at(problem, x1), values_at(problem, x2)
    cons = []
    for c in problem.constraints:
        g1 = float(c.expr.evaluate(v1)) if v1 is not None else 0.0
        g2 = float(c.expr.evaluate(v2)) if v2 is not None else 0.0
        d = compute_degree(c.expr)
        cons.append(f"({c.sense} {b01(is_linear(c.expr))} {'None' if d is None else d} {rat(g1)} {rat(g2)})")
    pv = " ".join(f"({qs(v.name)} {orat(v.lb)} {orat(v.ub)} {v.domain})" for v in vs)
    if lin:
        cs = " ".join(rat(float(extract_linear_coefficient(obj, v))) for v in vs)
        c0 = rat(float(extract_constant_term(obj)))
    else:
        cs, c0 = " ".join("0" for _ in vs), "0"
    return (f"(problem {b01(has)} {b01(problem.sense == 'maximize')} {b01(lin)} {'None' if deg is None else deg} "
            f"({' '.join(cons)}) ({pv}) ({cs}) {c0})")


def ser_opts(method, strict=False, use_hessian=True, tol=None, x0=None):
    xs = "None" if x0 is None else "(" + " ".join(rat(float(v)) for v in x0) + ")"
    return (f"(opts {qs('None' if method is None else method)} {b01(strict)} {b01(use_hessian)} "
            f"{'None' if tol is None else rat(tol)} {xs})")


def model_line(kind, problem, method, strict, use_hessian, tol, r1, r2, lr, fault, x0=None):
    """the protocol line for one observed call; must be produced *before* the real call (state!)"""
    w = f"(world {r1.ser()} {r2.ser()} {lr.ser()} {'None' if fault is None else fault.ser()})"
    return (f"{kind} {ser_problem(problem, r1.x, r2.x)} {ser_opts(method, strict, use_hessian, tol, x0)} {w} "
            f"{ser_state(problem)}")


def reference_start(variables):
    """independent re-statement of the documented default start point (same float operations):
    both bounds → lb + max(1e-4, 1 % of the range) capped at the midpoint; lb only → lb + 1e-4;
    ub only → ub − 1; unbounded → 0"""
    out = []
    for v in variables:
        lb = v.lb if v.lb is not None and math.isfinite(v.lb) else None
        ub = v.ub if v.ub is not None and math.isfinite(v.ub) else None
        if lb is not None and ub is not None:
            out.append(min(lb + max(1e-4, 0.01 * (ub - lb)), (lb + ub) / 2))
        elif lb is not None:
            out.append(lb + 1e-4)
        elif ub is not None:
            out.append(ub - 1.0)
        else:
            out.append(0.0)
    return out


# ----------------------------------------------------------------------------- observing the real code


def _bnd(lb, ub):
    return f"({orat(lb)} {orat(ub)})"


def show_solution(s):
    vals = " ".join(f"({qs(k)} {rat(v)})" for k, v in s.values.items())
    return (f"sol status={s.status.name} obj={'None' if s.objective_value is None else rat(s.objective_value)} "
            f"values=({vals}) nit={'None' if s.iterations is None else int(s.iterations)}")


RELAX_MARK = "] have integer/binary domains"


def parse_warning(w):
    m = str(w.message)
    if m.startswith("Variables [") and RELAX_MARK in m:
        names = m[len("Variables ["):m.index(RELAX_MARK)]
        solver = "SciPy" if "SciPy solver does not support" in m else "linprog" if "linprog does not support" in m else "?"
        return f"(warn-relax {solver} ({' '.join(qs(n) for n in names.split(', '))}))"
    if m.startswith("SLSQP returned a solution that violates constraints"):
        return "(warn-retry)"
    return f"(warn-other {w.category.__name__})"


def observe(problem, kind, method, strict, use_hessian, tol, r1, r2, lr, fault=None, extra_kwargs=None, x0=None):
    """run the real code with the solver seams stubbed and (optionally) one injected fault;
    returns (canonical text in the format of the Lean driver, info dict)"""
    import scipy.optimize as SO

    import optyx.analysis as AN
    import optyx.core.autodiff as AD
    import optyx.core.compiler as CC
    import optyx.solvers.scipy_solver as SS
    from optyx.core.errors import IntegerVariableError
    from optyx.problem import Problem as PCls
    from optyx.solvers.lp_solver import solve_lp

    ev = []
    user_x0 = x0
    st = {"min": 0, "fired": False, "wseen": 0, "exc": None, "n_build_expr": 0, "n_build_jac": 0}
    mutated = []
    wl = None

    def boom():
        st["fired"] = True
        st["exc"] = fault.cls("injected fault")
        raise st["exc"]

    def hits(step, pass_):
        return fault is not None and not st["fired"] and fault.step == step and fault.pass_ == pass_

    def flush():
        while st["wseen"] < len(wl):
            ev.append(parse_warning(wl[st["wseen"]]))
            st["wseen"] += 1

    def stub_minimize(fun=None, x0=None, method=None, jac=None, hess=None, bounds=None, constraints=(), tol=None,
                      options=None, **kw):
        flush()
        p = st["min"]
        bs = "None" if bounds is None else "(" + " ".join(_bnd(lb, ub) for lb, ub in bounds) + ")"
        got0 = [float(v) for v in np.asarray(x0, dtype=float).ravel()]
        if user_x0 is None:
            # the code's own default start: "None" when it is the documented one, else what it really was
            xs = "None" if got0 == reference_start(o_vars.fget(problem)) else "(" + " ".join(rat(v) for v in got0) + ")"
        else:
            xs = "(" + " ".join(rat(v) for v in got0) + ")"
        ev.append(f"(minimize {method} x0={xs} jac={b01(jac is not None)} hess={b01(hess is not None)} bounds={bs} "
                  f"ncons={len(constraints)})")
        st["min"] += 1
        if hits("minimize", p):
            boom()
        if fault is not None and isinstance(fault.step, tuple) and fault.step[0] == "postCon" and fault.pass_ == p \
                and fault.step[1] < len(constraints):
            c = constraints[fault.step[1]]
            mutated.append((c, c["fun"]))

            def bad(x, _c=c):
                boom()
            c["fun"] = bad
        return (r1 if p == 0 else r2).make()

    def stub_linprog(c=None, method=None, bounds=None, **kw):
        flush()
        bs = "(" + " ".join(_bnd(lb, ub) for lb, ub in (bounds or [])) + ")"
        ev.append(f"(linprog {method} c=({' '.join(rat(float(v)) for v in c)}) bounds={bs})")
        if hits("linprog", 0):
            boom()
        return lr.make()

    saved = []

    def patch(obj, name, new):
        saved.append((obj, name, obj.__dict__[name] if isinstance(obj, type) else getattr(obj, name)))
        setattr(obj, name, new)

    o_vars = PCls.__dict__["variables"]
    o_is_linear, o_auto = AN.is_linear, PCls._auto_select_method
    o_ce, o_cj, o_ch = CC.compile_expression, AD.compile_jacobian, AD.compile_hessian
    o_extract, o_warn = AN.LinearProgramExtractor.extract, warnings.warn

    def p_vars(self):
        if hits("variables", st["min"]):
            boom()
        return o_vars.fget(self)

    def p_is_linear(e):
        if hits("isLinear", 0):
            boom()
        return o_is_linear(e)

    def p_auto(self):
        if hits("autoSelect", 0):
            boom()
        return o_auto(self)

    def p_ce(*a, **k):
        if sys._getframe(1).f_code.co_name == "_build_solver_cache":
            i = st["n_build_expr"]
            st["n_build_expr"] += 1
            if hits("buildObj" if i == 0 else ("buildCon", i - 1), st["min"]):
                boom()
        return o_ce(*a, **k)

    def p_cj(*a, **k):
        if sys._getframe(1).f_code.co_name == "_build_solver_cache":
            i = st["n_build_jac"]
            st["n_build_jac"] += 1
            if hits("buildGrad" if i == 0 else ("buildJac", i - 1), st["min"]):
                boom()
        return o_cj(*a, **k)

    def p_ch(*a, **k):
        if hits("compileHess", st["min"]):
            boom()
        return o_ch(*a, **k)

    def p_extract(self, prob):
        if hits("extract", 0):
            boom()
        return o_extract(self, prob)

    def p_warn(message, category=None, stacklevel=1, **k):
        m = str(message)
        if RELAX_MARK in m and hits("warn", st["min"]):
            boom()
        if m.startswith("SLSQP returned a solution") and hits("retryWarn", st["min"] - 1):
            boom()
        return o_warn(message, category, stacklevel + 1, **k)

    out = None
    rl0 = sys.getrecursionlimit()
    with warnings.catch_warnings(record=True) as wl:
        warnings.simplefilter("always")
        hook0 = warnings.showwarning
        filters0, err0 = list(warnings.filters), np.geterr()
        try:
            patch(SS, "minimize", stub_minimize)
            patch(SO, "linprog", stub_linprog)
            if fault is not None:
                patch(PCls, "variables", property(p_vars))
                patch(AN, "is_linear", p_is_linear)
                patch(PCls, "_auto_select_method", p_auto)
                patch(CC, "compile_expression", p_ce)
                patch(AD, "compile_jacobian", p_cj)
                patch(AD, "compile_hessian", p_ch)
                patch(AN.LinearProgramExtractor, "extract", p_extract)
                patch(warnings, "warn", p_warn)
            kw = dict(extra_kwargs or {})
            if user_x0 is not None:
                kw["x0"] = np.array(user_x0, dtype=float)
            try:
                if kind == "solve":
                    if tol is not None:
                        kw["tol"] = tol
                    if not use_hessian:
                        kw["use_hessian"] = False
                    sol = problem.solve(method=method, strict=strict, **kw)
                elif kind == "solve-scipy":
                    sol = SS.solve_scipy(problem, method=method, tol=tol, use_hessian=use_hessian, strict=strict, **kw)
                else:
                    sol = solve_lp(problem, method=method, strict=strict, **kw)
                out = show_solution(sol)
                info = {"solution": sol}
            except BaseException as e:  # noqa: BLE001 - the observation *is* the exception
                info = {"exception": e}
                if e is st["exc"]:
                    out = "raise:injected-BaseException" if fault.base_only else "raise:injected-Exception"
                elif isinstance(e, IntegerVariableError):
                    out = f"raise:IntegerVariableError:{e.solver_name}:{','.join(e.variable_names or [])}"
                else:
                    out = f"raise:{type(e).__name__}"
        finally:
            for obj, name, old in reversed(saved):
                setattr(obj, name, old)
            for c, f in mutated:
                c["fun"] = f
        flush()
        hook1 = warnings.showwarning
        globals_same = list(warnings.filters) == filters0 and np.geterr() == err0
    rl1 = sys.getrecursionlimit()
    c = problem._solver_cache
    lin = problem._is_linear_cache
    text = (f"{out} | events=({' '.join(ev)}) | hook={'7' if hook1 is hook0 else 'changed'} "
            f"reclimit={'1000' if rl1 == rl0 else rl1} "
            f"cache={'None' if c is None else '(' + ' '.join(c.keys()) + ')'} lp={b01(problem._lp_cache is not None)} "
            f"lin={'None' if lin is None else b01(lin)} fired={b01(st['fired'])}")
    info.update(hook_same=hook1 is hook0, reclimit_same=rl1 == rl0, events=ev, fired=st["fired"],
                globals_same=globals_same)
    return text, info


# ----------------------------------------------------------------------------- the property oracle


def feasibility_report(problem, values, tol=None, slack=1e-9):
    """independent of the model: max excess of constraint violations / bound violations over the
    tolerance the code states.  Returns None when feasible within tolerance, else a dict."""
    atol = tol if tol is not None else 1e-6
    worst = None
    for k, c in enumerate(problem.constraints):
        g = float(c.evaluate(values))
        viol = float(c.violation(values))
        allowed = atol + RTOL * max(1.0, abs(g)) + slack
        if not (viol <= allowed):
            if worst is None or viol - allowed > worst["excess"]:
                worst = {"what": f"constraint #{k} ({c.sense} 0) violated", "violation": viol, "allowed": allowed,
                         "excess": viol - allowed}
        elif not c.is_satisfied(values, tol=allowed):
            return {"what": f"Constraint.is_satisfied disagrees with Constraint.violation on constraint #{k}",
                    "violation": viol, "allowed": allowed, "excess": 0.0}
    for v in problem.variables:
        x = values.get(v.name)
        if x is None:
            return {"what": f"no value for variable {v.name}", "excess": float("inf")}
        for bound, sign in ((v.lb, 1.0), (v.ub, -1.0)):
            if bound is None or not math.isfinite(bound):
                continue
            viol = sign * (bound - x)
            allowed = atol + RTOL * max(1.0, abs(bound)) + slack
            if not (viol <= allowed):
                if worst is None or viol - allowed > worst["excess"]:
                    worst = {"what": f"bound of {v.name} violated", "violation": viol, "allowed": allowed,
                             "excess": viol - allowed}
    return worst


# ----------------------------------------------------------------------------- the stub table

MESSAGES = [
    "Optimization terminated successfully",
    "Maximum number of iterations has been exceeded.",
    "Iteration limit reached",
    "The problem is infeasible.",
    "Positive directional derivative for linesearch",
    "Inequality constraints incompatible",
    "Positive directional derivative for linesearch; problem looks INFEASIBLE",
    "Maximum iterations; positive directional derivative",
    "MAXIMUM ITERATION count: INFEASIBLE",
]
METHODS = ["SLSQP", "trust-constr", "L-BFGS-B", "BFGS", "Nelder-Mead", "COBYLA", "Newton-CG"]
T6 = 1e-6

SHAPES = {
    # one free variable, one >= constraint (the F8 witness shape)
    "A": {"spec": {"vars": [["w", None, None, "continuous"]], "sense": "min", "obj": [[1, [[0, 2]]]],
                   "cons": [[[[1, [[0, 1]]]], ">=", 1.0]]},
          "points": {"feas": [1.0], "viol-con": [0.0], "in-tol": [1.0 - 1.5e-6], "edge": [1.0 - 2e-6],
                     "just-out": [1.0 - 2.5e-6], "far": [-64.0]}},
    # two bounded variables, <=, ==, >= (nonlinear) constraints
    "B": {"spec": {"vars": [["x", 0.0, 4.0, "continuous"], ["y", None, 2.0, "continuous"]], "sense": "min",
                   "obj": [[1, [[0, 2]]], [-2, [[0, 1]]], [1, [[1, 2]]], [2, [[1, 1]]], [2, []]],
                   "cons": [[[[1, [[0, 1]]], [1, [[1, 1]]]], "<=", 3.0],
                            [[[1, [[0, 1]]], [-1, [[1, 1]]]], "==", 1.0],
                            [[[1, [[0, 1], [1, 1]]]], ">=", -2.0]]},
          "points": {"feas": [2.0, 1.0], "feas2": [0.5, -0.5], "viol-le": [3.0, 2.0], "viol-eq": [2.0, 0.5],
                     "viol-ge": [4.0, -1.0], "viol-lb": [-1.0, -2.0], "viol-ub": [4.5, 3.5],
                     "eq-in-tol": [2.0, 1.0 + 5e-7], "eq-out": [2.0, 1.0 + 3e-6], "long-x": [2.0, 1.0, 9.0]}},
    # bounds only (methods outside BOUNDS_METHODS never see them)
    "C": {"spec": {"vars": [["b", 1.0, 2.0, "continuous"]], "sense": "min", "obj": [[1, [[0, 2]]]], "cons": []},
          "points": {"feas": [1.0], "viol-lb": [0.0], "viol-ub": [2.5], "lb-in-tol": [1.0 - 1e-6],
                     "lb-out": [1.0 - 3e-6], "ub-in-tol": [2.0 + 1e-6], "ub-out": [2.0 + 4e-6], "short-x": []}},
    # maximise with a <= constraint and a one-sided bound
    "D": {"spec": {"vars": [["x", -1.0, None, "continuous"]], "sense": "max",
                   "obj": [[-1, [[0, 2]]], [2, [[0, 1]]], [3, []]], "cons": [[[[1, [[0, 1]]]], "<=", 0.5]]},
          "points": {"feas": [0.5], "viol-con": [1.0], "viol-lb": [-2.0], "in-tol": [0.5 + 1e-6]}},
    # linear objective with a constant term, sent to NLP methods explicitly
    "E": {"spec": {"vars": [["x", 0.0, None, "continuous"], ["y", 0.0, None, "continuous"]], "sense": "min",
                   "obj": [[2, [[0, 1]]], [3, [[1, 1]]], [5, []]], "cons": [[[[1, [[0, 1]]], [1, [[1, 1]]]], ">=", 1.0]]},
          "points": {"feas": [1.0, 0.0], "viol-con": [0.25, 0.25], "viol-lb": [2.0, -1.0]}},
    # unconstrained, unbounded, maximise, symmetric about 0: the default start (0, 0) is the optimum
    "S": {"spec": {"vars": [["x", None, None, "continuous"], ["y", None, None, "continuous"]], "sense": "max",
                   "obj": [[10, []], [-1, [[0, 2]]], [-1, [[1, 2]]]], "cons": []},
          "points": {"feas": [0.0, 0.0], "feas2": [1.0, -0.5]}},
    # box only, minimise, optimum strictly inside the box / start points on the box
    "T": {"spec": {"vars": [["x", -2.0, 2.0, "continuous"], ["y", -1.0, 1.0, "continuous"]], "sense": "min",
                   "obj": [[3, []], [1, [[0, 2]]], [-2, [[0, 1]]], [1, []], [2, [[1, 2]]], [2, [[1, 1]]], [0.5, []]], "cons": []},
          "points": {"feas": [1.0, -0.5], "viol-lb": [-3.0, 0.0], "feas-corner": [2.0, 1.0]}},
}
# names: digit runs of different lengths, leading zeros, digits inside base names, prefixes of one another, brackets,
# ≥ 11 elements of one base name — the spec order is NOT the natural order the solver vector uses
_N_NAMES = ["x10", "x2", "x1", "x01", "a[10]", "a[2]", "a[0]", "ab", "a", "a1b10", "a1b2", "a[1]", "a[11]", "a[3]", "a[4]",
            "a[5]", "a[6]", "a[7]", "a[8]", "a[9]"]
SHAPES["N"] = {"spec": {"vars": [[nm, -40.0, 40.0, "continuous"] for nm in _N_NAMES], "sense": "max",
                        "obj": [[float(i + 1), [[i, 1]]] for i in range(len(_N_NAMES))] + [[-0.5, [[0, 2]]], [5.0, []]],
                        "cons": [[[[1.0, [[0, 1]]], [1.0, [[4, 1]]], [1.0, [[8, 1]]]], "<=", 30.0]]},
               "points": {"feas": None, "viol-con": None}}
# user-supplied start points per shape (the optimum / a corner of the box / an arbitrary point); every
# row of the table cycles through: default start, default start, these, and "the point the solver returns"
STARTS = {"A": [[1.0], [0.0]], "B": [[2.0, 1.0], [0.0, 2.0]], "C": [[1.0], [2.0]], "D": [[0.5], [-1.0]],
          "E": [[1.0, 0.0], [0.0, 0.0]], "S": [[0.0, 0.0], [1.0, -1.0]], "T": [[1.0, -0.5], [-2.0, -1.0], [2.0, 1.0]],
          "N": [[0.25 * i for i in range(len(_N_NAMES))]]}


def _n_points():
    """points of shape N in the SOLVER's order (problem.variables), each coordinate distinct"""
    P, vs = build_problem(SHAPES["N"]["spec"])
    order = [v.name for v in P.variables]
    feas = [0.5 * (k + 1) - 3.0 for k in range(len(order))]
    viol = list(feas)
    for nm in ("x10", "a[10]", "a"):
        viol[order.index(nm)] = 20.0
    SHAPES["N"]["points"] = {"feas": feas, "viol-con": viol}
    SHAPES["N"]["order"] = order


def objective_at(spec, x):
    if len(x) < len(spec["vars"]):
        return 0.0
    if spec is SHAPES["N"]["spec"]:
        order = SHAPES["N"]["order"]          # x is in solver order: permute into the spec's order
        x = [x[order.index(nm)] for nm, *_ in spec["vars"]]
    return poly_eval(spec["obj"], x)


def stub_rows(rng, thorough):
    """(shape, method, tol, r1, r2) rows: exhaustive over the decision cells, r2 exhaustive on the
    rows where the retry can happen"""
    rows = []
    if SHAPES["N"]["points"]["feas"] is None:
        _n_points()
    for sname, sh in SHAPES.items():
        spec, pts = sh["spec"], sh["points"]
        neg = -1.0 if spec["sense"] == "max" else 1.0
        labels = list(pts)
        r2s = []
        for lab in labels[:4]:
            for succ, msg in ((True, MESSAGES[0]), (True, MESSAGES[4]), (False, MESSAGES[1]), (False, MESSAGES[4]),
                              (False, MESSAGES[5])):
                if lab in ("short-x",):
                    continue
                r2s.append(Res(succ, msg, pts[lab], neg * objective_at(spec, pts[lab]), 7))
        k = 0
        for method in METHODS + ["auto"]:
            for tol in (None, 1e-3, 1e-9):   # (tol = 0 puts the in-tolerance points exactly on a float-rounded boundary)
                for lab in labels:
                    if tol is not None and lab not in ("feas", "viol-con", "viol-lb", "just-out", "eq-out", "lb-out", "ub-out"):
                        continue
                    if tol == 1e-9 and (lab not in ("feas", "just-out", "eq-out", "lb-out") or method not in ("SLSQP", "BFGS", "auto")):
                        continue
                    for succ in (True, False):
                        for msg in MESSAGES:
                            x = pts[lab]
                            r1 = Res(succ, msg, x, neg * objective_at(spec, x), None if (k % 11 == 0) else 3 + k % 5)
                            retry_possible = method == "SLSQP" and (succ or msg_flags(msg)[2])
                            if retry_possible and (thorough or msg in (MESSAGES[0], MESSAGES[4], MESSAGES[6])):
                                for r2 in r2s:
                                    rows.append((sname, method, tol, lab, r1, r2))
                            else:
                                rows.append((sname, method, tol, lab, r1, r2s[k % len(r2s)]))
                            k += 1
    # the start-point dimension: default / user-supplied (optimum, corner, other) / warm start at the returned point
    out = []
    for i, (sname, method, tol, lab, r1, r2) in enumerate(rows):
        n = len(SHAPES[sname]["spec"]["vars"])
        choices = [None, None] + STARTS[sname] + ([list(r1.x[:n])] if len(r1.x) >= n else [])
        out.append((sname, method, tol, lab, r1, r2, choices[(i // 2) % len(choices)]))
    return out


def run_stub_table(rep, rng, thorough, want_oracle=True, kinds=("solve", "solve-scipy")):
    """shared by c06 / c07: returns the list of (meta, text_real, info) after filling rep with the
    model-vs-code comparison"""
    rows = stub_rows(rng, thorough)
    probs = {}
    lines, metas = [], []
    for i, (sname, method, tol, lab, r1, r2, x0) in enumerate(rows):
        kind = kinds[i % len(kinds)]
        # a problem object is reused across rows (its caches evolve: that state is part of the input)
        key = (sname, kind, i % 3)
        if key not in probs or i % 97 == 0:
            probs[key] = build_problem(SHAPES[sname]["spec"])[0]
        P = probs[key]
        uh = (i % 5 != 0)
        line = model_line(kind, P, method, False, uh, tol, r1, r2, DUMMY_LRES, None, x0=x0)
        text, info = observe(P, kind, method, False, uh, tol, r1, r2, DUMMY_LRES, x0=x0)
        lines.append(line)
        metas.append(({"shape": sname, "kind": kind, "method": method, "tol": tol, "point": lab, "r1": r1.js(),
                       "r2": r2.js(), "use_hessian": uh, "x0": x0}, P, text, info))
    outs = run_lean_unit(lines)
    rep.evaluations += len(lines)
    for (meta, P, text, info), model in zip(metas, outs):
        cell = f"{meta['shape']}:{meta['method']}:{meta['point']}"
        rep.histogram["stub:" + text.split(" ")[0] + (":" + text.split(" ")[1] if text.startswith("sol") else "")] = \
            rep.histogram.get("stub:" + text.split(" ")[0] + (":" + text.split(" ")[1] if text.startswith("sol") else ""), 0) + 1
        if "(warn-retry)" in text:
            rep.histogram["stub:retry"] = rep.histogram.get("stub:retry", 0) + 1
        if text != model:
            rep.corr_mismatches.append({"case": meta, "impl": text[:600], "model": model[:600]})
        if "status=OPTIMAL" in text or "(warn-retry)" in text or "status=INFEASIBLE" in text:
            rep.nontrivial.add(hash((cell, meta["r1"][0], meta["r1"][1], meta["tol"], str(meta["r2"][:3]))))
        if len(rep.samples) < 5 and "(warn-retry)" in text:
            rep.samples.append({"case": meta, "observed": text[:300]})
    return metas


def stub_oracle(rep, metas):
    for meta, P, text, info in metas:
        sol = info.get("solution")
        if sol is None or sol.status.name != "OPTIMAL":
            continue
        if "(linprog " in text:
            continue  # LP route: feasibility of an OPTIMAL point is linprog's contract, the stub ignores it
        bad = feasibility_report(P, sol.values, meta["tol"])
        if bad is not None:
            bad.update({"kind_of_case": "stub", "case": meta, "values": dict(sol.values)})
            rep.oracle_failures.append(bad)


# ----------------------------------------------------------------------------- real solves

REAL_METHODS = ["auto", "SLSQP", "trust-constr", "L-BFGS-B", "BFGS", "Nelder-Mead", "COBYLA", "Powell", "TNC", "CG"]
LP_METHODS = ["linprog", "highs", "highs-ds", "highs-ipm"]


def rand_spec(rng, linear=False, infeasible=None):
    """a small generated problem; data are dyadic.  `infeasible`: None (as it comes), or a way of
    making it infeasible: 'cons' (two contradicting constraints), 'bound' (constraint against a bound)"""
    n = rng.randint(1, 3)
    names = rng.choice([["v0", "v1", "v2"], ["x10", "x2", "x1"], ["x01", "x1", "x001"], ["a[10]", "a[9]", "a"],
                        ["ab", "a", "abc"], ["y2z10", "y2z9", "y10z1"]])
    vars_ = []
    for i in range(n):
        kind = rng.randint(0, 3)
        lb = rng.choice([0.0, -1.0, 1.0, -2.0]) if kind in (0, 1) else None
        ub = (lb if lb is not None else 0.0) + rng.choice([1.0, 2.0, 4.0]) if kind in (0, 2) else None
        vars_.append([names[i], lb, ub, "continuous"])
    obj = []
    for i in range(n):
        t = rng.dy(-2, 2)
        if linear:
            obj.append([rng.choice([1.0, 2.0, -1.0, 0.5, 3.0]), [[i, 1]]])
        else:
            a = rng.choice([1.0, 2.0, 0.5, 4.0])
            obj += [[a, [[i, 2]]], [-2 * a * t, [[i, 1]]], [a * t * t, []]]
    if rng.random() < 0.5:
        obj.append([rng.dy(-3, 3), []])
    sense = "min" if (not linear or rng.random() < 0.6) else "max"
    cons = []
    for _ in range(rng.randint(0, 3)):
        lhs = [[rng.choice([1.0, -1.0, 2.0, 0.5]), [[i, 1]]] for i in range(n) if rng.random() < 0.8] or [[1.0, [[0, 1]]]]
        if not linear and rng.random() < 0.25 and n >= 2:
            lhs.append([rng.choice([1.0, -1.0]), [[0, 1], [1, 1]]])
        cons.append([lhs, rng.choice(["<=", ">=", "=="] if rng.random() < 0.4 else ["<=", ">="]), rng.dy(-2, 3)])
    if linear and sense == "max" or linear:
        # keep LPs bounded: every variable gets both bounds
        for v in vars_:
            if v[1] is None:
                v[1] = -2.0
            if v[2] is None:
                v[2] = v[1] + 4.0
    if rng.random() < 0.2:
        # a row whose variable coefficients cancel: it reads `0 sense rhs`
        j = rng.randrange(n)
        lhs = [[1.0, [[j, 1]]], [-1.0, [[j, 1]]]]
        if n >= 2 and rng.random() < 0.5:
            lhs = [[2.0, [[0, 1]]], [1.0, [[1, 1]]], [-1.0, [[1, 1]]], [-2.0, [[0, 1]]]]
        cons.append([lhs, rng.choice(["<=", ">=", "=="]), rng.choice([-1.0, 0.0, 0.0, 1.0])])
    if infeasible == "cons":
        cons += [[[[1.0, [[0, 1]]]], ">=", 1.0], [[[1.0, [[0, 1]]]], "<=", 0.0]]
    elif infeasible == "bound":
        if vars_[0][2] is None:
            vars_[0][2] = (vars_[0][1] or 0.0) + 2.0
        cons.append([[[1.0, [[0, 1]]]], ">=", vars_[0][2] + 1.0])
    return {"vars": vars_, "sense": sense, "obj": obj, "cons": cons}


def real_solve(spec, method, tol=None):
    """-> (problem, solution | exception)"""
    P, _ = build_problem(spec)
    with warnings.catch_warnings(), np.errstate(all="ignore"):
        warnings.simplefilter("ignore")
        try:
            kw = {} if tol is None else {"tol": tol}
            return P, P.solve(method=method, **kw)
        except Exception as e:  # noqa: BLE001
            return P, e


def run_real_solves(rep, rng, n, check):
    """`check(spec, method, P, sol) -> failure dict | None`"""
    for i in range(n):
        linear = i % 3 == 0
        infeasible = [None, None, None, "cons", None, None, None, "bound"][i % 8]
        spec = rand_spec(rng, linear=linear, infeasible=infeasible)
        method = rng.choice(REAL_METHODS + (LP_METHODS if linear else []))
        if not linear and method in LP_METHODS:
            method = "auto"
        P, sol = real_solve(spec, method)
        rep.evaluations += 1
        tag = f"real:{method}:" + (type(sol).__name__ if isinstance(sol, Exception) else sol.status.name)
        rep.histogram[tag] = rep.histogram.get(tag, 0) + 1
        if isinstance(sol, Exception):
            continue
        if sol.status.name == "OPTIMAL":
            rep.nontrivial.add(hash(("real", i, method)))
        bad = check(spec, method, P, sol)
        if bad is not None:
            bad.update({"kind_of_case": "real", "spec": spec, "method": method})
            rep.oracle_failures.append(bad)
        if len(rep.samples) < 8 and sol.status.name == "OPTIMAL" and i % 7 == 0:
            rep.samples.append({"spec": spec, "method": method, "status": sol.status.name, "values": dict(sol.values)})


def check_feasible(spec, method, P, sol):
    if sol.status.name != "OPTIMAL":
        return None
    return feasibility_report(P, sol.values, None, slack=1e-7 if method in LP_METHODS or method == "auto" else 1e-9)


# ----------------------------------------------------------------------------- degenerate LP rows


def degenerate_case(form, sense, rhs, method, objsense="min", extra=False):
    """an LP with one constraint row whose variable coefficients cancel (`x - x`, `x + y - y - x`,
    `zeros @ v`, `0 * x`): the row reads `0 sense rhs`, so the problem is infeasible exactly when that
    is false — whatever the extractor does with the row, an OPTIMAL answer must satisfy it"""
    from optyx import Problem, Variable, VectorVariable

    x = Variable("x", lb=0.0, ub=4.0)
    y = Variable("y", lb=-1.0, ub=3.0)
    v = VectorVariable("v", 3, lb=0.0, ub=2.0)
    lhs = {"x-x": lambda: x - x,
           "x+y-y-x": lambda: x + y - y - x,
           "zeros@v": lambda: np.zeros(3) @ v,
           "0*x": lambda: 0.0 * x,
           "2x-x-x+1-1": lambda: 2.0 * x - x - x + 1.0 - 1.0,
           "v-sum-cancel": lambda: v.sum() - v[0] - v[1] - v[2]}[form]()
    c = lhs <= rhs if sense == "<=" else lhs >= rhs if sense == ">=" else lhs.eq(rhs)
    obj = x + 2.0 * y + v.sum() + 1.5
    P = Problem()
    P.minimize(obj) if objsense == "min" else P.maximize(obj)
    P.subject_to(c)
    if extra:
        P.subject_to(x + y >= 0.5)
        P.subject_to((x - y).eq(1.0))
    return P


DEGENERATE_FORMS = ["x-x", "x+y-y-x", "zeros@v", "0*x", "2x-x-x+1-1", "v-sum-cancel"]


def run_degenerate_rows(rep, thorough=False):
    n = 0
    for form in DEGENERATE_FORMS:
        for sense in ("<=", ">=", "=="):
            for rhs in (-1.0, 0.0, 1.0, 2.0, 3.0):
                for method in ["auto"] + LP_METHODS:
                    for objsense, extra in (("min", False), ("max", True)) if not thorough else (
                            ("min", False), ("max", True), ("min", True), ("max", False)):
                        case = {"form": form, "sense": sense, "rhs": rhs, "method": method, "objsense": objsense,
                                "extra": extra}
                        bad, status = degenerate_check(case)
                        n += 1
                        truth = (0.0 <= rhs) if sense == "<=" else (0.0 >= rhs) if sense == ">=" else (rhs == 0.0)
                        tag = f"degenerate:{'row-holds' if truth else 'row-fails'}:{status}"
                        rep.histogram[tag] = rep.histogram.get(tag, 0) + 1
                        if status == "OPTIMAL":
                            rep.nontrivial.add(hash(("deg", form, sense, rhs, method, objsense, extra)))
                        if bad is not None:
                            bad.update({"kind_of_case": "degenerate", "case": case})
                            rep.oracle_failures.append(bad)
    rep.evaluations += n


def degenerate_check(case):
    P = degenerate_case(case["form"], case["sense"], case["rhs"], case["method"], case["objsense"], case["extra"])
    with warnings.catch_warnings(), np.errstate(all="ignore"):
        warnings.simplefilter("ignore")
        try:
            sol = P.solve(method=case["method"])
        except Exception as e:  # noqa: BLE001
            return None, "raise:" + type(e).__name__
    if sol.status.name != "OPTIMAL":
        return None, sol.status.name
    bad = feasibility_report(P, sol.values, None, slack=1e-7)
    if bad is not None:
        bad["values"] = dict(sol.values)
    return bad, "OPTIMAL"


# ----------------------------------------------------------------------------- the operator alphabet as constraints


def alphabet_shapes():
    """name -> builder(x, y, v) of a left-hand side over the whole operator alphabet, reflected forms
    included (constant on the left of - / **), products, quotients, functions and vector nodes.
    x ∈ [1, 10], y ∈ [0.5, 4], v ∈ [0.5, 3]³: every shape is finite on the box."""
    from optyx.core import functions as F
    from optyx.core.expressions import Constant
    from optyx.core.parameters import Parameter
    from optyx.core.vectors import norm

    c3 = np.array([1.0, -2.0, 0.5])
    return {
        "x": lambda x, y, v: x, "2*x": lambda x, y, v: 2.0 * x, "x*2": lambda x, y, v: x * 2.0,
        "x+y": lambda x, y, v: x + y, "x-y": lambda x, y, v: x - y, "-x": lambda x, y, v: -x,
        "3-x": lambda x, y, v: 3.0 - x, "x-3": lambda x, y, v: x - 3.0, "3+x": lambda x, y, v: 3.0 + x,
        "x/2": lambda x, y, v: x / 2.0, "1/x": lambda x, y, v: 1.0 / x, "2/(x+y)": lambda x, y, v: 2.0 / (x + y),
        "(x+y)/4": lambda x, y, v: (x + y) / 4.0, "x/y": lambda x, y, v: x / y, "y/x": lambda x, y, v: y / x,
        "1/x+y": lambda x, y, v: 1.0 / x + y, "x-1/y": lambda x, y, v: x - 1.0 / y, "3*(1/x)": lambda x, y, v: 3.0 * (1.0 / x),
        "(1/x)/2": lambda x, y, v: (1.0 / x) / 2.0, "-(1/x)": lambda x, y, v: -(1.0 / x),
        "x*y": lambda x, y, v: x * y, "x*x": lambda x, y, v: x * x, "x*(y+1)": lambda x, y, v: x * (y + 1.0),
        "x**2": lambda x, y, v: x ** 2, "x**1": lambda x, y, v: x ** 1, "x**0.5": lambda x, y, v: x ** 0.5,
        "x**-1": lambda x, y, v: x ** -1, "2**x": lambda x, y, v: 2.0 ** x, "0.5**y": lambda x, y, v: 0.5 ** y,
        "x**y": lambda x, y, v: x ** y, "(x+y)**2": lambda x, y, v: (x + y) ** 2,
        "exp(y)": lambda x, y, v: F.exp(y), "log(x)": lambda x, y, v: F.log(x), "sqrt(x)": lambda x, y, v: F.sqrt(x),
        "sin(x)": lambda x, y, v: F.sin(x), "abs(x-3)": lambda x, y, v: F.abs_(x - 3.0), "tanh(y)": lambda x, y, v: F.tanh(y),
        "x+log(y)": lambda x, y, v: x + F.log(y), "2*exp(-y)": lambda x, y, v: 2.0 * F.exp(-y),
        "c@v": lambda x, y, v: c3 @ v, "v.sum()": lambda x, y, v: v.sum(), "v.dot(v)": lambda x, y, v: v.dot(v),
        "norm(v)": lambda x, y, v: norm(v), "(v**2).sum()": lambda x, y, v: (v ** 2).sum(),
        "(1/v).sum()": lambda x, y, v: (1.0 / v).sum(), "c@(1/v)": lambda x, y, v: c3 @ (1.0 / v),
        "(3-v).sum()": lambda x, y, v: (3.0 - v).sum(), "c@(v*v)": lambda x, y, v: c3 @ (v * v),
        "v[0]/v[1]": lambda x, y, v: v[0] / v[1], "x+1/v[2]": lambda x, y, v: x + 1.0 / v[2],
        "c@v+1/x": lambda x, y, v: c3 @ v + 1.0 / x,
        # wrappers (±const, k·, /k, neg, reflected) around reduction nodes at the root
        "-(v.sum())": lambda x, y, v: -(v.sum()), "2*(c@v)": lambda x, y, v: 2.0 * (c3 @ v), "(v.sum())/2": lambda x, y, v: v.sum() / 2.0,
        "3-v.sum()": lambda x, y, v: 3.0 - v.sum(), "v.sum()+1": lambda x, y, v: v.sum() + 1.0, "1/(v.sum())": lambda x, y, v: 1.0 / v.sum(),
        "-(c@v)-x": lambda x, y, v: -(c3 @ v) - x, "(c@v)*2-3": lambda x, y, v: (c3 @ v) * 2.0 - 3.0,
        "2-norm(v)": lambda x, y, v: 2.0 - norm(v), "-(v.dot(v))": lambda x, y, v: -(v.dot(v)), "v[::-1].sum()": lambda x, y, v: v[::-1].sum(),
        "c2@v[::2]": lambda x, y, v: np.array([1.0, -2.0]) @ v[::2], "v[1:].sum()-v[0]": lambda x, y, v: v[1:].sum() - v[0],
        # constant-valued compound sub-expressions wherever a number can stand; parameters
        "x**0+y": lambda x, y, v: x ** 0 + y, "0*x+y": lambda x, y, v: 0.0 * x + y, "(C2+3)*x": lambda x, y, v: (Constant(2.0) + 3.0) * x,
        "exp(C0)*x": lambda x, y, v: F.exp(Constant(0.0)) * x, "x/(C4/2)": lambda x, y, v: x / (Constant(4.0) / 2.0),
        "x**(C1+1)": lambda x, y, v: x ** (Constant(1.0) + 1.0), "p*x": lambda x, y, v: Parameter("p", 2.0) * x,
        "x/p": lambda x, y, v: x / Parameter("p", 2.0), "p/x": lambda x, y, v: Parameter("p", 2.0) / x,
        "x**p": lambda x, y, v: x ** Parameter("p", 2.0), "x+p0": lambda x, y, v: x + Parameter("p0", 0.0),
        "p1*x": lambda x, y, v: Parameter("p1", 1.0) * x, "x*0+1/y": lambda x, y, v: x * 0.0 + 1.0 / y,
    }


RHS_KINDS = ["float", "np.float64", "np.float32", "Constant", "Parameter", "0-d", "int"]


def typed_rhs(rhs, kind):
    from optyx.core.expressions import Constant
    from optyx.core.parameters import Parameter

    if kind == "np.float64":
        return np.float64(rhs)
    if kind == "np.float32" and float(np.float32(rhs)) == rhs:
        return np.float32(rhs)
    if kind == "Constant":
        return Constant(rhs - 1.0) + 1.0
    if kind == "Parameter":
        return Parameter("rhs", rhs)
    if kind == "0-d":
        return np.array(rhs)
    if kind == "int" and float(rhs).is_integer():
        return int(rhs)
    return float(rhs)


def alphabet_problem(shape, sense, rhs, objsense="min", rhs_kind="float"):
    from optyx import Problem, Variable, VectorVariable

    x = Variable("x", lb=1.0, ub=10.0)
    y = Variable("y", lb=0.5, ub=4.0)
    v = VectorVariable("v", 3, lb=0.5, ub=3.0)
    lhs = alphabet_shapes()[shape](x, y, v)
    obj = x + 2.0 * y + v.sum()
    P = Problem()
    P.minimize(obj) if objsense == "min" else P.maximize(obj)
    r = typed_rhs(rhs, rhs_kind)
    P.subject_to(lhs <= r if sense == "<=" else lhs >= r if sense == ">=" else lhs.eq(r))
    return P, lhs, [x, y] + list(v)


def shape_range(shape):
    """(min, max) of the shape over a grid of the box — by the independent reference interpreter"""
    import itertools

    import oracle

    P, lhs, vs = alphabet_problem(shape, "<=", 0.0)
    lo, hi = math.inf, -math.inf
    grid = {"x": [1.0, 2.0, 3.0, 5.5, 10.0], "y": [0.5, 1.0, 2.0, 4.0], "v": [0.5, 1.5, 3.0]}
    for xv, yv, a, b, c in itertools.product(grid["x"], grid["y"], grid["v"], grid["v"], grid["v"]):
        vals = {"x": xv, "y": yv, "v[0]": a, "v[1]": b, "v[2]": c}
        try:
            g = float(oracle.prim(oracle.ref_eval(lhs, vals)))
        except Exception:  # noqa: BLE001
            continue
        lo, hi = min(lo, g), max(hi, g)
    return lo, hi


def independent_feasibility(lhs, sense, rhs, variables, values, tol=None, slack=1e-7):
    """the constraint re-evaluated by harness/oracle.py (not by optyx) at the returned values, and the
    bounds; None = feasible within the stated tolerance"""
    import oracle

    atol = tol if tol is not None else 1e-6
    for v in variables:
        xv = values.get(v.name)
        if xv is None:
            return {"what": f"no value for variable {v.name}"}
        for bound, sign in ((v.lb, 1.0), (v.ub, -1.0)):
            if bound is not None and math.isfinite(bound) and sign * (bound - xv) > atol + RTOL * max(1.0, abs(bound)) + slack:
                return {"what": f"bound of {v.name} violated", "value": xv, "bound": bound}
    try:
        g = float(oracle.prim(oracle.ref_eval(lhs, dict(values)))) - rhs
    except Exception as e:  # noqa: BLE001
        # the reference interpreter refuses points within 1e-7 of a kink / pole (it also serves the derivative
        # oracles); the value itself exists there: fall back to plain evaluation, undefined only if that is not finite
        try:
            g = float(np.asarray(lhs.evaluate(dict(values)))) - rhs
        except Exception:  # noqa: BLE001
            g = float("nan")
        if not math.isfinite(g):
            return {"what": f"constraint undefined at the returned point ({type(e).__name__}: {e})"[:160]}
    viol = max(0.0, g) if sense == "<=" else max(0.0, -g) if sense == ">=" else abs(g)
    allowed = atol + RTOL * max(1.0, abs(g)) + slack
    if not (viol <= allowed):
        return {"what": f"constraint (lhs {sense} {rhs}) violated at the returned point", "lhs_minus_rhs": g,
                "violation": viol, "allowed": allowed}
    return None


def alphabet_check(case):
    try:
        P, lhs, vs = alphabet_problem(case["shape"], case["sense"], case["rhs"], case["objsense"], case.get("rhs_kind", "float"))
    except Exception as e:  # noqa: BLE001 - an operand type the comparison refuses: never silently dropped (C10)
        return None, "unbuildable:" + type(e).__name__
    with warnings.catch_warnings(), np.errstate(all="ignore"):
        warnings.simplefilter("ignore")
        try:
            sol = P.solve(method=case["method"])
        except Exception as e:  # noqa: BLE001 - refusing to solve is fine for C06
            return None, "raise:" + type(e).__name__
    if sol.status.name != "OPTIMAL":
        return None, sol.status.name
    bad = independent_feasibility(lhs, case["sense"], case["rhs"], vs, sol.values, None,
                                  slack=1e-7 if case["method"] in LP_METHODS + ["auto"] else 1e-9)
    if bad is None:
        bad = feasibility_report(P, sol.values, None, slack=1e-7)
    if bad is not None:
        bad["values"] = dict(sol.values)
    return bad, "OPTIMAL"


_RANGES = {}


def run_operator_alphabet(rep, rng, thorough):
    """every shape × sense × rhs ∈ {slack, binding, infeasible} × method.  The explicit LP methods are run on
    everything (they answer at once — NonLinearError — unless the shape is, or is taken to be, linear);
    "auto" and the NLP methods on a rotating part in the quick tier."""
    shapes = list(alphabet_shapes())
    i = 0
    for shape in shapes:
        if shape not in _RANGES:
            _RANGES[shape] = shape_range(shape)
        lo, hi = _RANGES[shape]
        if not (math.isfinite(lo) and math.isfinite(hi)):
            rep.skipped["alphabet:no-range"] = rep.skipped.get("alphabet:no-range", 0) + 1
            continue
        mid = round((lo + hi) / 2 * 8) / 8
        for sense in ("<=", ">=", "=="):
            rhss = {"<=": [("slack", hi + 1.0), ("binding", mid), ("infeasible", lo - 1.0)],
                    ">=": [("slack", lo - 1.0), ("binding", mid), ("infeasible", hi + 1.0)],
                    "==": [("binding", mid), ("infeasible", hi + 1.0), ("infeasible", lo - 1.0)]}[sense]
            for kind, rhs in rhss:
                for method in ["auto"] + LP_METHODS + ["SLSQP", "trust-constr", "COBYLA"]:
                    i += 1
                    case = {"shape": shape, "sense": sense, "rhs": rhs, "method": method,
                            "objsense": "min" if (i // 9) % 2 == 0 else "max", "rhs_kind": RHS_KINDS[(i // 9) % len(RHS_KINDS)]}
                    if method not in LP_METHODS:
                        # NLP solves of infeasible problems run to the iteration limit (≈1 s each): the time goes
                        # where a wrong OPTIMAL can come from cheaply.  "auto" is always run when optyx itself
                        # routes the problem to linprog (that is where a broken classification shows).
                        lp_routed = method == "auto" and alphabet_problem(shape, sense, rhs)[0]._is_linear_problem()
                        if not lp_routed:
                            if kind == "infeasible" and (not thorough or (i // 9) % 16 != 0):
                                continue
                            if method == "COBYLA" and (i // 9) % 3:
                                continue
                            if thorough and method in ("SLSQP", "trust-constr") and (i // 9) % 2:
                                continue
                            if not thorough and method == "auto" and (i // 9) % 4 != 0:
                                continue
                            if not thorough and method in ("SLSQP", "trust-constr") and (i // 9) % 12 != 1:
                                continue
                            if not thorough and method == "COBYLA":
                                continue
                    bad, status = alphabet_check(case)
                    rep.evaluations += 1
                    tag = f"alphabet:{kind}:{'lp' if method in LP_METHODS else method}:{status}"
                    rep.histogram[tag] = rep.histogram.get(tag, 0) + 1
                    if status == "OPTIMAL":
                        rep.nontrivial.add(hash(("alpha", shape, sense, rhs, method)))
                    if bad is not None:
                        bad.update({"kind_of_case": "alphabet", "case": case})
                        rep.oracle_failures.append(bad)


# ----------------------------------------------------------------------------- magnitudes and numeric types

MAGNITUDES = [1e-12, 1e-9, 9e-9, 2e-8, 1e-7, 1e-3, 1.0, 7.0, 1e4, 1e8, 1e12]
# Clean-tree finding reported to the coordinator (awaiting fix / KNOWN_FINDINGS decision): on the LP path a row whose
# coefficients are all below HiGHS's `small_matrix_value` (1e-9) is dropped by the solver and optyx does no post-solve
# check there: `maximize x s.t. 5e-10*x <= 1e-9, 0 <= x <= 1e6` is OPTIMAL at x = 1e6 (violation 5e-4).  Until that is
# decided, exactly this class (LP route, every row coefficient < 1e-9) is counted under rep.skipped / rep.notes instead of
# failing the check; set to True to report it as an oracle failure of kind "lp_tiny_coefficients_dropped".
REPORT_TINY_LP_ROWS = True
NUM_KINDS = ["float", "int", "np.float64", "np.float32", "np.int64", "np.int32", "np.uint8", "np.int8", "np.float16", "bool", "0-d"]


def typed_number(v, kind):
    with np.errstate(all="ignore"):
        return _typed_number(v, kind)


def _typed_number(v, kind):
    f = {"float": float, "int": lambda t: int(t), "np.float64": np.float64, "np.float32": np.float32,
         "np.int64": lambda t: np.int64(int(t)), "np.int32": lambda t: np.int32(int(t)), "np.uint8": lambda t: np.uint8(int(t)),
         "np.int8": lambda t: np.int8(int(t)), "np.float16": np.float16, "bool": lambda t: bool(t), "0-d": lambda t: np.array(float(t))}[kind]
    return f(v)


def magnitude_case(data):
    """k·(a·x + b·y) sense k·rhs with the scale k over 24 orders of magnitude, bounds given as numbers of every
    numeric type; the truth is computed from the Python floats the user's numbers denote"""
    from optyx import Problem, Variable

    k, kind = data["k"], data["kind"]
    lbv, ubv, rhsv, av = data["lb"], data["ub"], data["rhs"], data["a"]
    tn = lambda t: typed_number(t, kind)  # noqa: E731
    try:
        lb, ub, a = tn(lbv), tn(ubv), tn(av)
        fl = lambda t: float(np.asarray(t))  # noqa: E731  (what the typed number denotes)
        x = Variable("x", lb=lb, ub=ub)
        y = Variable("y", lb=-5.0, ub=5.0)
        # the scale is a Python float; only `a` and the bounds carry the numeric type under test
        lhs = (k * float(np.asarray(a))) * x + k * y if data["mul_first"] else k * (a * x + y)
        P = Problem()
        obj = x + y if not data["nonlinear"] else (x - 9.0) ** 2 + (y - 9.0) ** 2
        P.minimize(obj) if data["objsense"] == "min" else P.maximize(obj if not data["nonlinear"] else -1.0 * obj)
        r = k * rhsv
        P.subject_to(lhs <= r if data["sense"] == "<=" else lhs >= r if data["sense"] == ">=" else lhs.eq(r))
    except Exception as e:  # noqa: BLE001
        return None, "unbuildable:" + type(e).__name__
    with warnings.catch_warnings(), np.errstate(all="ignore"):
        warnings.simplefilter("ignore")
        try:
            sol = P.solve(method=data["method"], **({} if data["tol"] is None else {"tol": data["tol"]}))
        except Exception as e:  # noqa: BLE001
            return None, "raise:" + type(e).__name__
    if sol.status.name != "OPTIMAL":
        return None, sol.status.name
    xv, yv = sol.values["x"], sol.values["y"]
    atol = data["tol"] if data["tol"] is not None else 1e-6
    g = k * (fl(a) * xv + yv) - k * rhsv
    viol = max(0.0, g) if data["sense"] == "<=" else max(0.0, -g) if data["sense"] == ">=" else abs(g)
    allowed = atol + RTOL * max(1.0, abs(g)) + 1e-7 + 1e-9 * abs(k) * (abs(fl(a) * xv) + abs(yv) + abs(rhsv))
    if not viol <= allowed:
        return {"what": "scaled constraint violated at the returned point", "violation": viol, "allowed": allowed,
                "values": dict(sol.values)}, "OPTIMAL"
    for val, lo, hi in ((xv, fl(lb), fl(ub)), (yv, -5.0, 5.0)):
        if val < lo - (atol + RTOL * max(1.0, abs(lo)) + 1e-7) or val > hi + (atol + RTOL * max(1.0, abs(hi)) + 1e-7):
            return {"what": "bound violated at the returned point (bounds given as " + kind + ")", "value": val,
                    "bounds": [lo, hi], "values": dict(sol.values)}, "OPTIMAL"
    return None, "OPTIMAL"


def run_magnitudes_types(rep, rng, thorough):
    methods = ["auto"] + LP_METHODS + ["SLSQP", "trust-constr", "L-BFGS-B", "COBYLA"]
    i = 0
    for k in MAGNITUDES + [-m for m in MAGNITUDES[::3]]:
        for kind in NUM_KINDS:
            for sense in ("<=", ">=", "=="):
                i += 1
                if not thorough and i % 3:
                    continue
                integral = kind not in ("float", "np.float64", "np.float32", "np.float16", "0-d")
                lo, hi = (0, 1) if kind == "bool" else (rng.choice([0, 1, 2]), rng.choice([3, 5, 100])) if integral else (
                    rng.choice([0.5, -1.5, 0.0]), rng.choice([2.5, 4.0, 1024.0 if kind == "np.float16" else 1e6]))
                nonlinear = i % (4 if thorough else 9) == 1
                data = {"k": k, "kind": kind, "sense": sense, "lb": lo, "ub": hi, "a": 1 if kind == "bool" else rng.choice([1, 2, 3]),
                        "rhs": rng.choice([lo + 0.5, hi + 2.0, float(hi)] + ([lo - 7.0] if thorough or not nonlinear else [])),
                        "mul_first": bool(i % 2),
                        "nonlinear": nonlinear, "objsense": "min" if (i // 2) % 2 else "max",
                        "method": rng.choice(["SLSQP", "trust-constr", "L-BFGS-B", "auto"] if nonlinear else
                                             (methods if thorough and i % 5 == 0 else methods[:-1])),
                        "tol": rng.choice([None, None, 0.0, 1e-9, 1e-3])}
                if data["method"] in LP_METHODS + ["COBYLA", "L-BFGS-B"] or (data["method"] == "auto" and not nonlinear):
                    data["tol"] = None     # tol is forwarded as a keyword that these solvers do not take
                bad, status = magnitude_case(data)
                if bad is not None and "scaled constraint" in bad["what"] and abs(k) * max(1.0, abs(float(data["a"]))) < 1e-9 \
                        and (data["method"] in LP_METHODS or (data["method"] == "auto" and not nonlinear)):
                    bad["kind"] = "lp_tiny_coefficients_dropped"
                    if not REPORT_TINY_LP_ROWS:
                        rep.skipped["finding:lp_tiny_coefficients_dropped"] = rep.skipped.get("finding:lp_tiny_coefficients_dropped", 0) + 1
                        if not any("lp_tiny" in n for n in rep.notes):
                            rep.notes.append("reported finding (not counted): LP row with all coefficients < 1e-9 dropped by HiGHS, "
                                             f"OPTIMAL violates it: {data} -> {bad['values']}")
                        bad = None
                rep.evaluations += 1
                tag = f"magnitude:{status}"
                rep.histogram[tag] = rep.histogram.get(tag, 0) + 1
                if status == "OPTIMAL":
                    rep.nontrivial.add(hash(("mag", str(data))))
                if bad is not None:
                    bad.update({"kind_of_case": "magnitude", "data": data})
                    rep.oracle_failures.append(bad)


# ----------------------------------------------------------------------------- container-level constraints


def container_case(data):
    """constraints written on vectors, views (unit / strided / reversed, equal labels), matrix-vector products,
    matrix rows / columns / diagonals, symmetric matrices, a 450-term chain; the truth is NumPy on the values"""
    from optyx import MatrixVariable, Problem, VectorVariable

    n = 4
    x = VectorVariable("x", n, lb=-2.0, ub=3.0)
    M = MatrixVariable("M", 2, 2, lb=-1.0, ub=2.0)
    S = MatrixVariable("S", 2, 2, lb=-1.0, ub=2.0, symmetric=True)
    A = np.array(data["A"], dtype=float)
    b = np.array(data["b"], dtype=float)
    keep = [(A, A.copy()), (b, b.copy())]
    X = lambda v: np.array([v.get(f"x[{i}]", np.nan) for i in range(n)])  # noqa: E731
    Mv = lambda v: np.array([[v.get(f"M[{i},{j}]", np.nan) for j in range(2)] for i in range(2)])  # noqa: E731
    Sv = lambda v: np.array([[v.get(f"S[{min(i, j)},{max(i, j)}]", np.nan) for j in range(2)] for i in range(2)])  # noqa: E731
    r = data["rhs"]
    forms = {
        "A@x<=b": (lambda: A @ x <= b, lambda v: A @ X(v) - b, "<="),
        "x>=b4": (lambda: x >= b[0], lambda v: X(v) - b[0], ">="),
        "x[::-1]<=arr": (lambda: x[::-1] <= np.array([r, r + 1, r + 2, r + 3]), lambda v: X(v)[::-1] - np.array([r, r + 1, r + 2, r + 3]), "<="),
        "x[::2].sum()>=r": (lambda: x[::2].sum() >= r, lambda v: np.array([X(v)[::2].sum() - r]), ">="),
        "labels:x[0:4:2]|x[0:4:3]": (lambda: [x[0:4:2].sum() <= r, x[0:4:3].sum() >= r - 1.0],
                                     lambda v: np.array([X(v)[0:4:2].sum() - r, -(X(v)[0:4:3].sum() - (r - 1.0))]), "<="),
        "x.dot(x)<=r2": (lambda: x.dot(x) <= abs(r) + 1.0, lambda v: np.array([X(v) @ X(v) - abs(r) - 1.0]), "<="),
        "M.sum()<=r": (lambda: M.sum() <= r, lambda v: np.array([Mv(v).sum() - r]), "<="),
        "S.sum()>=r": (lambda: S.sum() >= r, lambda v: np.array([Sv(v).sum() - r]), ">="),
        "S.trace()==r": (lambda: S.trace().eq(r), lambda v: np.array([np.trace(Sv(v)) - r]), "=="),
        "M[0,:]>=r": (lambda: M[0, :] >= r, lambda v: Mv(v)[0, :] - r, ">="),
        "M.T[:,0].sum()<=r": (lambda: M.T[:, 0].sum() <= r, lambda v: np.array([Mv(v).T[:, 0].sum() - r]), "<="),
        "M.diagonal().sum()==r": (lambda: M.diagonal().sum().eq(r), lambda v: np.array([np.trace(Mv(v)) - r]), "=="),
        "M>=r": (lambda: M >= r, lambda v: (Mv(v) - r).ravel(), ">="),
        "S<=r": (lambda: S <= r, lambda v: (Sv(v) - r).ravel(), "<="),
        "deep-450<=r": None,
    }
    P = Problem()
    obj = x.sum() + M.sum() + S.sum()
    if data["nonlinear"]:
        obj = obj + (x[0] - 0.5) ** 2
    P.minimize(obj) if data["objsense"] == "min" else P.maximize(obj if not data["nonlinear"] else x.sum() + M.sum() + S.sum() - (x[0] - 0.5) ** 2)
    if data["form"] == "deep-450<=r":
        e = x[0] * 1.0
        for i in range(450):
            e = e + (1.0 if i % 3 else -0.5) * x[i % n]
        cons = e <= r
        truth = lambda v: np.array([X(v)[0] + sum((1.0 if i % 3 else -0.5) * X(v)[i % n] for i in range(450)) - r])  # noqa: E731
        sense = "<="
    else:
        build, truth, sense = forms[data["form"]]
        cons = build()
    P.subject_to(cons)
    return P, truth, sense, keep


CONTAINER_FORMS = ["A@x<=b", "x>=b4", "x[::-1]<=arr", "x[::2].sum()>=r", "labels:x[0:4:2]|x[0:4:3]", "x.dot(x)<=r2", "M.sum()<=r",
                   "S.sum()>=r", "S.trace()==r", "M[0,:]>=r", "M.T[:,0].sum()<=r", "M.diagonal().sum()==r", "M>=r", "S<=r",
                   "deep-450<=r"]


def container_check(data):
    try:
        P, truth, sense, keep = container_case(data)
    except Exception as e:  # noqa: BLE001
        return None, "unbuildable:" + type(e).__name__
    with warnings.catch_warnings(), np.errstate(all="ignore"):
        warnings.simplefilter("ignore")
        try:
            sol = P.solve(method=data["method"])
        except Exception as e:  # noqa: BLE001
            return None, "raise:" + type(e).__name__
    for arr, copy in keep:
        if not np.array_equal(arr, copy):
            return {"what": "a user-supplied array was modified by the solve"}, sol.status.name
    if sol.status.name != "OPTIMAL":
        return None, sol.status.name
    g = np.asarray(truth(sol.values), dtype=float)
    viol = np.maximum(0.0, g) if sense == "<=" else np.maximum(0.0, -g) if sense == ">=" else np.abs(g)
    allowed = 1e-6 + RTOL * np.maximum(1.0, np.abs(g)) + 1e-7
    if not np.all(viol <= allowed):     # NaN (a variable without a value) fails too
        return {"what": "container-level constraint violated at the returned point (NumPy on the values)",
                "residuals": g.tolist(), "values": dict(sol.values)}, "OPTIMAL"
    bad = feasibility_report(P, sol.values, None, slack=1e-7)
    if bad is not None:
        bad["values"] = dict(sol.values)
    return bad, "OPTIMAL"


def run_container_constraints(rep, rng, thorough):
    methods = ["auto"] + LP_METHODS + ["SLSQP", "trust-constr"]
    i = 0
    for form in CONTAINER_FORMS:
        for rhs in (-6.0, -1.0, 0.5, 2.0, 30.0):
            for method in methods:
                i += 1
                nonlinear = method in ("SLSQP", "trust-constr") or i % 5 == 0
                if not thorough and nonlinear and (i % 4 or form == "deep-450<=r" and i % 8):
                    continue
                if (not thorough or i % 4) and nonlinear and rhs in (-6.0, 30.0) and form not in ("x.dot(x)<=r2",):
                    continue   # far-infeasible NLP solves run to the iteration limit
                data = {"form": form, "rhs": rhs, "method": method, "nonlinear": nonlinear, "objsense": "min" if i % 2 else "max",
                        "A": [[rng.choice([1.0, -1.0, 0.0, 2.0, 0.5]) for _ in range(4)] for _ in range(rng.randint(1, 3))],
                        "b": None}
                data["b"] = [rhs + j for j in range(len(data["A"]))]
                if (not thorough or i % 4) and method == "auto" and rhs in (-6.0, 30.0):
                    try:
                        if not container_case(data)[0]._is_linear_problem():
                            continue   # NLP-routed and possibly far-infeasible: seconds per solve
                    except Exception:  # noqa: BLE001
                        pass
                bad, status = container_check(data)
                rep.evaluations += 1
                tag = f"container:{form}:{status}"
                rep.histogram[tag] = rep.histogram.get(tag, 0) + 1
                if status == "OPTIMAL":
                    rep.nontrivial.add(hash(("cont", form, rhs, method, nonlinear)))
                if bad is not None:
                    bad.update({"kind_of_case": "container", "data": data})
                    rep.oracle_failures.append(bad)


# ----------------------------------------------------------------------------- element-wise vector / matrix constraints

EW_VEC_LHS = ["x", "x[1:4]", "x[::-1]", "x[::2]", "x[1:4][::-1]", "2*x+1", "-x", "x-y", "1-x", "x/2", "M[1,:]", "M[:,0]",
              "M.T[0,:]", "Q[1,1:4]", "Q.T[:,0]", "S[:,1]", "S[2,:]", "S.T[0,:]", "2*S[:,0]-1", "S.diagonal()", "A@x"]
EW_MAT_LHS = ["M", "M.T", "Q", "Q.T", "M[0:2,1:3]", "Q.T[1:3,0:2]", "Q[0:1,:]", "Q[:,0:1]", "S", "S.T", "S.T.T", "S[0:2,0:2]",
              "S[0:2,1:3]", "S.T[1:3,0:3]", "2*S", "S*0.5+1", "-S", "S/2", "S+M", "M-S", "S-C", "C-S", "(2*S).T", "M+M.T",
              "M.T-C"]
EW_LHS = EW_VEC_LHS + EW_MAT_LHS
EW_RHS = ["float", "int", "array", "array-sym", "array-int", "array-strided", "list", "var", "var-view", "var-sym", "var-pinned",
          "expr", "expr-sym", "expr-scaled"]
EW_SENSES = ["<=", ">=", "=="]
_EW_BOX = 20.0


def _ew_objects(k):
    """the containers of one model: x, y (length k+1); M (k×k), N ((k+1)×(k+1)), Q (k×(k+1)); S, T symmetric k×k"""
    from optyx import MatrixVariable, VectorVariable

    n, lo, hi = k + 1, -_EW_BOX, _EW_BOX
    return {"x": VectorVariable("x", n, lb=lo, ub=hi), "y": VectorVariable("y", n, lb=lo, ub=hi),
            "M": MatrixVariable("M", k, k, lb=lo, ub=hi), "N": MatrixVariable("N", n, n, lb=lo, ub=hi),
            "Q": MatrixVariable("Q", k, n, lb=lo, ub=hi), "S": MatrixVariable("S", k, k, lb=lo, ub=hi, symmetric=True),
            "T": MatrixVariable("T", k, k, lb=lo, ub=hi, symmetric=True),
            "p": VectorVariable("p", n, lb=lo, ub=hi), "P": MatrixVariable("P", n, n, lb=lo, ub=hi)}


def _ew_arrays(values, k):
    """the returned point as NumPy arrays, read from the values dict BY ELEMENT NAME (a symmetric matrix stores one
    variable per unordered pair, named after the upper-triangle cell); NaN where the model has no such variable"""
    n = k + 1
    g = lambda name: float(values.get(name, np.nan))  # noqa: E731
    vec = lambda b, m: np.array([g(f"{b}[{i}]") for i in range(m)])  # noqa: E731
    mat = lambda b, r, c: np.array([[g(f"{b}[{i},{j}]") for j in range(c)] for i in range(r)])  # noqa: E731
    sym = lambda b, r: np.array([[g(f"{b}[{min(i, j)},{max(i, j)}]") for j in range(r)] for i in range(r)])  # noqa: E731
    return {"x": vec("x", n), "y": vec("y", n), "p": vec("p", n), "M": mat("M", k, k), "N": mat("N", n, n), "P": mat("P", n, n),
            "Q": mat("Q", k, n), "S": sym("S", k), "T": sym("T", k)}


def _ew_lhs(form, o, C, A):
    """(the object the API builds, the same recipe in NumPy on the arrays of _ew_arrays)"""
    x, y, M, Q, S = o["x"], o["y"], o["M"], o["Q"], o["S"]
    forms = {
        "x": (lambda: x, lambda B: B["x"]),
        "x[1:4]": (lambda: x[1:4], lambda B: B["x"][1:4]),
        "x[::-1]": (lambda: x[::-1], lambda B: B["x"][::-1]),
        "x[::2]": (lambda: x[::2], lambda B: B["x"][::2]),
        "x[1:4][::-1]": (lambda: x[1:4][::-1], lambda B: B["x"][1:4][::-1]),
        "2*x+1": (lambda: 2 * x + 1, lambda B: 2 * B["x"] + 1),
        "-x": (lambda: -x, lambda B: -B["x"]),
        "x-y": (lambda: x - y, lambda B: B["x"] - B["y"]),
        "1-x": (lambda: 1 - x, lambda B: 1 - B["x"]),
        "x/2": (lambda: x / 2, lambda B: B["x"] / 2),
        "M[1,:]": (lambda: M[1, :], lambda B: B["M"][1, :]),
        "M[:,0]": (lambda: M[:, 0], lambda B: B["M"][:, 0]),
        "M.T[0,:]": (lambda: M.T[0, :], lambda B: B["M"].T[0, :]),
        "Q[1,1:4]": (lambda: Q[1, 1:4], lambda B: B["Q"][1, 1:4]),
        "Q.T[:,0]": (lambda: Q.T[:, 0], lambda B: B["Q"].T[:, 0]),
        "S[:,1]": (lambda: S[:, 1], lambda B: B["S"][:, 1]),
        "S[2,:]": (lambda: S[2, :], lambda B: B["S"][2, :]),
        "S.T[0,:]": (lambda: S.T[0, :], lambda B: B["S"].T[0, :]),
        "2*S[:,0]-1": (lambda: 2 * S[:, 0] - 1, lambda B: 2 * B["S"][:, 0] - 1),
        "S.diagonal()": (lambda: S.diagonal(), lambda B: np.diagonal(B["S"])),
        "A@x": (lambda: A @ x, lambda B: A @ B["x"]),
        "M": (lambda: M, lambda B: B["M"]),
        "M.T": (lambda: M.T, lambda B: B["M"].T),
        "Q": (lambda: Q, lambda B: B["Q"]),
        "Q.T": (lambda: Q.T, lambda B: B["Q"].T),
        "M[0:2,1:3]": (lambda: M[0:2, 1:3], lambda B: B["M"][0:2, 1:3]),
        "Q.T[1:3,0:2]": (lambda: Q.T[1:3, 0:2], lambda B: B["Q"].T[1:3, 0:2]),
        "Q[0:1,:]": (lambda: Q[0:1, :], lambda B: B["Q"][0:1, :]),
        "Q[:,0:1]": (lambda: Q[:, 0:1], lambda B: B["Q"][:, 0:1]),
        "S": (lambda: S, lambda B: B["S"]),
        "S.T": (lambda: S.T, lambda B: B["S"].T),
        "S.T.T": (lambda: S.T.T, lambda B: B["S"].T.T),
        "S[0:2,0:2]": (lambda: S[0:2, 0:2], lambda B: B["S"][0:2, 0:2]),
        "S[0:2,1:3]": (lambda: S[0:2, 1:3], lambda B: B["S"][0:2, 1:3]),
        "S.T[1:3,0:3]": (lambda: S.T[1:3, 0:3], lambda B: B["S"].T[1:3, 0:3]),
        "2*S": (lambda: 2 * S, lambda B: 2 * B["S"]),
        "S*0.5+1": (lambda: S * 0.5 + 1, lambda B: B["S"] * 0.5 + 1),
        "-S": (lambda: -S, lambda B: -B["S"]),
        "S/2": (lambda: S / 2, lambda B: B["S"] / 2),
        "S+M": (lambda: S + M, lambda B: B["S"] + B["M"]),
        "M-S": (lambda: M - S, lambda B: B["M"] - B["S"]),
        "S-C": (lambda: S - C, lambda B: B["S"] - C),
        "C-S": (lambda: C - S, lambda B: C - B["S"]),
        "(2*S).T": (lambda: (2 * S).T, lambda B: (2 * B["S"]).T),
        "M+M.T": (lambda: M + M.T, lambda B: B["M"] + B["M"].T),
        "M.T-C": (lambda: M.T - C, lambda B: B["M"].T - C),
    }
    build, num = forms[form]
    return build(), num


def _ew_rhs(kind, shape, o, nums, keep, pin_width=0.0):
    """right-hand side of the given shape: (the object handed to the API, NumPy recipe on the arrays, (container, pins) or None)
    -- scalars, arrays (non-symmetric, symmetric, integer dtype, strided views), lists, variable containers (plain, views,
    symmetric, pinned by lb = ub to a NON-symmetric target -- for the NLP solvers by a box of width 0.5: trust-constr, also
    as SLSQP's automatic retry, needs minutes on lb = ub -- the recipe reads the pinned container's VALUES anyway) and
    expressions of them"""
    y, N, T, p, P = o["y"], o["N"], o["T"], o["p"], o["P"]
    vecq = len(shape) == 1
    m = shape[0]
    r, c = (shape[0], shape[1]) if not vecq else (None, None)
    size = m if vecq else r * c
    R = np.array(nums[:size], dtype=float).reshape(shape)
    K = np.array(nums[size:2 * size] if len(nums) >= 2 * size else nums[::-1][:size], dtype=float).reshape(shape)
    square = not vecq and r == c
    if kind == "float":
        return float(nums[0]), (lambda B: float(nums[0]))
    if kind == "int":
        return int(round(nums[0])), (lambda B: float(int(round(nums[0]))))
    if kind == "array":
        keep.append((R, R.copy()))
        return R, (lambda B: R.copy())
    if kind == "array-sym":
        Rs = (R + R.T) / 2 if square else R[::-1].copy()
        keep.append((Rs, Rs.copy()))
        return Rs, (lambda B: Rs.copy())
    if kind == "array-int":
        Ri = np.rint(R).astype(np.int64)
        keep.append((Ri, Ri.copy()))
        return Ri, (lambda B: Ri.astype(float))
    if kind == "array-strided":
        # the same numbers behind a non-contiguous view: a transposed (Fortran-ordered) matrix, every other cell of a vector
        if vecq:
            big = np.zeros(2 * m)
            big[::2] = R
            Rv = big[::2]
        else:
            Rv = np.ascontiguousarray(R.T).T
        keep.append((Rv, Rv.copy()))
        return Rv, (lambda B: np.array(R))
    if kind == "list":
        return R.tolist(), (lambda B: R.copy())
    if kind == "var":
        return (y[0:m], (lambda B: B["y"][0:m])) if vecq else (N[0:r, 0:c], (lambda B: B["N"][0:r, 0:c]))
    if kind == "var-view":
        if vecq:
            return y[::-1][0:m], (lambda B: B["y"][::-1][0:m])
        return N.T[0:r, 0:c], (lambda B: B["N"].T[0:r, 0:c])
    if kind == "var-sym":
        if vecq:
            return T[0:m, 1] if m <= T.rows else y[0:m], (lambda B: B["T"][0:m, 1] if m <= T.rows else B["y"][0:m])
        if (r, c) == T.shape:
            return T, (lambda B: B["T"])
        if r <= T.rows and c <= T.cols:
            return T[0:r, 0:c], (lambda B: B["T"][0:r, 0:c])
        return N[0:r, 0:c], (lambda B: B["N"][0:r, 0:c])
    if kind == "var-pinned":
        if vecq:
            for i in range(m):
                p[i].lb, p[i].ub = float(R[i]), float(R[i]) + pin_width
            return p[0:m], (lambda B: B["p"][0:m])
        for i in range(r):
            for j in range(c):
                P[i, j].lb, P[i, j].ub = float(R[i, j]), float(R[i, j]) + pin_width
        return P[0:r, 0:c], (lambda B: B["P"][0:r, 0:c])
    if kind == "expr":
        keep.append((K, K.copy()))
        return (y[0:m] + K, (lambda B: B["y"][0:m] + K)) if vecq else (N[0:r, 0:c] + K, (lambda B: B["N"][0:r, 0:c] + K))
    if kind == "expr-sym":
        # a symmetric container plus a NON-symmetric constant array
        keep.append((K, K.copy()))
        if vecq and m <= T.rows:
            return T[0:m, 0] + K, (lambda B: B["T"][0:m, 0] + K)
        if not vecq and r <= T.rows and c <= T.cols:
            Tv = T if (r, c) == T.shape else T[0:r, 0:c]
            return Tv + K, (lambda B: B["T"][0:r, 0:c] + K)
        return (y[0:m] - K, (lambda B: B["y"][0:m] - K)) if vecq else (K - N[0:r, 0:c], (lambda B: K - B["N"][0:r, 0:c]))
    if kind == "expr-scaled":
        return (0.5 * y[0:m] - 1, (lambda B: 0.5 * B["y"][0:m] - 1)) if vecq else \
            (0.5 * N.T[0:r, 0:c] - 1, (lambda B: 0.5 * B["N"].T[0:r, 0:c] - 1))
    raise KeyError(kind)


def _ew_cells(obj, shape):
    if len(shape) == 1:
        return [obj[i] for i in range(shape[0])]
    return [obj[i, j] for i in range(shape[0]) for j in range(shape[1])]


def elementwise_case(data):
    """ONE element-wise constraint `L sense R` between vector-like / matrix-like operands (plus, optionally, the opposite
    sense at distance `band`: a corridor that can be empty), an objective that pushes every cell of L - R against the
    constraint.  Returns the problem and the recipe `values -> [(L - R as a NumPy array, sense), ...]` evaluated on the
    USER'S arrays: a constraint the library failed to create is in the recipe although it is not in prob.constraints."""
    from optyx import Problem

    k = data["k"]
    o = _ew_objects(k)
    nums = list(data["nums"])
    C = np.array(data["C"], dtype=float).reshape(k, k)
    A = np.array(data["A"], dtype=float).reshape(k, k + 1)
    keep = [(C, C.copy()), (A, A.copy())]
    L, lnum = _ew_lhs(data["lhs"], o, C, A)
    shape = np.shape(lnum(_ew_arrays({}, k)))
    Robj, rnum = _ew_rhs(data["rhs"], shape, o, nums, keep, pin_width=0.5 if data["nonlinear"] else 0.0)
    sense = data["sense"]
    cons = [L <= Robj if sense == "<=" else L >= Robj if sense == ">=" else L.eq(Robj)]
    recipe = [(lambda B: lnum(B) - rnum(B), sense)]
    band = data.get("band")
    if band is not None and sense != "==":
        if isinstance(Robj, list):
            Rb = [v - band for v in Robj] if sense == "<=" else [v + band for v in Robj]
        else:
            Rb = Robj - band if sense == "<=" else Robj + band
        cons.append(L >= Rb if sense == "<=" else L <= Rb)
        recipe.append(((lambda B: lnum(B) - (rnum(B) - band)), ">=") if sense == "<="
                      else ((lambda B: lnum(B) - (rnum(B) + band)), "<="))
    # the objective: built cell by cell through the element access of the operands
    lc = _ew_cells(L, shape)
    rc = _ew_cells(Robj, shape) if not isinstance(Robj, (int, float, list, np.ndarray)) else None
    w = list(data["w"])
    lin, quad = 0.0, 0.0
    for q, cell in enumerate(lc):
        wq = w[q % len(w)] * (1.0 if sense != "==" or q % 2 else -1.0)
        lin = lin + wq * cell
        quad = quad + 0.05 * cell ** 2
        if rc is not None:
            lin = lin - wq * rc[q]
            quad = quad + 0.05 * rc[q] ** 2
    P = Problem()
    if sense == "<=":
        P.maximize(lin - quad if data["nonlinear"] else lin)
    else:
        P.minimize(lin + quad if data["nonlinear"] else lin)
    for cgroup in cons:
        P.subject_to(cgroup)
    return P, recipe, keep, o


def elementwise_feasible_by_hand(data):
    """a fresh model of the same corridor, independent of optyx's constraint objects: every residual of the recipe is an
    affine function of the values, so probing it at 0 and at the unit points gives the rows G v + g0 (sense) 0; SciPy's
    linprog then decides feasibility inside the declared boxes / pins.  Used for SCHEDULING only (NLP solvers need
    seconds to minutes to give up on an empty corridor), never as a verdict."""
    from scipy.optimize import linprog

    try:
        _, recipe, _, o = elementwise_case(data)
    except Exception:  # noqa: BLE001
        return False
    k = data["k"]
    bounds = {}
    for cont in o.values():
        cells = [cont[i] for i in range(len(cont))] if not hasattr(cont, "rows") else \
            [cont[i, j] for i in range(cont.rows) for j in range(cont.cols)]
        for v in cells:
            bounds[v.name] = (v.lb, v.ub)
    names = sorted(bounds)
    col = {nm: c for c, nm in enumerate(names)}
    zero = {key: np.zeros_like(arr) for key, arr in _ew_arrays({}, k).items()}
    probes = []     # (column, container, cells that hold this variable): a symmetric matrix holds it in two cells
    for key, arr in zero.items():
        for idx in np.ndindex(arr.shape):
            if key in ("S", "T"):
                if idx[0] <= idx[1]:
                    probes.append((col[f"{key}[{idx[0]},{idx[1]}]"], key, [idx, idx[::-1]]))
            else:
                probes.append((col[f"{key}[{','.join(str(t) for t in idx)}]"], key, [idx]))
    ub_rows, ub_rhs, eq_rows, eq_rhs = [], [], [], []
    for resid, sense in recipe:
        g0 = np.asarray(resid(zero), dtype=float).ravel()
        G = np.zeros((g0.size, len(names)))
        for c, key, cells in probes:
            pt = dict(zero)
            pt[key] = zero[key].copy()
            for idx in cells:
                pt[key][idx] = 1.0
            G[:, c] = np.asarray(resid(pt), dtype=float).ravel() - g0
        if sense == "==":
            eq_rows.append(G), eq_rhs.append(-g0)
        else:
            sg = 1.0 if sense == "<=" else -1.0
            ub_rows.append(sg * G), ub_rhs.append(-sg * g0)
    res = linprog(np.zeros(len(names)), A_ub=np.vstack(ub_rows) if ub_rows else None,
                  b_ub=np.concatenate(ub_rhs) if ub_rhs else None, A_eq=np.vstack(eq_rows) if eq_rows else None,
                  b_eq=np.concatenate(eq_rhs) if eq_rhs else None, bounds=[bounds[nm] for nm in names], method="highs")
    return res.status == 0


def elementwise_check(data):
    try:
        P, recipe, keep, _ = elementwise_case(data)
        k = data["k"]
    except Exception as e:  # noqa: BLE001
        return None, "unbuildable:" + type(e).__name__
    with warnings.catch_warnings(), np.errstate(all="ignore"):
        warnings.simplefilter("ignore")
        try:
            sol = P.solve(method=data["method"])
        except Exception as e:  # noqa: BLE001
            return None, "raise:" + type(e).__name__
    for arr, copy in keep:
        if not np.array_equal(arr, copy):
            return {"what": "a user-supplied array was modified by building / solving the model"}, sol.status.name
    if sol.status.name != "OPTIMAL":
        return None, sol.status.name
    B = _ew_arrays(sol.values, k)
    for idx, (resid, sense) in enumerate(recipe):
        g = np.asarray(resid(B), dtype=float)
        viol = np.maximum(0.0, g) if sense == "<=" else np.maximum(0.0, -g) if sense == ">=" else np.abs(g)
        allowed = 1e-6 + RTOL * np.maximum(1.0, np.abs(g)) + 1e-7
        if not np.all(viol <= allowed):     # NaN (a variable without a value) fails too
            worst = np.unravel_index(int(np.nanargmax(np.where(np.isnan(viol), np.inf, viol))), viol.shape)
            return {"what": f"element-wise constraint `{data['lhs']} {sense} {data['rhs']}`"
                            f"{' (corridor side)' if idx else ''} violated at the returned point: cell {tuple(int(t) for t in worst)} "
                            f"has L - R = {float(g[worst])!r} (NumPy on the user's arrays and the values read by element name; "
                            f"k={k}, method={data['method']!r}, {'strictly convex' if data['nonlinear'] else 'linear'} objective, "
                            f"corridor={data.get('band')!r})",
                    "L_minus_R": g.tolist(), "values": dict(sol.values)}, "OPTIMAL"
    bad = feasibility_report(P, sol.values, None, slack=1e-7)
    if bad is not None:
        bad["values"] = dict(sol.values)
    return bad, "OPTIMAL"


_EW_NUMS = [-3.0, -2.5, -2.0, -1.5, -1.0, -0.5, 0.0, 0.5, 1.0, 1.5, 2.0, 2.5, 3.0, 3.5, 4.0, 4.5, 5.0]


def elementwise_data(rng, lhs, rhs, sense, method, nonlinear, band):
    k = rng.choice([3, 3, 4])
    return {"lhs": lhs, "rhs": rhs, "sense": sense, "method": method, "nonlinear": nonlinear, "band": band, "k": k,
            "nums": [rng.choice(_EW_NUMS) for _ in range(2 * (k + 1) * (k + 1))],
            "w": [rng.choice([1.0, 2.0, 3.0]) for _ in range(7)],
            "C": [rng.choice(_EW_NUMS) for _ in range(k * k)],
            "A": [rng.choice([1.0, -1.0, 0.0, 2.0, 0.5]) for _ in range(k * (k + 1))]}


_EW_NUMERIC_RHS = ("float", "int", "array", "array-sym", "array-int", "array-strided", "list")


def run_elementwise_constraints(rep, rng, thorough):
    """every left operand kind × every right-hand-side kind (the whole grid in every run); sense, method, corridor and
    sizes rotate / are drawn from the rng.  LP route (auto + explicit linprog methods) and NLP route (auto / SLSQP with a
    strictly convex objective on every sixth cell of the grid (thorough: every cell); trust-constr -- 0.5 s per solve, and seconds when it runs
    to its iteration limit on models with free or pinned right-hand-side variables -- on a few cells with a numeric
    right-hand side)."""
    lp_methods = ["auto"] + LP_METHODS
    off = rng.randint(0, 59)
    i = 0
    for a, lhs in enumerate(EW_LHS):
        for b, rhs in enumerate(EW_RHS):
            senses = EW_SENSES if thorough else [EW_SENSES[(a + b + rng.randint(0, 2)) % 3]]
            for sense in senses:
                i += 1
                band = [None, 10.0, 0.25, None][(i + rng.randint(0, 1)) % 4] if sense != "==" else None
                runs = [(lp_methods[(i + rng.randint(0, 4)) % 5], False)]
                if thorough:
                    runs += [(mth, False) for mth in lp_methods if mth != runs[0][0]]
                if thorough or (i + off) % 6 == 0:
                    runs.append((("auto", "SLSQP")[rng.randint(0, 1)], True))
                if rhs in _EW_NUMERIC_RHS and (i + off) % (20 if thorough else 60) == 0:
                    runs.append(("trust-constr", True))
                for method, nonlinear in runs:
                    data = elementwise_data(rng, lhs, rhs, sense, method, nonlinear, band)
                    if nonlinear and not elementwise_feasible_by_hand(data):
                        data["band"] = None if sense != "==" else data["band"]   # open the corridor; else leave it to the LP route
                        if sense == "==" or not elementwise_feasible_by_hand(data):
                            rep.histogram["elementwise:nlp-skipped-empty-corridor"] = \
                                rep.histogram.get("elementwise:nlp-skipped-empty-corridor", 0) + 1
                            continue
                    bad, status = elementwise_check(data)
                    rep.evaluations += 1
                    tag = f"elementwise:{'mat' if lhs in EW_MAT_LHS else 'vec'}:{rhs}:{status}"
                    rep.histogram[tag] = rep.histogram.get(tag, 0) + 1
                    if status == "OPTIMAL":
                        rep.nontrivial.add(hash(("ew", str(data))))
                    if bad is not None:
                        bad.update({"kind_of_case": "elementwise", "data": data})
                        rep.oracle_failures.append(bad)


# ----------------------------------------------------------------------------- overlapping terms

OVERLAP_FORMS = ["x[0]+a@x", "a@x+x[0]", "a@x+b@x", "x.sum()+a@x", "a@x+x.sum()", "2*x[1]-a@x", "a@x-2*x[1]", "s+a@x+s",
                 "x[0]+x[0]+a@x", "a@x-b@x+x[0]", "(a@x)*2+x[0]/2", "a2@x[0:2]+b2@x[1:3]", "x[0:2].sum()+x[1:3].sum()",
                 "a@x+b@x[::-1]", "x[::2].sum()+a@x", "x[n-1]+a@x+x.sum()", "-(a@x)+x[0]", "a@x+b@(x+1)", "(a+b)@x+a@x",
                 "x[0]+a@x | obj overlaps too"]


def overlap_case(data):
    """one expression whose terms touch the SAME variables, in every order (a scalar element before / after a
    LinearCombination, two LinearCombinations, VectorSum + LinearCombination, overlapping views): the LP row has to
    ACCUMULATE the contributions.  Truth = NumPy on the returned values."""
    from optyx import Problem, Variable, VectorVariable

    n = data["n"]
    x = VectorVariable("x", n, lb=0.0, ub=10.0)
    s = Variable("s", lb=0.0, ub=4.0)
    a, b = np.array(data["a"], dtype=float), np.array(data["b"], dtype=float)
    a2, b2 = a[:2].copy(), b[:2].copy()
    X = lambda v: np.array([v.get(f"x[{i}]", np.nan) for i in range(n)])  # noqa: E731
    S = lambda v: v.get("s", 0.0)  # noqa: E731
    forms = {
        "x[0]+a@x": (lambda: x[0] + a @ x, lambda v: X(v)[0] + a @ X(v)),
        "a@x+x[0]": (lambda: a @ x + x[0], lambda v: a @ X(v) + X(v)[0]),
        "a@x+b@x": (lambda: a @ x + b @ x, lambda v: (a + b) @ X(v)),
        "x.sum()+a@x": (lambda: x.sum() + a @ x, lambda v: X(v).sum() + a @ X(v)),
        "a@x+x.sum()": (lambda: a @ x + x.sum(), lambda v: X(v).sum() + a @ X(v)),
        "2*x[1]-a@x": (lambda: 2 * x[1] - a @ x, lambda v: 2 * X(v)[1] - a @ X(v)),
        "a@x-2*x[1]": (lambda: a @ x - 2 * x[1], lambda v: a @ X(v) - 2 * X(v)[1]),
        "s+a@x+s": (lambda: s + a @ x + s, lambda v: 2 * S(v) + a @ X(v)),
        "x[0]+x[0]+a@x": (lambda: x[0] + x[0] + a @ x, lambda v: 2 * X(v)[0] + a @ X(v)),
        "a@x-b@x+x[0]": (lambda: a @ x - b @ x + x[0], lambda v: (a - b) @ X(v) + X(v)[0]),
        "(a@x)*2+x[0]/2": (lambda: (a @ x) * 2 + x[0] / 2, lambda v: 2 * (a @ X(v)) + X(v)[0] / 2),
        "a2@x[0:2]+b2@x[1:3]": (lambda: a2 @ x[0:2] + b2 @ x[1:3], lambda v: a2 @ X(v)[0:2] + b2 @ X(v)[1:3]),
        "x[0:2].sum()+x[1:3].sum()": (lambda: x[0:2].sum() + x[1:3].sum(), lambda v: X(v)[0:2].sum() + X(v)[1:3].sum()),
        "a@x+b@x[::-1]": (lambda: a @ x + b @ x[::-1], lambda v: a @ X(v) + b @ X(v)[::-1]),
        "x[::2].sum()+a@x": (lambda: x[::2].sum() + a @ x, lambda v: X(v)[::2].sum() + a @ X(v)),
        "x[n-1]+a@x+x.sum()": (lambda: x[n - 1] + a @ x + x.sum(), lambda v: X(v)[n - 1] + a @ X(v) + X(v).sum()),
        "-(a@x)+x[0]": (lambda: -(a @ x) + x[0], lambda v: -(a @ X(v)) + X(v)[0]),
        "a@x+b@(x+1)": (lambda: a @ x + b @ (x + 1.0), lambda v: a @ X(v) + b @ (X(v) + 1.0)),
        "(a+b)@x+a@x": (lambda: (a + b) @ x + a @ x, lambda v: (2 * a + b) @ X(v)),
        "x[0]+a@x | obj overlaps too": (lambda: x[0] + a @ x, lambda v: X(v)[0] + a @ X(v)),
    }
    build, truth = forms[data["form"]]
    lhs = build()
    r = data["rhs"]
    P = Problem()
    w = np.array(data["w"], dtype=float)
    obj = w @ x + s if "obj overlaps" not in data["form"] else x[0] + w @ x + x.sum() + s
    P.maximize(obj) if data["objsense"] == "max" else P.minimize(obj)
    P.subject_to(lhs <= r if data["sense"] == "<=" else lhs >= r if data["sense"] == ">=" else lhs.eq(r))
    if data.get("pin") is not None:
        P.subject_to(x[0] >= data["pin"])
    return P, truth


def overlap_check(data):
    try:
        P, truth = overlap_case(data)
    except Exception as e:  # noqa: BLE001
        return None, "unbuildable:" + type(e).__name__
    with warnings.catch_warnings(), np.errstate(all="ignore"):
        warnings.simplefilter("ignore")
        try:
            sol = P.solve(method=data["method"])
        except Exception as e:  # noqa: BLE001
            return None, "raise:" + type(e).__name__
    if sol.status.name != "OPTIMAL":
        return None, sol.status.name
    g = float(truth(sol.values)) - data["rhs"]
    sense = data["sense"]
    viol = max(0.0, g) if sense == "<=" else max(0.0, -g) if sense == ">=" else abs(g)
    if not viol <= 1e-6 + RTOL * max(1.0, abs(g)) + 1e-7:
        return {"what": "constraint with overlapping terms violated at the returned point (NumPy on the values)",
                "lhs_minus_rhs": g, "values": dict(sol.values)}, "OPTIMAL"
    if data.get("pin") is not None and sol.values.get("x[0]", 0.0) < data["pin"] - 3e-6:
        return {"what": "pinning constraint violated", "values": dict(sol.values)}, "OPTIMAL"
    bad = feasibility_report(P, sol.values, None, slack=1e-7)
    if bad is not None:
        bad["values"] = dict(sol.values)
    return bad, "OPTIMAL"


def run_overlapping_terms(rep, rng, thorough):
    methods = ["auto"] + LP_METHODS + ["SLSQP"]
    i = 0
    for form in OVERLAP_FORMS:
        for sense in ("<=", ">=", "=="):
            for rk in ("binding", "slack", "infeasible-with-pin"):
                for method in methods:
                    i += 1
                    if not thorough and (method == "SLSQP" and i % 4 or method in ("highs", "highs-ipm") and i % 2):
                        continue
                    n = rng.choice([3, 3, 4, 5, 33 if thorough else 6])
                    a = [rng.choice([1.0, 1.0, 2.0, 0.5, 3.0, -1.0]) for _ in range(n)]
                    b = [rng.choice([1.0, 2.0, -0.5, 1.5]) for _ in range(n)]
                    rhs = {"binding": 6.0, "slack": 400.0 if sense != ">=" else -400.0, "infeasible-with-pin": 6.0}[rk]
                    data = {"form": form, "n": n, "a": a, "b": b, "w": [rng.choice([1.0, 2.0, 0.5]) for _ in range(n)],
                            "sense": sense, "rhs": rhs if sense != "==" or rk != "slack" else 7.5,
                            "objsense": "max" if sense != ">=" else "min", "method": method,
                            "pin": 4.0 if rk == "infeasible-with-pin" else None}
                    bad, status = overlap_check(data)
                    rep.evaluations += 1
                    tag = f"overlap:{rk}:{status}"
                    rep.histogram[tag] = rep.histogram.get(tag, 0) + 1
                    if status == "OPTIMAL":
                        rep.nontrivial.add(hash(("ovl", str(data))))
                    if bad is not None:
                        bad.update({"kind_of_case": "overlap", "data": data})
                        rep.oracle_failures.append(bad)


# ----------------------------------------------------------------------------- deep trees in solved NLP problems

DEEP_RHS = ["CAP-50*r", "a-(b-c)", "a-(b+c)", "-(a-b)", "CAP-(r-(x0-1))", "lhs-(r-2)<=c", "CAP-50*r+0", "(CAP-r)-(x1-r)"]


def deep_case(data):
    """a loop-built sum of N (>= 400) terms as the left-hand side of a constraint of a problem solved through the NLP
    path, with right-hand sides that are differences / nested subtractions; also the deep sum inside the objective.
    -> (problem, truth(values) -> lhs - rhs as plain Python floats)"""
    from optyx import Problem, Variable

    N = data["N"]
    xs = [Variable(f"x{i}", lb=0.0, ub=10.0) for i in range(4)]
    r = Variable("r", lb=0.0, ub=10.0)
    w = data["w"]
    load = xs[0] * w[0]
    for k in range(1, N):
        load = load + w[k % len(w)] * xs[k % 4] if not data["sub_terms"] or k % 7 else load - (-w[k % len(w)]) * xs[k % 4]
    tl = lambda v: sum(w[k % len(w)] * v[f"x{k % 4}"] for k in range(N))  # noqa: E731
    CAP = data["cap"]
    form = data["rhs"]
    X = lambda v, i: v[f"x{i}"]  # noqa: E731
    table = {
        "CAP-50*r": (lambda: (load, CAP - 50 * r), lambda v: tl(v) - (CAP - 50 * v["r"])),
        "a-(b-c)": (lambda: (load, CAP - (r - xs[0])), lambda v: tl(v) - (CAP - (v["r"] - X(v, 0)))),
        "a-(b+c)": (lambda: (load, CAP - (r + xs[1])), lambda v: tl(v) - (CAP - (v["r"] + X(v, 1)))),
        "-(a-b)": (lambda: (load, -(r - CAP)), lambda v: tl(v) - (-(v["r"] - CAP))),
        "CAP-(r-(x0-1))": (lambda: (load, CAP - (r - (xs[0] - 1.0))), lambda v: tl(v) - (CAP - (v["r"] - (X(v, 0) - 1.0)))),
        "lhs-(r-2)<=c": (lambda: (load - (r - 2.0), CAP), lambda v: tl(v) - (v["r"] - 2.0) - CAP),
        "CAP-50*r+0": (lambda: (load, CAP - 50 * r + 0.0), lambda v: tl(v) - (CAP - 50 * v["r"])),
        "(CAP-r)-(x1-r)": (lambda: (load, (CAP - r) - (xs[1] - r)), lambda v: tl(v) - ((CAP - v["r"]) - (X(v, 1) - v["r"]))),
    }
    build, truth = table[form]
    lhs, rhs = build()
    P = Problem()
    t = data["targets"]
    obj = (r - data["tr"]) ** 2
    for i in range(4):
        obj = obj + (xs[i] - t[i]) ** 2
    if data["deep_objective"]:
        obj = obj + 1e-3 * load
    P.minimize(obj)
    P.subject_to(lhs <= rhs if data["sense"] == "<=" else lhs >= rhs)
    return P, truth


def deep_check(data):
    try:
        P, truth = deep_case(data)
    except RecursionError:
        return None, "unbuildable:RecursionError"
    with warnings.catch_warnings(), np.errstate(all="ignore"):
        warnings.simplefilter("ignore")
        try:
            sol = P.solve(method=data["method"])
        except Exception as e:  # noqa: BLE001
            return None, "raise:" + type(e).__name__
    if sol.status.name != "OPTIMAL":
        return None, sol.status.name
    g = float(truth(sol.values))
    viol = max(0.0, g) if data["sense"] == "<=" else max(0.0, -g)
    if not viol <= 1e-6 + RTOL * max(1.0, abs(g)) + 1e-7:
        return {"what": "deep constraint (plain-Python evaluation of the user's lhs and rhs) violated at the returned point",
                "lhs_minus_rhs": g, "values": dict(sol.values)}, "OPTIMAL"
    for k, v in sol.values.items():
        if v < -3e-6 or v > 10.0 + 3e-5:
            return {"what": f"bound of {k} violated", "values": dict(sol.values)}, "OPTIMAL"
    return None, "OPTIMAL"


def run_deep_nlp(rep, rng, thorough):
    i = 0
    for form in DEEP_RHS:
        for sense in ("<=", ">="):
            for method in ("auto", "SLSQP", "trust-constr"):
                i += 1
                if not thorough and (i + len(form)) % 2:
                    continue
                N = [450, 400, 600, 401, 399][i % 5]
                data = {"N": N, "w": [rng.choice([1.0, 2.0, 0.5, 1.5]) for _ in range(5)], "rhs": form, "sense": sense,
                        "method": method, "cap": rng.choice([900.0, 1500.0, 2500.0]) if sense == "<=" else rng.choice([300.0, 900.0]),
                        "targets": [rng.choice([8.0, 9.0, 6.0]) if sense == "<=" else rng.choice([0.0, 0.5, 1.0]) for _ in range(4)],
                        "tr": rng.choice([1.0, 4.0, 9.0]), "deep_objective": bool(i % 3 == 0), "sub_terms": bool(i % 2)}
                bad, status = deep_check(data)
                rep.evaluations += 1
                tag = f"deep-nlp:{form}:{status}"
                rep.histogram[tag] = rep.histogram.get(tag, 0) + 1
                if status == "OPTIMAL":
                    rep.nontrivial.add(hash(("deep", str(data))))
                if bad is not None:
                    bad.update({"kind_of_case": "deep", "data": data})
                    rep.oracle_failures.append(bad)


# ----------------------------------------------------------------------------- histories: edits between solves


def feasibility_history(data):
    """one Problem through solves (LP- and NLP-path methods interleaved), bound edits (tighten / loosen / cross /
    remove), added constraints, and rebuilds of a same-named model; every OPTIMAL answer must be feasible for the
    bounds and constraints as they are AT THAT MOMENT"""
    from optyx import Problem, Variable

    def fresh(shift):
        vs = [Variable(nm, lb=0.0, ub=4.0) for nm in data["names"]]
        P = Problem()
        obj = sum((1.0 + i) * v for i, v in enumerate(vs))
        if data["nonlinear"]:
            obj = obj + (vs[0] - 1.0) ** 2
        P.minimize(obj) if data["objsense"] == "min" else P.maximize(obj if not data["nonlinear"] else sum((1.0 + i) * v for i, v in enumerate(vs)) - (vs[0] - 1.0) ** 2)
        P.subject_to(sum(vs[1:], vs[0]) >= 1.0 + shift)
        return P, vs, [(">=", [1.0] * len(vs), 1.0 + shift)]
    P, vs, rows = fresh(0.0)
    n_solves = 0
    for op in data["ops"]:
        if op[0] == "bound":
            v = vs[op[1] % len(vs)]
            setattr(v, op[2], op[3])
        elif op[0] == "constraint":
            j = op[1] % len(vs)
            P.subject_to(vs[j] <= op[2] if op[3] == "<=" else vs[j] >= op[2])
            rows.append((op[3], [1.0 if t == j else 0.0 for t in range(len(vs))], op[2]))
        elif op[0] == "rebuild":
            P, vs, rows = fresh(op[1])
        else:
            with warnings.catch_warnings(), np.errstate(all="ignore"):
                warnings.simplefilter("ignore")
                try:
                    sol = P.solve(method=op[1])
                except Exception:  # noqa: BLE001
                    continue
            n_solves += 1
            if sol.status.name != "OPTIMAL":
                continue
            xs = [sol.values.get(v.name) for v in vs]
            if any(t is None for t in xs):
                return {"what": "a variable has no value", "values": dict(sol.values), "after": op}, n_solves
            for v, t in zip(vs, xs):
                if (v.lb is not None and t < v.lb - 3e-6 - 1e-6 * abs(v.lb)) or (v.ub is not None and t > v.ub + 3e-6 + 1e-6 * abs(v.ub)):
                    return {"what": f"OPTIMAL violates the CURRENT bounds of {v.name}", "value": t, "bounds": [v.lb, v.ub],
                            "after": op, "values": dict(sol.values)}, n_solves
            for sense, coef, rhs in rows:
                g = sum(c * t for c, t in zip(coef, xs)) - rhs
                if (sense == ">=" and g < -3e-6 - 1e-6 * abs(g)) or (sense == "<=" and g > 3e-6 + 1e-6 * abs(g)):
                    return {"what": "OPTIMAL violates a constraint of the current model", "row": [sense, coef, rhs],
                            "after": op, "values": dict(sol.values)}, n_solves
    return None, n_solves


def run_feasibility_histories(rep, rng, thorough):
    lp = ["auto", "linprog", "highs", "highs-ds", "highs-ipm", "SLSQP", "L-BFGS-B", "trust-constr"]
    nlp = ["auto", "SLSQP", "trust-constr", "L-BFGS-B", "BFGS", "TNC"]
    pools = [["x1", "x10", "x2"], ["a[0]", "a[10]", "a[2]", "a"], ["x01", "x1"], ["y"], ["v9", "v10", "v11"]]
    for i in range(400 if thorough else 70):
        nonlinear = i % 3 == 0
        methods = nlp if nonlinear else lp
        ops = []
        for _ in range(rng.randint(3, 8)):
            r = rng.random()
            if r < 0.4:
                ops.append(["solve", rng.choice(methods)])
            elif r < 0.75:
                ops.append(["bound", rng.randint(0, 3), rng.choice(["lb", "ub"]),
                            rng.choice([0.0, 1.0, 2.5, 3.5, 5.0, -1.0, None])])
            elif r < 0.9:
                ops.append(["constraint", rng.randint(0, 3), rng.choice([0.5, 1.5, 3.0]), rng.choice(["<=", ">="])])
            else:
                ops.append(["rebuild", rng.choice([0.0, 1.5, 6.0])])
        ops.append(["solve", rng.choice(methods)])
        data = {"names": pools[i % len(pools)], "nonlinear": nonlinear, "objsense": "min" if i % 2 else "max", "ops": ops}
        bad, k = feasibility_history(data)
        rep.evaluations += k
        rep.histogram["feasibility-history-solves"] = rep.histogram.get("feasibility-history-solves", 0) + k
        rep.nontrivial.add(hash(("fh", str(data))))
        if bad is not None:
            bad.update({"kind_of_case": "fhistory", "data": data})
            rep.oracle_failures.append(bad)


# ----------------------------------------------------------------------------- parameters in solved problems: solve / set / re-solve


def _pforms():
    """name -> (build(p, q) -> VARIABLE-FREE optyx expression over the Parameters p, q (and constants),
                value(pv, qv) -> the same number by plain Python arithmetic).
    Bare parameters, every binary operator in both operand positions, unary minus, functions, Constant nodes,
    compounds of compounds."""
    from optyx.core import functions as F
    from optyx.core.expressions import Constant

    return {
        "p": (lambda p, q: p, lambda a, b: a),
        "2*p": (lambda p, q: 2.0 * p, lambda a, b: 2.0 * a),
        "p*2": (lambda p, q: p * 2.0, lambda a, b: a * 2.0),
        "-p": (lambda p, q: -p, lambda a, b: -a),
        "p+q": (lambda p, q: p + q, lambda a, b: a + b),
        "p-q": (lambda p, q: p - q, lambda a, b: a - b),
        "q-p": (lambda p, q: q - p, lambda a, b: b - a),
        "p*q": (lambda p, q: p * q, lambda a, b: a * b),
        "p/4": (lambda p, q: p / 4.0, lambda a, b: a / 4.0),
        "8/p": (lambda p, q: 8.0 / p, lambda a, b: 8.0 / a),
        "3-p": (lambda p, q: 3.0 - p, lambda a, b: 3.0 - a),
        "p-3": (lambda p, q: p - 3.0, lambda a, b: a - 3.0),
        "3+p": (lambda p, q: 3.0 + p, lambda a, b: 3.0 + a),
        "p**2": (lambda p, q: p ** 2, lambda a, b: a * a),
        "-(p-q)": (lambda p, q: -(p - q), lambda a, b: -(a - b)),
        "(p+q)/2": (lambda p, q: (p + q) / 2.0, lambda a, b: (a + b) / 2.0),
        "2*p+1": (lambda p, q: 2.0 * p + 1.0, lambda a, b: 2.0 * a + 1.0),
        "p+C1": (lambda p, q: p + Constant(1.0), lambda a, b: a + 1.0),
        "C2*p": (lambda p, q: Constant(2.0) * p, lambda a, b: 2.0 * a),
        "abs(p)": (lambda p, q: F.abs_(p), lambda a, b: abs(a)),
        "exp(p/8)": (lambda p, q: F.exp(p / 8.0), lambda a, b: math.exp(a / 8.0)),
        "0*p+q": (lambda p, q: 0.0 * p + q, lambda a, b: b),
        "2*(p-q)+q": (lambda p, q: 2.0 * (p - q) + q, lambda a, b: 2.0 * (a - b) + b),
        "p*q-q": (lambda p, q: p * q - q, lambda a, b: a * b - b),
    }


PARAM_POSITIONS = ["S?E", "E?S", "S-E?c", "E+S?c", "E*x0+R?c", "x0*E+R?c", "x0/E+R?c", "E*S?E2", "S?E+E2", "sq?E",
                   "pow+R?c", "vcoef?E2"]
PARAM_VALUES = [0.0, 1.0, -1.0, 2.0, 5.0, 0.5, 3.0, -2.0, 8.0, 1.5, 4.0, 0, 1, -1, 6]


def _param_numbers(data, pv, qv):
    """(E, E2, Eo, [coefficient E_i of every variable for the vector position]) — plain floats"""
    forms = _pforms()
    f, f2, fo = forms[data["form"]][1], forms[data["form2"]][1], forms[data["oform"]][1]
    a = float(pv[0])
    return f(a, qv), f2(a, qv), fo(a, qv), [f(float(t), qv) for t in pv]


def _param_conditioned(data, pv, qv):
    """keeps the family away from ill-conditioned models: no division by (nearly) zero, moderate exponents and sizes"""
    used = (data["form"], data["form2"], data["oform"])
    if "8/p" in used and any(abs(float(t)) < 0.5 for t in pv):
        return False
    try:
        E, E2, Eo, Es = _param_numbers(data, pv, qv)
    except (ZeroDivisionError, OverflowError):
        return False
    if not all(math.isfinite(t) and abs(t) <= 100.0 for t in [E, E2, Eo] + Es):
        return False
    if data["pos"] == "x0/E+R?c" and abs(E) < 0.5:
        return False
    if data["pos"] == "pow+R?c" and abs(E) > 6.0:
        return False
    return True


def _param_lhs_rhs(data, pv, qv, xs):
    """(lhs, rhs) of the parameterised constraint at the point xs under the parameter values pv, qv:
    plain Python floats, written from the SPEC (no optyx object involved)"""
    E, E2, _, Es = _param_numbers(data, pv, qv)
    w, n, N = data["w"], len(data["w"]), data["N"]
    S = sum(w[k % n] * xs[k % n] for k in range(N))
    R = sum(w[k % n] * xs[k % n] for k in range(N) if k % n)
    c = data["c"]
    pos = data["pos"]
    if pos in ("S?E", "E?S"):
        return S, E
    if pos == "S-E?c":
        return S - E, c
    if pos == "E+S?c":
        return E + S, c
    if pos in ("E*x0+R?c", "x0*E+R?c"):
        return E * xs[0] + R, c
    if pos == "x0/E+R?c":
        return xs[0] / E + R, c
    if pos == "E*S?E2":
        return E * S, E2
    if pos == "S?E+E2":
        return S, E + E2
    if pos == "sq?E":
        return sum(t * t for t in xs), E
    if pos == "pow+R?c":
        return (1.0 + xs[0] / 10.0) ** E + R, c
    if pos == "vcoef?E2":
        return sum(Es[i] * xs[i] for i in range(n)), E2
    raise KeyError(pos)


def _param_feasible_by_hand(data, pv, qv):
    """is the parameterised constraint satisfiable on the box?  Every left-hand side of the family is monotone in
    each variable on the box (linear, x/E, squares and powers of non-negative bases), so its range is spanned by
    the corners; plain arithmetic.  Used by the GENERATOR only, to keep the share of infeasible models (NLP solves
    of those run to the iteration limit) small — never to excuse an answer."""
    import itertools

    n = len(data["w"])
    vals = []
    for corner in itertools.product(*[(data["lbs"][i], data["ub"]) for i in range(n)]):
        lhs, rhs = _param_lhs_rhs(data, pv, qv, list(corner))
        vals.append(lhs - rhs)
    lo, hi = min(vals), max(vals)
    s = data["sense"]
    return lo <= -1e-3 if s == "<=" else hi >= 1e-3 if s == ">=" else (lo <= -1e-3 and hi >= 1e-3)


def param_model(data, pv, qv):
    """the optyx model of the spec: fresh Variables / Parameters (same names every time), the parameterised
    constraint with the variable-free form at the position the spec names, an optional plain second constraint,
    an objective that may contain a variable-free form as well"""
    from optyx import Problem, Variable
    from optyx.core.parameters import Parameter, VectorParameter

    w, n, N = data["w"], len(data["w"]), data["N"]
    xs = [Variable(data["names"][i], lb=data["lbs"][i], ub=data["ub"]) for i in range(n)]
    if data["pos"] == "vcoef?E2":
        vp = VectorParameter("p", n, values=[float(t) for t in pv])
        ps = list(vp)
    else:
        vp, ps = None, [Parameter("p", pv[0])]
    q = Parameter("q", qv)
    forms = _pforms()
    E, E2, Eo = forms[data["form"]][0](ps[0], q), forms[data["form2"]][0](ps[0], q), forms[data["oform"]][0](ps[0], q)

    def lin(ks):
        acc = None
        for k in ks:
            t = w[k % n] * xs[k % n]
            acc = t if acc is None else acc + t
        return acc
    pos, c = data["pos"], data["c"]
    reflected = False
    if pos == "S?E":
        lhs, rhs = lin(range(N)), E
    elif pos == "E?S":
        lhs, rhs, reflected = lin(range(N)), E, True
    elif pos == "S-E?c":
        lhs, rhs = lin(range(N)) - E, c
    elif pos == "E+S?c":
        lhs, rhs = E + lin(range(N)), c
    elif pos == "E*x0+R?c":
        lhs, rhs = E * xs[0] + lin([k for k in range(N) if k % n]), c
    elif pos == "x0*E+R?c":
        lhs, rhs = xs[0] * E + lin([k for k in range(N) if k % n]), c
    elif pos == "x0/E+R?c":
        lhs, rhs = xs[0] / E + lin([k for k in range(N) if k % n]), c
    elif pos == "E*S?E2":
        lhs, rhs = E * lin(range(N)), E2
    elif pos == "S?E+E2":
        lhs, rhs = lin(range(N)), E + E2
    elif pos == "sq?E":
        lhs = xs[0] ** 2
        for v in xs[1:]:
            lhs = lhs + v ** 2
        rhs = E
    elif pos == "pow+R?c":
        lhs, rhs = (1.0 + xs[0] / 10.0) ** E + lin([k for k in range(N) if k % n]), c
    elif pos == "vcoef?E2":
        lhs = None
        for i in range(n):
            t = forms[data["form"]][0](ps[i], q) * xs[i]
            lhs = t if lhs is None else lhs + t
        rhs = E2
    else:
        raise KeyError(pos)
    s = data["sense"]
    if reflected:      # the variable-free expression is the receiver of the comparison
        con = rhs >= lhs if s == "<=" else rhs <= lhs if s == ">=" else rhs.eq(lhs)
    else:
        con = lhs <= rhs if s == "<=" else lhs >= rhs if s == ">=" else lhs.eq(rhs)
    cons = [con]
    if data["extra"] is not None:
        e = xs[0] + xs[n - 1] >= data["extra"][1] if data["extra"][0] == ">=" else xs[0] + xs[n - 1] <= data["extra"][1]
        cons = [e, con] if data["extra_first"] else [con, e]
    j = data["obj_param"]
    if data["obj"] == "quad":
        obj = None
        for i in range(n):
            t = (xs[i] - (Eo if i == j else data["targets"][i])) ** 2
            obj = t if obj is None else obj + t
    else:
        obj = None
        for i in range(n):
            t = (Eo if i == j else data["costs"][i]) * xs[i]
            obj = t if obj is None else obj + t
    P = Problem()
    P.minimize(obj) if data["objsense"] == "min" else P.maximize(obj)
    for k in cons:
        P.subject_to(k)
    return {"P": P, "xs": xs, "ps": ps, "vp": vp, "q": q, "pv": [float(t) for t in pv], "qv": float(qv), "obj": obj,
            "cons": cons, "con": con}


def _param_judge(data, m, values, atol=1e-6):
    """OPTIMAL => bounds, the parameterised constraint under the CURRENT parameter values and the plain constraint
    hold at `values`; all by plain arithmetic on the spec.  Also: Constraint.violation must report the same number."""
    n = len(data["w"])
    xs = [values.get(data["names"][i]) for i in range(n)]
    if any(t is None for t in xs):
        return {"what": "a variable has no value"}
    for i, t in enumerate(xs):
        lb, ub = data["lbs"][i], data["ub"]
        if t < lb - (atol + RTOL * max(1.0, abs(lb))) - 1e-7 or t > ub + (atol + RTOL * max(1.0, abs(ub))) + 1e-7:
            return {"what": f"OPTIMAL violates the bounds of {data['names'][i]}", "value": t, "bounds": [lb, ub]}
    lhs, rhs = _param_lhs_rhs(data, m["pv"], m["qv"], xs)
    g = lhs - rhs
    s = data["sense"]
    viol = max(0.0, g) if s == "<=" else max(0.0, -g) if s == ">=" else abs(g)
    allowed = atol + RTOL * max(1.0, abs(g)) + 1e-7
    if not viol <= allowed:
        return {"what": f"OPTIMAL, but the constraint (lhs {s} rhs) is violated under the CURRENT parameter values "
                        f"(hand arithmetic on the spec)", "lhs": lhs, "rhs": rhs, "violation": viol, "allowed": allowed,
                "p": list(m["pv"]), "q": m["qv"]}
    if data["extra"] is not None:
        e = xs[0] + xs[n - 1] - data["extra"][1]
        ev = max(0.0, -e) if data["extra"][0] == ">=" else max(0.0, e)
        if not ev <= atol + RTOL * max(1.0, abs(e)) + 1e-7:
            return {"what": "OPTIMAL, but the plain second constraint is violated", "violation": ev}
    try:
        lib = float(m["con"].violation(dict(values)))
    except Exception as e:  # noqa: BLE001
        return {"what": f"Constraint.violation raises at the returned point: {type(e).__name__}"}
    if not abs(lib - viol) <= 1e-9 * (1.0 + abs(lhs) + abs(rhs)):
        return {"what": "Constraint.violation disagrees with hand arithmetic under the current parameter values",
                "Constraint.violation": lib, "hand": viol, "p": list(m["pv"]), "q": m["qv"]}
    return None


def param_history(data):
    """one model through solve / Parameter.set / re-solve (the use Parameters exist for), a new Problem over the SAME
    expression objects, a same-named model rebuilt from fresh objects next to the old one, switching between the two;
    every OPTIMAL answer is judged with the parameter values current AT THAT MOMENT in THAT model"""
    from optyx import Problem

    cur = param_model(data, data["p0"], data["q0"])
    others = []
    n_solves, n_optimal = 0, 0
    for step, op in enumerate(data["ops"]):
        kind = op[0]
        if kind == "set":
            if op[1] == "q":
                cur["q"].set(op[2])
                cur["qv"] = float(op[2])
            else:
                cur["ps"][0].set(op[2])
                cur["pv"][0] = float(op[2])
        elif kind == "vset":
            if cur["vp"] is not None:
                cur["vp"].set(op[1])
                cur["pv"] = [float(t) for t in op[1]]
            else:
                cur["ps"][0].set(op[1][0])
                cur["pv"][0] = float(op[1][0])
        elif kind == "reuse":
            P = Problem()
            P.minimize(cur["obj"]) if data["objsense"] == "min" else P.maximize(cur["obj"])
            for k in cur["cons"]:
                P.subject_to(k)
            cur["P"] = P
        elif kind == "fresh":
            others.append(cur)
            cur = param_model(data, cur["pv"], cur["qv"])
        elif kind == "switch":
            if others:
                others.append(cur)
                cur = others.pop(0)
        elif kind == "read":
            mid = {v.name: op[1] for v in cur["xs"]}
            lhs, rhs = _param_lhs_rhs(data, cur["pv"], cur["qv"], [op[1]] * len(cur["xs"]))
            g = lhs - rhs
            want = max(0.0, g) if data["sense"] == "<=" else max(0.0, -g) if data["sense"] == ">=" else abs(g)
            try:
                lib = float(cur["con"].violation(mid))
            except Exception as e:  # noqa: BLE001
                return {"what": f"Constraint.violation raises: {type(e).__name__}", "after": [step, op]}, n_solves, n_optimal
            if not abs(lib - want) <= 1e-9 * (1.0 + abs(lhs) + abs(rhs)):
                return {"what": "Constraint.violation disagrees with hand arithmetic under the current parameter values",
                        "Constraint.violation": lib, "hand": want, "at": op[1], "p": list(cur["pv"]), "q": cur["qv"],
                        "after": [step, op]}, n_solves, n_optimal
        else:
            with warnings.catch_warnings(), np.errstate(all="ignore"):
                warnings.simplefilter("ignore")
                try:
                    sol = cur["P"].solve(method=op[1])
                except Exception:  # noqa: BLE001 - refusing to solve is fine for C06
                    continue
            n_solves += 1
            if sol.status.name != "OPTIMAL":
                continue
            n_optimal += 1
            bad = _param_judge(data, cur, sol.values)
            if bad is not None:
                bad.update({"after": [step, op], "values": dict(sol.values)})
                return bad, n_solves, n_optimal
    return None, n_solves, n_optimal


def param_history_data(rng, i):
    forms = list(_pforms())
    pos = PARAM_POSITIONS[i % len(PARAM_POSITIONS)]
    n = 2 + (i // len(PARAM_POSITIONS)) % 2
    data = {"pos": pos, "form": forms[(i + 5 * (i // len(PARAM_POSITIONS))) % len(forms)], "form2": rng.choice(forms),
            "oform": rng.choice(forms), "names": rng.choice([["x", "y", "z"], ["x10", "x2", "x1"], ["a[0]", "a[1]", "a[2]"]])[:n],
            "w": [rng.choice([1.0, 2.0, 0.5, 1.5]) for _ in range(n)],
            "N": n if i % 9 else rng.choice([399, 400, 401, 450]),
            "lbs": [rng.choice([0.0, 0.0, 0.0, 1.0, 3.0]) for _ in range(n)], "ub": 10.0,
            "sense": ["<=", ">=", "<=", ">=", "=="][(i // 3) % 5],
            "obj": "quad" if i % 4 else "lin", "objsense": "min" if i % 4 or i % 8 else "max",
            "targets": [rng.choice([0.0, 10.0, 9.0, 1.0, 5.0]) for _ in range(n)],
            "costs": [rng.choice([1.0, -1.0, 2.0, -2.0]) for _ in range(n)],
            "obj_param": rng.choice([None, 0, n - 1]), "extra": rng.choice([None, None, [">=", 0.5], ["<=", 18.0]]),
            "extra_first": bool(rng.randint(0, 1)), "c": 0.0, "infeasible_too": i % 5 == 0}
    if data["N"] > n:      # a long accumulation (the iterative builders): small weights keep the sum O(10)
        data["w"] = [rng.choice([0.01, 0.02]) for _ in range(n)]
    k = n if pos == "vcoef?E2" else 1
    for _ in range(30):
        pv, qv = [rng.choice(PARAM_VALUES) for _ in range(k)], rng.choice(PARAM_VALUES)
        if not _param_conditioned(data, pv, qv):
            continue
        # the constant of the positions that have one: the constraint passes through a point of the box at the start
        xr = [max(rng.choice([2.0, 4.0, 5.0, 7.0]), lb) for lb in data["lbs"]]
        data["c"] = round(_param_lhs_rhs(data, pv, qv, xr)[0], 2)
        if _param_feasible_by_hand(data, pv, qv):
            data["p0"], data["q0"] = pv, qv
            break
    else:
        return None
    methods = ["auto", "SLSQP", "SLSQP", "trust-constr", "auto", "SLSQP"] + (["linprog", "highs"] if data["obj"] == "lin" else ["COBYLA"])
    pv, qv = list(data["p0"]), data["q0"]      # the values of the current model, mirrored for the conditioning guard
    behind = []
    ops = [["solve", rng.choice(methods)]]
    for _ in range(rng.randint(2, 4)):
        r = rng.random()
        if r < 0.12:
            ops.append(["reuse"])
        elif r < 0.22:
            ops.append(["fresh"])
            behind.append((list(pv), qv))
        elif r < 0.3:
            ops.append(["switch"])
            if behind:
                behind.append((list(pv), qv))
                pv, qv = behind.pop(0)
        elif r < 0.4:
            ops.append(["read", rng.choice([0.0, 1.0, 5.0, 10.0])])
        for _ in range(6):
            if pos == "vcoef?E2" and rng.random() < 0.6:
                npv, nqv = [rng.choice(PARAM_VALUES) for _ in range(n)], qv
                op = ["vset", npv]
            elif rng.random() < 0.7:
                npv, nqv = [rng.choice(PARAM_VALUES)] + list(pv[1:]), qv
                op = ["set", "p", npv[0]]
            else:
                npv, nqv = list(pv), rng.choice(PARAM_VALUES)
                op = ["set", "q", nqv]
            if _param_conditioned(data, npv, nqv) and (data["infeasible_too"] or _param_feasible_by_hand(data, npv, nqv)):
                pv, qv = npv, nqv
                ops.append(op)
                break
        ops.append(["solve", rng.choice(methods)])
    data["ops"] = ops
    return data


def run_parameter_histories(rep, rng, thorough, n=None):
    """variable-free compound sub-expressions over Parameters (checklist 4) at every position of a solved constraint
    and objective × solve / Parameter.set / re-solve histories (checklist 10)"""
    for i in range(n if n is not None else 360 if thorough else 48):
        data = param_history_data(rng, i)
        if data is None:
            rep.skipped["params:no-conditioned-values"] = rep.skipped.get("params:no-conditioned-values", 0) + 1
            continue
        try:
            bad, k, k_opt = param_history(data)
        except RecursionError:
            rep.histogram["params:unbuildable:RecursionError"] = rep.histogram.get("params:unbuildable:RecursionError", 0) + 1
            continue
        rep.evaluations += k
        rep.histogram["params-history-solves"] = rep.histogram.get("params-history-solves", 0) + k
        rep.histogram["params-history-optimal"] = rep.histogram.get("params-history-optimal", 0) + k_opt
        if k_opt:
            rep.nontrivial.add(hash(("params", str(data))))
        if bad is not None:
            bad.update({"kind_of_case": "params", "data": data})
            rep.oracle_failures.append(bad)


# ----------------------------------------------------------------------------- entry points


def lp_stub_rows():
    """(shape spec, method, lres) for the LP glue: success × status code × x / fun present"""
    spec = {"vars": [["x", 0.0, None, "continuous"], ["y", 0.0, 3.0, "continuous"]], "sense": "min",
            "obj": [[2, [[0, 1]]], [3, [[1, 1]]], [5, []]],
            "cons": [[[[1, [[0, 1]]], [1, [[1, 1]]]], ">=", 1.0], [[[1, [[0, 1]]], [-1, [[1, 1]]]], "==", 0.5]]}
    specs = [spec, dict(spec, sense="max"), dict(spec, obj=[[1, [[0, 1]]], [-1.5, [[1, 1]]]])]
    rows = []
    for sp in specs:
        for method in (None, "highs", "highs-ds", "highs-ipm"):
            for success in (True, False):
                for status in (0, 1, 2, 3, 4, 7):
                    for x in ([0.75, 0.25], [1.0, 5.0], None, [1.0], [0.5, 0.0, 9.0]):
                        for fun in (4.5, None):
                            rows.append((sp, method, LRes(success, status, x, fun, None if status == 4 else 2 + status)))
    return rows


def run_lp_stub_table(rep, want_metas=True):
    lines, metas = [], []
    probs = {}
    for i, (sp, method, lr) in enumerate(lp_stub_rows()):
        kind = "solve-lp" if (i % 2 or method is None) else "solve"
        key = (id(sp), i % 2)
        if key not in probs or i % 53 == 0:
            probs[key] = build_problem(sp)[0]
        P = probs[key]
        m = method if kind == "solve-lp" else method
        if kind == "solve" and m is None:
            m = "linprog"
        lines.append(model_line(kind, P, m, False, True, None, DUMMY_RES, DUMMY_RES, lr, None))
        text, info = observe(P, kind, m, False, True, None, DUMMY_RES, DUMMY_RES, lr)
        metas.append(({"spec": sp, "kind": kind, "method": m, "lres": lr.js()}, P, text, info))
    outs = run_lean_unit(lines)
    rep.evaluations += len(lines)
    for (meta, P, text, info), model in zip(metas, outs):
        k = "lpstub:" + (text.split(" ")[1] if text.startswith("sol") else text.split(" ")[0])
        rep.histogram[k] = rep.histogram.get(k, 0) + 1
        if text != model:
            rep.corr_mismatches.append({"case": meta, "impl": text[:600], "model": model[:600]})
        if text.startswith("sol"):
            rep.nontrivial.add(hash(("lp", str(meta["lres"]), meta["method"], meta["kind"], meta["spec"]["sense"])))
    return metas


def check_consts(rep):
    out = run_lean_unit(["consts", "violation <= 3/2", "violation <= -3/2", "violation >= 3/2", "violation >= -1/4",
                         "violation == -1/4", "violation == 0"])
    rep.evaluations += len(out)
    if not out[0].startswith(f"tol6={rat(1e-6)} "):
        rep.corr_mismatches.append({"case": "the double 1e-6", "impl": rat(1e-6), "model": out[0][:120]})
    from optyx import Variable

    x = Variable("x")
    want = []
    for c, v in ((x <= 0, 1.5), (x <= 0, -1.5), (x >= 0, 1.5), (x >= 0, -0.25), (x.eq(0), -0.25), (x.eq(0), 0.0)):
        want.append(rat(float(c.violation({"x": v}))))
    if out[1:] != want:
        rep.corr_mismatches.append({"case": "Constraint.violation", "impl": want, "model": out[1:]})


def run(ctx) -> core.Report:
    rng = ctx["rng"]
    thorough = ctx["tier"] == "thorough" or ctx["escalate"]
    rep = core.Report(rule="exhaustive stub-result table (shape × method × tol × point class × success × message "
                           "class, retry record exhaustive where the retry is possible) through the real "
                           "solve / solve_scipy vs the Lean model, LP stub table (success × status × x/fun present), "
                           "+ real solves of generated feasible / infeasible problems (scalar polynomial specs, container-level and "
                           "ELEMENT-WISE vector / matrix constraints judged by NumPy on the user's arrays); non-trivial = distinct rows "
                           "ending OPTIMAL / INFEASIBLE / in a retry, and real solves ending OPTIMAL")
    check_consts(rep)
    metas = run_stub_table(rep, rng, thorough)
    stub_oracle(rep, metas)
    lp_metas = run_lp_stub_table(rep)
    for meta, P, text, info in lp_metas:
        sol = info.get("solution")
        if sol is not None and sol.status.name == "OPTIMAL" and not meta["lres"][0]:
            rep.oracle_failures.append({"what": "LP status OPTIMAL although linprog did not report success",
                                        "kind_of_case": "lpstub", "case": meta})
    rep.exhaustive = True
    run_degenerate_rows(rep, thorough)
    run_operator_alphabet(rep, rng, thorough)
    run_magnitudes_types(rep, rng, thorough)
    run_container_constraints(rep, rng, thorough)
    run_elementwise_constraints(rep, rng, thorough)
    run_overlapping_terms(rep, rng, thorough)
    run_deep_nlp(rep, rng, thorough)
    run_feasibility_histories(rep, rng, thorough)
    run_parameter_histories(rep, rng, thorough)
    run_real_solves(rep, rng, 700 if thorough else 90, check_feasible)
    return rep


def search(ctx, rep):
    """widened search on the real code: many more real solves + the full stub table judged by the
    feasibility oracle only"""
    rng = core.Rng(ctx["seed"] + 104729)
    r2 = core.Report()
    # first: the mismatching stub rows themselves with the REAL solvers (same shape, same method, every start kind)
    seen = set()
    for m in rep.corr_mismatches:
        c = m.get("case", {})
        key = (c.get("shape"), c.get("method"))
        if key in seen or key[0] not in SHAPES or key[1] is None:
            continue
        seen.add(key)
        spec = SHAPES[key[0]]["spec"]
        for x0 in [None] + STARTS.get(key[0], []):
            for method in (key[1], "auto"):
                P = build_problem(spec)[0]
                with warnings.catch_warnings(), np.errstate(all="ignore"):
                    warnings.simplefilter("ignore")
                    try:
                        sol = P.solve(method=method, **({} if x0 is None else {"x0": np.array(x0, dtype=float)}))
                    except Exception:  # noqa: BLE001
                        continue
                if sol.status.name == "OPTIMAL":
                    bad = feasibility_report(P, sol.values, None, slack=1e-7)
                    if bad is not None:
                        bad.update({"kind_of_case": "real", "spec": spec, "method": method})
                        return bad
        if len(seen) >= 12:
            break
    run_parameter_histories(r2, rng, False, n=120)   # cheap (small models): before the big tables
    if r2.oracle_failures:
        return r2.oracle_failures[0]
    metas = run_stub_table(r2, rng, True)
    stub_oracle(r2, metas)
    if r2.oracle_failures:
        return r2.oracle_failures[0]
    run_degenerate_rows(r2, True)
    if r2.oracle_failures:
        return r2.oracle_failures[0]
    run_overlapping_terms(r2, rng, False)
    if r2.oracle_failures:
        return r2.oracle_failures[0]
    run_elementwise_constraints(r2, rng, False)
    if r2.oracle_failures:
        return r2.oracle_failures[0]
    run_deep_nlp(r2, rng, False)
    if r2.oracle_failures:
        return r2.oracle_failures[0]
    run_operator_alphabet(r2, rng, False)
    if r2.oracle_failures:
        return r2.oracle_failures[0]
    run_real_solves(r2, rng, 350, check_feasible)   # bounded: the whole search stays under ~2 min
    return r2.oracle_failures[0] if r2.oracle_failures else None


def replay(payload) -> bool:
    f = payload["failure"]
    if f.get("kind_of_case") == "real":
        P, sol = real_solve(f["spec"], f["method"])
        print("status:", getattr(sol, "status", sol), "values:", getattr(sol, "values", None))
        if isinstance(sol, Exception) or sol.status.name != "OPTIMAL":
            return True
        bad = check_feasible(f["spec"], f["method"], P, sol)
        print("feasibility:", bad)
        return bad is None
    if f.get("kind_of_case") == "stub":
        c = f["case"]
        P = build_problem(SHAPES[c["shape"]]["spec"])[0]
        r1, r2 = Res(*c["r1"]), Res(*c["r2"])
        text, info = observe(P, c["kind"], c["method"], False, c["use_hessian"], c["tol"], r1, r2, DUMMY_LRES,
                             x0=c.get("x0"))
        print(text)
        sol = info.get("solution")
        if sol is None or sol.status.name != "OPTIMAL":
            return True
        bad = feasibility_report(P, sol.values, c["tol"])
        print("feasibility:", bad)
        return bad is None
    if f.get("kind_of_case") == "params":
        bad, k, k_opt = param_history(f["data"])
        print("solves:", k, "optimal:", k_opt, bad)
        return bad is None
    if f.get("kind_of_case") in ("magnitude", "container", "fhistory", "overlap", "deep", "elementwise"):
        fn = {"magnitude": magnitude_case, "container": container_check, "fhistory": feasibility_history,
              "overlap": overlap_check, "deep": deep_check, "elementwise": elementwise_check}[f["kind_of_case"]]
        bad, status = fn(f["data"])
        print(status, bad)
        return bad is None
    if f.get("kind_of_case") == "alphabet":
        bad, status = alphabet_check(f["case"])
        print("status:", status, "feasibility:", bad)
        return bad is None
    if f.get("kind_of_case") == "degenerate":
        bad, status = degenerate_check(f["case"])
        print("status:", status, "feasibility:", bad)
        return bad is None
    if f.get("kind_of_case") == "lpstub":
        c = f["case"]
        P = build_problem(c["spec"])[0]
        text, info = observe(P, c["kind"], c["method"], False, True, None, DUMMY_RES, DUMMY_RES, LRes(*c["lres"]))
        print(text)
        sol = info.get("solution")
        return not (sol is not None and sol.status.name == "OPTIMAL" and not c["lres"][0])
    print("unknown replay payload")
    return True
