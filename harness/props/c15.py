"""C15 — results do not depend on the depth or association of the expression tree.

One formula (a term list t_1..t_n and an operator) is built as a term-by-term accumulation
(left-deep), as a balanced tree, vectorised (`VectorExpression(terms).sum()`, for + and -) and, for
small n, right-deep; every observable must agree between the builds and between the switch
thresholds {0 = always explicit-stack, default 400, 10**9 = always recursive (n ≤ 401 only)}:
variable sets (exactly), degree (exactly), symbolic gradient (structurally on one tree across
thresholds, numerically across builds, against dual numbers), compiled closure (exact IR and
exactly equal floats across thresholds), compiled value / evaluate (tolerance across builds,
against the reference interpreter), solve results.  Base terms: every unary function, every
vector / matrix node, parameters.  No RecursionError may escape for the accumulations.

History dimension: the accumulation is also built while `.degree` / `.is_linear()` is read on the base
terms and on intermediate prefixes (the `_degree` slot caches, "non-polynomial" stored as -1) and, for
solve, after the base term was used in an earlier question; degree / is_linear / LP-vs-NLP route /
solve result must equal those of a fresh never-queried build and of the balanced / vectorised builds.

Wrapper dimension: a sum S = Σ tᵢ that also exists as ONE vector / matrix node (x·x, x·y, c@x, x.sum(),
(x**k).sum(), f(x).sum(), xᵀQx, ‖x‖₁, X.sum(), (a·x−y).sum()) is built as node, left-deep, balanced,
vectorised and accumulated-from-the-constant, and wrapped: K−S, S−K, K+S, −S, k·S, S/k, (K−S)−K2,
k·(K−S), K−k·S, S₁−S₂ …; every channel is observed for every build — evaluate, compiled value,
gradient(), compile_gradient, compile_jacobian([e],V), degree / is_linear, get_all_variables, and a
solve with the formula as objective (min or max, whichever is convex) and as constraint — and
compared with the exact reference (ref_eval / dual numbers) and between builds.

LP-route dimension: deep *linear* accumulations (left-deep, right-deep, with wrappers; sums, differences,
scaled / divided / negated / constant-carrying terms) of n ∈ {399 … 900} terms drive every walker of the
linear route — is_linear / degree / is_quadratic, extract_linear_coefficient, extract_constant_term,
extract_all_linear_coefficients (several index maps), LinearProgramExtractor (objective and constraint rows),
is_simple_bound, classify_constraints, Problem.variables — and are solved as LP objective (min and max) and as LP
constraint with methods auto / linprog / highs / highs-ds / highs-ipm: nothing may raise, the interpreter's
recursion limit must be what it was, coefficients must equal the ones the harness accumulated itself and
optima must equal SciPy's linprog on that independent data.

Label dimension (checklist 30 × depth): the terms are vector / matrix nodes (c@v, v.sum(), v·v, v·w, ‖v‖₂, ‖v‖₁, Σvᵏ, Σf(v),
vᵀQv, B.sum(), ‖B‖_F) on DISTINCT VIEWS WITH EQUAL `.name` — part-views of one matrix row / column (X[i,:2], X[i,2:]: both
'X[i,:]'), same-range slices with different steps / reversed (x[::2], x[::3], x[::-1]: all 'x[0:n]'), tails ('x[a:n]' with the
stop omitted / = n / = 0 backwards), slices of slices, a vector constructed under the name of a view, strided blocks — built
left-deep / balanced / vectorised / zigzag / right-deep, below the switch with lowered thresholds and above it (n ≥ 401), wrapped
(k·, /k, K−, −, +K).  Every consumer is judged against the harness's own bookkeeping over the element names: get_all_variables,
Problem.variables / n_variables (formula as objective and as constraint), evaluate / compiled value (also compiled for
Problem.variables: what the NLP route does), compile_jacobian / compile_gradient / gradient() against hand-written NumPy partials,
degree / is_linear, LP solves (optimum over the box = sum of the negative coefficients, vertex values, exactly the element names as
solution.values keys, as constraint against SciPy's linprog on the hand-computed row) and NLP solves of the separable quadratic
Σ v·v − 2c@v (minimiser sⱼ/mⱼ by hand).

Heterogeneous-elements dimension (family `hetero`): the vectorised build of a GENERAL term list — `VectorExpression([t_1..t_n])`
built by hand, reduced by .sum() / c @ · / ·.dot(·) / ‖·‖₂ / ‖·‖₁ — whose elements differ in operator (x0 + c0, x1 − c1, x2 · c2,
x3 / c3), operand position (c − x, c / x) and shape (variable, constant, unary function, power, nested, x ∘ y, x ∘ parameter, typed
constants), along element-list profiles (one odd element first / last / somewhere, two runs, equal ends, cycling / random operators,
equal constants, mixed shapes, unary / power mixes; distinct or few shared variables).  The formula is kept as a recipe and written
once over optyx objects and once over the harness's own forward-mode numbers (plain float / NumPy): vector node vs left-deep vs
balanced (vs the flattened list as ONE chain / ONE VectorExpression) — standalone, wrapped, and as node(s) inside deep (≥ 400)
chains (top, bottom, middle, right of a subtraction, several blocks); thresholds default / 0 / 3; evaluate, compile_expression,
compile_to_dict_function, CompiledExpression, gradient(), compile_gradient, compile_jacobian, get_all_variables, and solve objectives
over a box with the optimum computed by hand.

Tie to the Lean model (n ≤ 900): variables at both thresholds, gradient with the switch at both
thresholds (structural), the three depth estimates, compiled IR + which builder ran.
"""
from __future__ import annotations

import math
import sys
import time
import warnings

import numpy as np

import core
import gen
import oracle
from ser import Ids, Ser, Unsupported, ser, deser
from props import c01 as K

LEAN_MODULE = "Optyx.Props.C15"
EXTRA_MODULES = ["Optyx.Props.PinsC15", "Optyx.Props.BuildTie", "Optyx.Props.GradIterTie", "Optyx.Props.SpineTie", "Optyx.Props.VarsIterTie", "Optyx.Props.CompileEntryTie"]   # transcription anchors (harness/source_pins.py)
THEOREMS = [
    "Optyx.Props.C15.gradIter_eq",
    "Optyx.Props.C15.gradIter_tree",
    "Optyx.Props.C15.gradient_threshold_irrelevant",
    "Optyx.Props.C15.varsIter_eq",
    "Optyx.Props.C15.getAllVariables_threshold_irrelevant",
    "Optyx.Props.C15.compile_threshold_irrelevant",
    "Optyx.Props.C01.compileIter_eq",
    "Optyx.Props.C15.depthE_eq",
    "Optyx.Props.C15.denote_assoc_add",
    "Optyx.Props.C15.denote_assoc_mul",
    "Optyx.Props.C15.denote_leftDeep_add_eq_vectorised",
    "Optyx.Props.C15.denote_leftDeep_sub_div",
    "Optyx.Props.C15.leftDeep_depth",
    "Optyx.Props.BuildTie.compile_step",
    "Optyx.Props.BuildTie.compileVec_step",
    "Optyx.Props.BuildTie.cstep_eq",
    "Optyx.Props.BuildTie.elemsIter_eq",
    "Optyx.Props.BuildTie.buildIterFrame_text",
    "Optyx.Props.GradIterTie.gstep_bin",
    "Optyx.Props.GradIterTie.gstep_un",
    "Optyx.Props.GradIterTie.gstep_seen",
    "Optyx.Props.GradIterTie.gradIterOrder_text",
    "Optyx.Props.GradIterTie.gradIterFrame_text",
    "Optyx.Props.SpineTie.depthC_step",
    "Optyx.Props.SpineTie.depthE_step",
    "Optyx.Props.SpineTie.spineBU_step",
    "Optyx.Props.SpineTie.depthG_eq",
    "Optyx.Props.SpineTie.compileSwitch_eq",
    "Optyx.Props.SpineTie.getAllVariables_eq",
    "Optyx.Props.VarsIterTie.atomVars_eq",
    "Optyx.Props.VarsIterTie.vstep_seen",
    "Optyx.Props.VarsIterTie.vstep_fresh",
    "Optyx.Props.VarsIterTie.varsIter_frame",
    "Optyx.Props.CompileEntryTie.compileExpression_eq",
    "Optyx.Props.CompileEntryTie.dictFn_eq",
    "Optyx.Props.CompileEntryTie.param_run",
    "Optyx.Props.CompileEntryTie.compiledExpression_value",
    "Optyx.Props.PinsC15.anchors",
]
ASSUMPTIONS = [
    "PARTIAL: 'no RecursionError within the supported depth' is about CPython's stack (1000 frames): measured at "
    "n ∈ {399,400,401,900} (values) and up to 20000 (variables, degree, gradient), not proved",
    "right-deep ACCUMULATIONS (t ∘ (t ∘ (t ∘ …))) deeper than the recursion limit are outside the property ('accumulated term "
    "by term'): the left-spine estimates do not see them; a left-deep accumulation under a short wrapper (K − acc, K / acc, "
    "k·(K − acc)) is inside it (family deep-wrapped; F36 / F36b were found there and fixed in /repo)",
    "the `except RecursionError` fall-backs of gradient() and get_all_variables() are about CPython's stack and not modelled: "
    "both arms compute the same result (gradIter_eq, varsIter theorems), so the model's switch describes either",
    "the explicit-stack variable traversal is proved on trees (every position its own object); the gradient "
    "traversal on every DAG with consistent identities",
    "re-association of the meaning is proved over ℝ; in doubles the builds differ by rounding (tested tolerance "
    "relative to Σ|tᵢ|)",
    "degree traversal refinement (`degreeIter_eq`) belongs to C04; here degrees are only compared across builds",
]

BIG = 10 ** 9


def run_lean_unit(lines, jobs=8):
    """the lines are few but large (deep trees): shard them over `jobs` driver processes"""
    from concurrent.futures import ThreadPoolExecutor

    if len(lines) < 2 * jobs:
        return core.run_lean(lines)
    order = sorted(range(len(lines)), key=lambda i: -len(lines[i]))
    shards = [order[j::jobs] for j in range(jobs)]
    with ThreadPoolExecutor(jobs) as ex:
        res = list(ex.map(lambda sh: core.run_lean([lines[i] for i in sh]), shards))
    out = [None] * len(lines)
    for sh, r in zip(shards, res):
        for i, o in zip(sh, r):
            out[i] = o
    return out


# ----------------------------------------------------------------------------- thresholds


class Thresholds:
    """force the four `_RECURSION_THRESHOLD` copies from outside and reset the caches"""

    def __init__(self, thr):
        self.thr = thr

    def __enter__(self):
        import optyx.analysis as A
        import optyx.core.autodiff as AD
        import optyx.core.compiler as C
        import optyx.core.expressions as E

        self.mods = [A, AD, C, E]
        self.old = [m._RECURSION_THRESHOLD for m in self.mods]
        if self.thr is not None:
            for m in self.mods:
                m._RECURSION_THRESHOLD = self.thr
        clear_caches()
        return self

    def __exit__(self, *a):
        for m, o in zip(self.mods, self.old):
            m._RECURSION_THRESHOLD = o
        clear_caches()


def clear_caches():
    import optyx.analysis as A
    import optyx.core.autodiff as AD
    import optyx.core.compiler as C

    C._compile_cached.cache_clear()
    AD._gradient_cached.cache_clear()
    A.clear_degree_cache()


# ----------------------------------------------------------------------------- formulas


def families(U, rng):
    """name -> term(i) = (expression, names of its variables); magnitudes stay O(1)"""
    from optyx.core.expressions import Constant
    from optyx.core import vectors as V
    from optyx.core import matrices as M

    pool = U.scalars + list(U.x)
    k = len(pool)
    n = U.n
    cs = np.array([0.5, -0.25, 0.125][:n] + [0.25] * max(0, n - 3))
    Q = np.array([[0.125 * ((i + 1) * (j + 1) % 3 - 1) + (0.25 if i == j else 0.0) for j in range(n)] for i in range(n)])
    xs, ys = [v.name for v in U.x], [v.name for v in U.y]
    ms = [v.name for row in U.M._variables for v in row]
    ss = sorted({v.name for row in U.S._variables for v in row})
    p = U.params[0]

    def var(i):
        return pool[i % k], {pool[i % k].name}

    fams = {
        "var": var,
        "lin": lambda i: (pool[i % k] * 0.5 + 0.25, {pool[i % k].name}),
        "sq": lambda i: (pool[i % k] * pool[(i + 1) % k], {pool[i % k].name, pool[(i + 1) % k].name}),
        "pow": lambda i: ((pool[i % k] * pool[i % k] + 1.0) ** Constant([2.0, 0.5, -1.0, 3.0][i % 4]), {pool[i % k].name}),
        "param": lambda i: (p * pool[i % k], {pool[i % k].name}),
        "const": lambda i: (Constant(0.125 * (i % 5)), set()),
    }
    for op in gen.UNARY:
        fams["un:" + op] = (lambda op: lambda i: (gen.safe_unary(rng, op, pool[i % k] * 0.5), {pool[i % k].name}))(op)
    vec = {
        "dot": lambda: (V.DotProduct(U.x, U.y), set(xs + ys)),
        "dotself": lambda: (V.DotProduct(U.x, U.x), set(xs)),
        "l2": lambda: (V.L2Norm(U.x + 1.0), set(xs)),
        "l1": lambda: (V.L1Norm(U.y), set(ys)),
        "lc": lambda: (V.LinearCombination(cs, U.x), set(xs)),
        "lc-expr": lambda: (V.LinearCombination(cs, U.x - U.y), set(xs + ys)),
        "qf": lambda: (M.QuadraticForm(U.x, Q), set(xs)),
        "vs": lambda: (V.VectorSum(U.y), set(ys)),
        "es": lambda: ((U.x * 0.5 - U.y).sum(), set(xs + ys)),
        "ps": lambda: (V.VectorPowerSum(U.x, 2), set(xs)),
        "ps3": lambda: (V.VectorPowerSum(U.y, 3.0), set(ys)),
        "us:sin": lambda: (V.VectorUnarySum(U.x, "sin"), set(xs)),
        "us:exp": lambda: (V.VectorUnarySum(U.y, "tanh"), set(ys)),
        "msv": lambda: (M.MatrixSum(U.M), set(ms)),
        "mss": lambda: (M.MatrixSum(U.S), set(ss)),
        "mse": lambda: ((U.M * U.M).sum(), set(ms)),
        "fro": lambda: (M.FrobeniusNorm(U.M), set(ms)),
    }
    # vector / matrix nodes over views, rows, columns, diagonals, strided and reversed operands (checklist 5)
    def nm(vv):
        return {v.name for v in vv._variables}

    m2 = min(n, 2)
    Q2 = np.array([[0.25, 0.125], [-0.125, 0.5]])
    rev, strided, sl2 = U.x[::-1], U.w[0:2 * n:2][0:n], U.w[1:n + 2][::2]
    row, col, diag, srow, scol = U.M[0, :], U.M[:, 1], U.S.diagonal(), U.S[0, :], U.S[:, 1]
    vec.update({
        "view:dot-rev": lambda: (V.DotProduct(rev, U.y), nm(rev) | set(ys)),
        "view:lc-strided": lambda: (V.LinearCombination(cs[:strided.size], strided), nm(strided)),
        "view:ps-slice-of-slice": lambda: (V.VectorPowerSum(sl2, 2), nm(sl2)),
        "view:vs-row": lambda: (V.VectorSum(row), nm(row)),
        "view:qf-col": lambda: (M.QuadraticForm(col, Q2), nm(col)),
        "view:l1-diag": lambda: (V.L1Norm(diag), nm(diag)),
        "view:dot-symrow-symcol": lambda: (V.DotProduct(srow, scol), nm(srow) | nm(scol)),
        "view:us-symrow": lambda: (V.VectorUnarySum(srow, "cos"), nm(srow)),
        "view:fro-sym": lambda: (M.FrobeniusNorm(U.S), set(ss)),
        "view:msv-T": lambda: (M.MatrixSum(U.M.T), set(ms)),
        "view:mse-sym": lambda: ((U.S * U.S.T - 0.5).sum(), set(ss)),
        "view:len1": lambda: (V.VectorSum(U.x[1:2]) + V.L2Norm(U.y[0:1] + 1.0), {U.x[1].name, U.y[0].name}),
        "view:matvec-nonlin": lambda: (V.DotProduct(U.x, M.MatrixVectorProduct(Q, V.VectorExpression([gen.unary("tanh", v) for v in U.x]))), set(xs)),
    })
    for name, mk in vec.items():
        # the vector node alternates with a scalar term so that the chain has several distinct terms
        fams["vec:" + name] = (lambda mk: lambda i: mk() if i % 2 == 0 else var(i))(mk)
    # ---- audit families (checklist 1, 2, 3, 4, 7, 9, 14)
    from optyx import Variable

    typed = [3, 3.0, np.int64(3), np.float32(0.5), np.uint8(2), np.int8(-2), True, np.array(2.0), np.float16(0.25), np.int32(-1)]
    typed_k = [2, 2.0, np.int64(2), np.float32(2), np.uint8(2), True, np.array(3), 3]
    tiny = [1e-12, -1e-9, 4e-9, 1e-8 * (1 + 2 ** -20), -1e-8 * (1 - 2 ** -20), 1e-7, 7.5e-9]
    huge = [1e8, -1e16, 3e16, 1e17]
    p2 = U.params[1]
    shared_terms = [gen.unary("sin", pool[0]) * pool[1 % k] + 1.0, pool[2 % k] * 0.5 - pool[0], V.DotProduct(U.x, U.y)]
    shared_names = [{pool[0].name, pool[1 % k].name}, {pool[2 % k].name, pool[0].name}, set(xs + ys)]
    two = Constant(1.0) + Constant(1.0)

    def constsub(i):
        v, w = pool[i % k], pool[(i + 1) % k]
        forms = [gen.unary("sin", Constant(2.0)) * v, v * two, v + gen.unary("cos", Constant(0.5)), (v * v + 1.0) ** two,
                 v / (Constant(2.0) * Constant(4.0)), 0.0 * v + w, v ** 0 + w, p * v / (p * p + 1.0), two * Constant(0.25)]
        j = i % len(forms)
        return forms[j], ({v.name, w.name} if j in (5, 6) else (set() if j == 8 else {v.name}))

    def refl(i):
        v = pool[i % k]
        forms = [2.5 - v, 2.5 / (v * v + 1.0), 2.0 ** (v * 0.25), -v, 0.5 + v, 3.0 * v, -(1.5 - v), (v - 1.0) / -2.0]
        return forms[i % len(forms)], {v.name}

    fams.update({
        "aud:typed": lambda i: (pool[i % k] * typed[i % len(typed)] + Constant(typed[(i + 3) % len(typed)]), {pool[i % k].name}),
        "aud:typed-pow": lambda i: ((pool[i % k] + 1.5) ** typed_k[i % len(typed_k)], {pool[i % k].name}),
        "aud:tiny": lambda i: (Constant(tiny[i % len(tiny)]) * pool[i % k], {pool[i % k].name}),
        "aud:huge": lambda i: (Constant(huge[i % len(huge)]) * pool[i % k] + pool[(i + 1) % k], {pool[i % k].name, pool[(i + 1) % k].name}),
        "aud:mixedmag": lambda i: (Constant((tiny + huge + [1.0, -2.0])[i % 13]) * pool[i % k] * pool[i % k], {pool[i % k].name}),
        "aud:tiny-lc": lambda i: (V.LinearCombination(np.array((tiny + [1.0])[:n]) if i % 2 else np.array(tiny[-n:]), U.x), set(xs)),
        "aud:constsub": constsub,
        "aud:refl": refl,
        "aud:clone": lambda i: (Variable(pool[i % k].name) * 0.5 + Variable(pool[(i + 1) % k].name), {pool[i % k].name, pool[(i + 1) % k].name}),
        "aud:shared": lambda i: (shared_terms[i % 3], shared_names[i % 3]),
        "aud:param-vec": lambda i: ((p * V.DotProduct(U.x, U.y), set(xs + ys)) if i % 2 == 0 else (p2 * V.VectorSum(U.y) - p, set(ys))),
    })
    return fams, pool


def term_for(op, t):
    """the i-th operand of the accumulation: a summand for + -, a factor close to 1 for * /"""
    return t if op in "+-" else t * 0.0009765625 + 1.0


def apply(op, a, b):
    return {"+": lambda: a + b, "-": lambda: a - b, "*": lambda: a * b, "/": lambda: a / b}[op]()


def build_left(op, ts):
    acc = ts[0]
    for t in ts[1:]:
        acc = apply(op, acc, t)
    return acc


def build_right(op, ts):
    """the same value with the nesting on the right (only for + and *)"""
    acc = ts[-1]
    for t in reversed(ts[:-1]):
        acc = apply(op, t, acc)
    return acc


def balanced(op, ts):
    if len(ts) == 1:
        return ts[0]
    m = len(ts) // 2
    return apply(op, balanced(op, ts[:m]), balanced(op, ts[m:]))


def build_balanced(op, ts):
    if op in "+*":
        return balanced(op, ts)
    if len(ts) == 1:
        return ts[0]
    return apply(op, ts[0], balanced("+" if op == "-" else "*", ts[1:]))


def build_zigzag(op, ts):
    """alternating sides (commutative operators only): the left spine is about half of the depth"""
    acc = ts[0]
    for i, t in enumerate(ts[1:]):
        acc = apply(op, acc, t) if i % 2 == 0 else apply(op, t, acc)
    return acc


def build_vector(op, ts):
    from optyx.core.vectors import VectorExpression

    if op == "+":
        return VectorExpression(ts).sum()
    if op == "-" and len(ts) > 1:
        return ts[0] - VectorExpression(ts[1:]).sum()
    return None


# ----------------------------------------------------------------------------- observations


def guarded(fn):
    """(value, None) | (None, 'RecursionError' | other class)"""
    with warnings.catch_warnings(), np.errstate(all="ignore"):
        warnings.simplefilter("ignore")
        try:
            return fn(), None
        except RecursionError:
            return None, "RecursionError"
        except Exception as ex:  # noqa: BLE001
            return None, type(ex).__name__


def observe(e, wrts, V, pt, values_ok, compile_too=True):
    """all observables of one tree under the current thresholds"""
    import optyx.core.autodiff as AD
    import optyx.core.compiler as C
    from optyx.core.expressions import get_all_variables

    o = {}
    o["vars"] = guarded(lambda: tuple(sorted(v.name for v in get_all_variables(e))))
    e._degree = None
    o["degree"] = guarded(lambda: ("deg", e.degree))
    for w in wrts:
        o["grad:" + w.name] = guarded(lambda: AD.gradient(e, w))
    if values_ok:
        arr = np.array([pt[v.name] for v in V], dtype=float)
        fn, err = guarded(lambda: C.compile_expression(e, V))
        o["compile"] = (fn, err)
        o["value"] = guarded(lambda: K.fl(fn(arr))) if fn is not None else (None, err)
        o["evaluate"] = guarded(lambda: K.fl(e.evaluate(dict(pt))))
    elif compile_too:
        o["compile"] = guarded(lambda: C.compile_expression(e, V))
    return o


def dag_eval(e, pt):
    """reference value of a (possibly heavily shared) expression DAG: post-order with an id-keyed memo
    over the BinaryOp/UnaryOp skeleton (the gradient of an n-factor product is O(n) as a DAG and
    O(n²) as a tree), leaves through oracle.ref_eval, operators as in oracle.ref_eval"""
    from optyx.core.expressions import BinaryOp, UnaryOp

    memo = {}
    stack = [(e, 0)]
    while stack:
        n, ph = stack.pop()
        if id(n) in memo:
            continue
        if isinstance(n, BinaryOp):
            if ph == 0:
                stack.append((n, 1))
                stack.append((n.right, 0))
                stack.append((n.left, 0))
            else:
                l, r = memo[id(n.left)], memo[id(n.right)]
                if n.op == "+": v = l + r
                elif n.op == "-": v = l - r
                elif n.op == "*": v = l * r
                elif n.op == "/":
                    if abs(oracle.prim(r)) <= oracle.MARGIN:
                        raise oracle.NotRegular("division")
                    v = l / r
                elif n.op == "**": v = oracle.d_pow(l, r)
                else: raise oracle.NotRegular("operator " + n.op)
                memo[id(n)] = v
        elif isinstance(n, UnaryOp):
            if ph == 0:
                stack.append((n, 1))
                stack.append((n.operand, 0))
            else:
                memo[id(n)] = oracle.UN[n.op](memo[id(n.operand)])
        else:
            memo[id(n)] = oracle.ref_eval(n, pt)
    res = memo[id(e)]
    if not math.isfinite(oracle.prim(res)):
        raise oracle.NotRegular("non-finite value")
    return res


def struct_digest(e, ids):
    """digest of the *tree* an expression DAG unfolds to (equal digests ⇔ structurally equal trees,
    up to SHA-1 collisions), computed on the DAG"""
    import hashlib
    from optyx.core.expressions import BinaryOp, UnaryOp

    memo = {}
    stack = [(e, 0)]
    while stack:
        n, ph = stack.pop()
        if id(n) in memo:
            continue
        if isinstance(n, BinaryOp):
            if ph == 0:
                stack.append((n, 1)); stack.append((n.right, 0)); stack.append((n.left, 0))
            else:
                memo[id(n)] = hashlib.sha1(b"b" + n.op.encode() + memo[id(n.left)] + memo[id(n.right)]).digest()
        elif isinstance(n, UnaryOp):
            if ph == 0:
                stack.append((n, 1)); stack.append((n.operand, 0))
            else:
                memo[id(n)] = hashlib.sha1(b"u" + n.op.encode() + memo[id(n.operand)]).digest()
        else:
            memo[id(n)] = hashlib.sha1(Ser(ids, with_ids=False).node(n).encode()).digest()
    return memo[id(e)].hex()


def is_literal_zero(g):
    from optyx.core.expressions import Constant

    return isinstance(g, Constant) and isinstance(g.value, (int, float)) and g.value == 0


def grad_value(g, pt):
    try:
        return float(oracle.prim(dag_eval(g, dict(pt))))
    except (oracle.NotRegular, OverflowError, ZeroDivisionError, ValueError, KeyError):
        return None


def ref_value(e, pt):
    try:
        return float(oracle.prim(oracle.ref_eval(e, dict(pt))))
    except (oracle.NotRegular, OverflowError, ZeroDivisionError, ValueError, KeyError):
        return None


def ref_gradient(e, pt, name):
    try:
        g = float(oracle.ref_grad(e, dict(pt), name))
    except (oracle.NotRegular, OverflowError, ZeroDivisionError, ValueError, KeyError):
        return None
    return g if math.isfinite(g) else None


def close(a, b, scale, rtol=1e-9):
    if a is None or b is None:
        return True
    if math.isnan(a) or math.isnan(b):
        return math.isnan(a) and math.isnan(b)
    if math.isinf(a) or math.isinf(b):
        return a == b
    return abs(a - b) <= rtol * (scale + max(abs(a), abs(b))) + 1e-300


def py_depths(e):
    import optyx.core.autodiff as AD
    import optyx.core.compiler as C
    import optyx.core.expressions as E

    return f"{C._estimate_tree_depth(e)} {E._estimate_tree_depth(e)} {AD._estimate_tree_depth(e)}"


# ----------------------------------------------------------------------------- the run


def formulas(rng, thorough):
    """(family, op, n) triples of this run"""
    out = []
    sizes_val = [2, 399, 400, 401, 900]
    U = gen.Universe(rng)
    fams, _ = families(U, rng)
    names = list(fams)
    ops = ["+", "-", "*", "/"]
    # every base-term kind just above the switch (the per-kind branches of the explicit-stack code)
    # (quick tier: a rotating quarter of the kinds at n = 401, the others at n = 48 where the forced
    # thresholds 0 / 10^9 drive the same branches at a tenth of the cost)
    r = rng.randint(0, 3)
    for i, f in enumerate(names):
        for op in (ops if thorough else [ops[(i + rng.randint(0, 3)) % 4]]):
            out.append((f, op, 401 if (thorough or (i % 4 == r and not f.startswith(("aud:", "vec:view:")))) else 48))
    # all operators × all sizes
    core_fams = ["var", "sq", "un:sin", "un:atan", "vec:dot", "vec:ps", "param"]
    for f in (core_fams if thorough else [rng.choice(core_fams)]):
        deep_ops = ops if thorough else rng.sample(ops, 2)  # quick: n = 900 for two of the four operators
        for op in ops:
            for n in sizes_val:
                if n == 900 and op not in deep_ops:
                    continue
                out.append((f, op, n))
    if not thorough:
        for f in rng.sample(core_fams, 3):
            for n in (399, 400):
                out.append((f, rng.choice(ops), n))
    # structure-level observables far beyond the recursion limit
    if thorough:
        for f in ["var", "sq", "un:log", "un:asinh", "vec:fro", "vec:us:sin"]:
            for op in ops:
                for n in (5000, 20000):
                    out.append((f, op, n))
    else:
        out.append((rng.choice(["sq", "var", "un:log2", "vec:msv"]), rng.choice(["+", "-"]), 20000))
        out.append((rng.choice(["sq", "un:acosh", "vec:fro", "param"]), rng.choice(["*", "/"]), 5000))
    # small n: association variants incl. right-deep
    for f in rng.sample(names, 12 if thorough else 6):
        for op in ops:
            out.append((f, op, rng.choice([2, 3, 7, 30])))
    return out


def run(ctx) -> core.Report:
    from optyx import Variable

    rng = ctx["rng"]
    thorough = ctx["tier"] == "thorough" or ctx["escalate"]
    rep = core.Report(rule="formulas (base-term family × operator × n): every unary function / vector node / parameter "
                           "family at n=401, all operators × n ∈ {2,399,400,401,900} on core families, n=20000 (5000) for "
                           "variables/degree/gradient, small n with right-deep; each as left-deep / balanced / vectorised "
                           "build × thresholds {0, default, 10^9 (n ≤ 401)}; non-trivial = distinct (family, op, n, build) "
                           "with n ≥ 2 whose observations were all compared")
    ids = Ids()
    lines, metas = [], []
    t_start = time.time()
    fails = rep.oracle_failures
    todo = formulas(rng, thorough)
    rep.histogram["formulas"] = len(todo)

    for fam, op, n in todo:
        fseed = rng.randint(0, 2 ** 31 - 1)
        U, builds, names, V, extra, pt, wrts = prepare(fam, op, n, fseed)
        key = fam.split(":")[0]
        rep.histogram["family:" + key] = rep.histogram.get("family:" + key, 0) + 1
        rep.histogram[f"n:{n}"] = rep.histogram.get(f"n:{n}", 0) + 1
        values_ok = n <= 900
        scale = term_scale(op, n, pt)  # Σ|tᵢ| for the cancellation-aware tolerance (no absolute floor)
        base = {"family": fam, "op": op, "n": n, "seed": fseed}

        def fail(what, **kw):
            f = dict(base, what=what, **kw)
            f["seed"] = fseed
            fails.append(f)

        obs = {}
        settings = [("default", None), ("iter", 0)] + ([("rec", BIG)] if n <= 401 else [])
        if n > 900:
            wrts = wrts[:1]  # one differentiation variable on the very deep formulas (cost)
        for bname, e in builds.items():
            for sname, thr in settings:
                if bname != "left" and sname == "rec" and n > 30:
                    continue
                if n > 900 and bname != "left" and sname != "default":
                    continue
                with Thresholds(thr):
                    obs[(bname, sname)] = observe(e, wrts, V, pt, values_ok, compile_too=(n <= 900 or bname == "left"))
        # ---- no exception may escape (RecursionError in particular)
        for (bname, sname), o in obs.items():
            if bname == "right":
                continue
            for k2, (val, err) in o.items():
                if err is not None and not (sname == "rec" and err == "RecursionError" and bname != "left"):
                    if err in ("ZeroDivisionError", "OverflowError", "FloatingPointError") and k2 in ("value", "evaluate"):
                        continue  # a point outside the domain, not a depth problem
                    fail(f"{k2} raised {err} on the {bname} build (threshold setting {sname})", build=bname,
                         setting=sname, observable=k2)
        ref_v = ref_value(builds["balanced"], pt) if values_ok else None
        want_grad = {w.name: ref_gradient(builds["balanced"], pt, w.name) for w in wrts if w.name in names}
        want_vars = tuple(sorted(names))
        ref_o = obs[("left", "default")]
        for (bname, sname), o in obs.items():
            tag = f"{bname}/{sname}"
            # variables: exactly the variables of the terms
            if o["vars"][0] is not None and o["vars"][0] != want_vars:
                fail(f"variable set differs on {tag}", got=o["vars"][0][:12], want=want_vars[:12], build=bname, setting=sname)
            # degree: equal across builds and thresholds.  Known finding F26b: VectorExpressionSum / MatrixSum have
            # no degree case (None), so the vectorised build is compared with itself across thresholds only
            # (the fixed probe below reports the finding once)
            dref = obs[("vector", "default")] if bname == "vector" else ref_o
            if o["degree"][0] is not None and dref["degree"][0] is not None and o["degree"][0] != dref["degree"][0]:
                fail(f"degree differs on {tag}", got=o["degree"][0][1], want=dref["degree"][0][1], build=bname, setting=sname)
            # values
            if values_ok and ref_v is not None:
                for k2 in ("value", "evaluate"):
                    v = o[k2][0]
                    if v is not None and not close(v, ref_v, scale):
                        fail(f"{k2} differs from the reference on {tag}", got=v, want=ref_v, build=bname, setting=sname,
                             point=pt)
            # gradients: numerically against dual numbers (every build, every depth)
            for w in wrts:
                g = o["grad:" + w.name][0]
                if g is None:
                    continue
                want = want_grad.get(w.name)
                gv = grad_value(g, pt) if want is not None else None
                if w.name not in names:
                    if not is_literal_zero(g):
                        fail(f"gradient w.r.t. an absent variable is not the literal 0 on {tag}", got=repr(g)[:200], wrt=w.name)
                elif gv is not None and want is not None and not close(gv, want, scale, rtol=1e-7):
                    fail(f"gradient value differs from the true derivative on {tag}", got=gv, want=want, wrt=w.name,
                         build=bname, setting=sname, point=pt)
        # ---- one tree, different thresholds: structurally identical gradient, identical closure, equal floats
        for bname, e in builds.items():
            per = {s: obs[(bname, s)] for s, _ in settings if (bname, s) in obs}
            sers = {}
            for s, o in per.items():
                for w in wrts:
                    g = o["grad:" + w.name][0]
                    if g is not None:
                        try:
                            sers[(s, w.name)] = struct_digest(g, ids)
                        except Unsupported:
                            pass
            for w in wrts:
                got = {s: sers[(s, w.name)] for s in per if (s, w.name) in sers}
                if len(set(got.values())) > 1:
                    fail(f"gradient trees differ between thresholds on the {bname} build", wrt=w.name, build=bname,
                         settings=sorted(got), sample={s: t[:160] for s, t in got.items()})
            if values_ok:
                vals = {s: o["value"][0] for s, o in per.items() if o["value"][0] is not None}
                if len({repr(v) for v in vals.values()}) > 1:
                    fail(f"compiled values differ between thresholds on the {bname} build", values=vals, build=bname)
            if all(v[1] is None for o in per.values() for v in o.values()):
                rep.nontrivial.add((fam, op, n, bname))
        # ---- tie to the Lean model (left-deep + balanced, n ≤ 900)
        if n <= 900:
            for bname in ("left", "balanced") + (("vector",) if "vector" in builds else ()):
                e = builds[bname]
                try:
                    s = Ser(ids).expr(e)
                except Unsupported as ex:
                    rep.skipped["unsupported:" + str(ex)] = rep.skipped.get("unsupported:" + str(ex), 0) + 1
                    continue
                vtxt = "(" + " ".join(Ser(ids).var(v) for v in V) + ")"
                lines.append(f"depths {s}")
                metas.append((base, bname, "depths", py_depths(e)))
                for thr, sname in ((0, "iter"), (400, "default")):
                    if (bname, sname) not in obs:
                        continue
                    big = n >= 399
                    if big and bname != "left" and thr == 400:
                        continue  # the explicit-stack model is O(n²) in the driver: keep the big ties few
                    o = obs[(bname, sname)]
                    if o["vars"][0] is not None:
                        lines.append(f"vars {s} {thr}")
                        metas.append((base, bname, f"vars@{thr}", "(" + " ".join(f'"{x}"' for x in o["vars"][0]) + ")"))
                    for w in ((wrts[:1] if big else wrts) if (op in "+-" or n <= 30) else []):
                        g = o["grad:" + w.name][0]
                        if g is not None:
                            lines.append(f"gradsw {s} {Ser(ids).var(w)} {thr}")
                            metas.append((base, bname, f"gradsw@{thr}:{w.name}", ser(g, with_ids=False)))
                    if n <= 401 or thorough:
                        txt, _ = K.py_compile(e, V, thr)
                        lines.append(f"compile {s} {vtxt} {thr}")
                        metas.append((base, bname, f"compile@{thr}", txt))
        if len(rep.samples) < 6:
            rep.samples.append(dict(base, builds=sorted(builds), vars=list(want_vars)[:6], value=ref_v,
                                    degree=ref_o["degree"][0][1] if ref_o["degree"][0] else None))

    # ---- fixed probe of the known finding F26b (exactly one failure, matched by its kind)
    pr = probe_vectorised_degree()
    if pr is not None:
        fails.append(pr)
    # ---- wrapped sums: node vs accumulation under K−S, S−K, k·S, …; all channels incl. compile_jacobian, solve
    for fam, fam2, w, n, fseed, solve, thr in wrapped_plan(rng, thorough):
        r = wrapped_case(fam, fam2, w, n, fseed, solve, thr)
        rep.histogram["wrapped"] = rep.histogram.get("wrapped", 0) + 1
        rep.histogram["wrapped:" + w] = rep.histogram.get("wrapped:" + w, 0) + 1
        if r is not None:
            fails.append(r)
        else:
            rep.nontrivial.add(("wrapped", fam, fam2, w, n))
    rep.histogram["wall_wrapped_s"] = round(time.time() - t_start, 1)
    # ---- the accumulation on the right of a short wrapper, above the depth the recursive algorithms survive
    for w, op, n, fseed, consumers in deep_wrapped_plan(rng, thorough):
        r = deep_wrapped_case(w, op, n, fseed, consumers)
        rep.histogram["deep-wrapped"] = rep.histogram.get("deep-wrapped", 0) + 1
        rep.histogram[f"deep-wrapped:{w}:{n}"] = rep.histogram.get(f"deep-wrapped:{w}:{n}", 0) + 1
        if r is not None:
            fails.append(r)
        else:
            rep.nontrivial.add(("deep-wrapped", w, op, n))
    rep.histogram["wall_deep_wrapped_s"] = round(time.time() - t_start, 1)
    # ---- heterogeneous element lists under a vectorised build: vector node vs accumulations vs the harness's own arithmetic
    HET_STATS.clear()
    for prof, red, where, n, m, thr, fseed, solve in hetero_plan(rng, thorough):
        r = hetero_case(prof, red, where, n, m, thr, fseed, solve)
        rep.histogram["hetero"] = rep.histogram.get("hetero", 0) + 1
        rep.histogram[f"hetero:{where}"] = rep.histogram.get(f"hetero:{where}", 0) + 1
        rep.histogram[f"hetero:red:{red}"] = rep.histogram.get(f"hetero:red:{red}", 0) + 1
        if r is not None:
            fails.append(r)
        else:
            rep.nontrivial.add(("hetero", prof, red, where, n, m, thr, solve))
    for k2, v in HET_STATS.items():
        rep.histogram["hetero:" + k2] = v
    rep.histogram["wall_hetero_s"] = round(time.time() - t_start, 1)
    # ---- deep linear accumulations through every walker of the LP route
    for kind, shape, wrapper, n, nvars, fseed, methods in lp_route_plan(rng, thorough):
        r = lp_route_case(kind, shape, wrapper, n, nvars, fseed, methods)
        rep.histogram["lp-route"] = rep.histogram.get("lp-route", 0) + 1
        rep.histogram[f"lp-route:{shape}:{n}"] = rep.histogram.get(f"lp-route:{shape}:{n}", 0) + 1
        if r is not None:
            fails.append(r)
        else:
            rep.nontrivial.add(("lp-route", kind, shape, wrapper, n, nvars))
    rep.histogram["wall_lp_route_s"] = round(time.time() - t_start, 1)
    # ---- terms on distinct views with equal labels: every consumer, every association, below and above the switch depth
    LABEL_STATS.clear()
    for model, prof, op, wrapper, n, thr, fseed, solve in labels_plan(rng, thorough):
        r = labels_case(model, prof, op, wrapper, n, thr, fseed, solve)
        rep.histogram["labels"] = rep.histogram.get("labels", 0) + 1
        rep.histogram[f"labels:{model}"] = rep.histogram.get(f"labels:{model}", 0) + 1
        if r is not None:
            fails.append(r)
        else:
            rep.nontrivial.add(("labels", model, prof, op, wrapper, n, thr))
    for k2, v in LABEL_STATS.items():
        rep.histogram["labels:" + k2] = v
    rep.histogram["wall_labels_s"] = round(time.time() - t_start, 1)
    # ---- lifetime: one model rebuilt from fresh objects, caches never cleared
    for fam, op, n in ([("sq", "+", 401), ("un:exp", "*", 48), ("vec:dot", "-", 401), ("aud:shared", "+", 48), ("param", "/", 401),
                        ("vec:view:fro-sym", "+", 48)] if thorough else [(rng.choice(["sq", "vec:dot", "param"]), rng.choice("+-*/"), 401),
                                                                          (rng.choice(["aud:shared", "un:exp", "vec:view:fro-sym", "aud:clone"]), rng.choice("+-"), 48)]):
        fseed = rng.randint(0, 2 ** 31 - 1)
        r = lifetime_case(fam, op, n, fseed, 12 if thorough else 5)
        rep.histogram["lifetime"] = rep.histogram.get("lifetime", 0) + 1
        if r is not None:
            fails.append(r)
        else:
            rep.nontrivial.add(("lifetime", fam, op, n))
    # ---- history: degree questions asked while the accumulation is being built
    for fa, fb, k, op, n, fseed, where, thr in history_plan(rng, thorough):
        r = history_case(fa, fb, k, op, n, fseed, where, thr)
        rep.histogram["history:degree"] = rep.histogram.get("history:degree", 0) + 1
        if r is not None:
            fails.append(r)
        else:
            rep.nontrivial.add(("history", fa, fb, k, op, n, tuple(sorted(where)), thr))
    hs_ns = [399, 400, 401, 450, 900] if thorough else [400, 450]
    for i, kind in enumerate(SOLVE_BASES):
        for n in (hs_ns if thorough else [hs_ns[i % 2]]):
            for thr in ([None, 3] if thorough else [[None, 3][(i + ctx["seed"]) % 2]]):
                r = history_solve_case(kind, n, thr, "solve" if (i + n) % 2 else True)
                rep.histogram["history:solve"] = rep.histogram.get("history:solve", 0) + 4
                if r is not None:
                    fails.append(r)
                else:
                    rep.nontrivial.add(("history-solve", kind, n, thr))
    # ---- solve results: the same least-squares objective built three ways
    solve_ns = [2, 399, 400, 401, 900] if thorough else [2, 400, 401]
    for i, n in enumerate(solve_ns * (len(SOLVE_METHODS) if thorough else 1)):
        r = solve_case(n, ctx["seed"], SOLVE_METHODS[(i + ctx["seed"]) % len(SOLVE_METHODS)] if not thorough
                       else SOLVE_METHODS[i // len(solve_ns)])
        rep.histogram["solves"] = rep.histogram.get("solves", 0) + 3
        if r is not None:
            fails.append(r)

    t_py = time.time() - t_start
    outs = run_lean_unit(lines)
    rep.histogram["wall_python_s"] = round(t_py, 1)
    rep.histogram["wall_lean_s"] = round(time.time() - t_start - t_py, 1)
    rep.evaluations = len(lines) + sum(1 for _ in todo)
    for (base, bname, what, impl), model in zip(metas, outs):
        if impl != model:
            rep.corr_mismatches.append(dict(base, build=bname, what=what, impl=impl[:300], model=model[:300]))
        k = what.split("@")[0].split(":")[0]
        rep.histogram["tie:" + k] = rep.histogram.get("tie:" + k, 0) + 1
        if what.startswith("compile@") and " " in model:
            b = model.split(" ")[0]
            rep.histogram["builder:" + b] = rep.histogram.get("builder:" + b, 0) + 1
    rep.nontrivial = {hash(x) for x in rep.nontrivial}
    return rep



# ----------------------------------------------------------------------------- history (cached degree slots)

NONPOLY = ["sq", "pow"] + ["un:" + op for op in gen.UNARY if op != "neg"] + \
          ["vec:l2", "vec:l1", "vec:us:sin", "vec:us:exp", "vec:fro", "vec:es", "vec:msv", "vec:mse"]
POLY = ["var", "lin", "param", "const", "un:neg", "vec:lc", "vec:vs", "vec:dot", "vec:qf", "vec:ps"]


def hist_terms(famA, famB, k, op, n, fseed):
    """fresh objects on every call (same structure): k terms of family A, then n-k terms of family B"""
    rng = core.Rng(fseed)
    U = gen.Universe(rng)
    fams, _ = families(U, rng)
    ts = []
    for i in range(n):
        t, _ns = (fams[famA] if i < k else fams[famB])(i)
        ts.append(term_for(op, t))
    return ts


def query(e, i):
    """one of the reads that populate the `_degree` slot; every third question also asks for another derived
    quantity of the same object first (gradient, compiled callable, variable set) — the caches of those
    must not leak into later answers either"""
    import optyx.core.autodiff as AD
    import optyx.core.compiler as C
    from optyx.core.expressions import get_all_variables

    if i % 3 == 0:
        try:
            vs = sorted(get_all_variables(e), key=lambda v: v.name)
            if vs and i % 2:
                AD.gradient(e, vs[0])
            elif vs:
                C.compile_expression(e, vs)
        except RecursionError:
            pass
    if i % 2 == 0:
        return e.degree
    return e.is_linear()


def build_left_queried(op, ts, k, where):
    """the term-by-term accumulation with degree questions asked along the way:
    where ∋ 'base' → every base term before it is added; 'prefix' → the running prefix after the first
    1, 2, k, k+1 terms, around 399/400/401 and in the middle; returns (expr, number of questions)"""
    n = len(ts)
    marks = {1, 2, k, k + 1, 398, 399, 400, 401, n // 2, n - 1} if "prefix" in where else set()
    asked = 0
    if "base" in where:
        query(ts[0], 0); asked += 1
    acc = ts[0]
    if 1 in marks:
        query(acc, 1); asked += 1
    for i, t in enumerate(ts[1:], 2):
        if "base" in where and (i <= k + 2 or i % 7 == 0):
            query(t, i); asked += 1
        acc = apply(op, acc, t)
        if i in marks:
            query(acc, i + 1); asked += 1
    return acc, asked


def read_degree(e):
    """(degree, is_linear) recomputed on the root (its own slot reset; the slots below stay as they are)"""
    e._degree = None
    d, err = guarded(lambda: e.degree)
    if err is not None:
        return ("raise", err)
    e._degree = None
    l, err = guarded(lambda: e.is_linear())
    if err is not None:
        return ("raise", err)
    return (d, l)


def history_case(famA, famB, k, op, n, fseed, where, thr):
    """None = holds, else a failure dict"""
    base = {"family": "history", "famA": famA, "famB": famB, "k": k, "op": op, "n": n, "seed": fseed,
            "where": sorted(where), "thr": thr}
    with Thresholds(thr):
        q, asked = build_left_queried(op, hist_terms(famA, famB, k, op, n, fseed), k, where)
        got_q = read_degree(q)
    res = {"queried-left": got_q}
    for sname, t2 in (("default", None), ("iter", 0)):
        with Thresholds(t2):
            fresh = hist_terms(famA, famB, k, op, n, fseed)
            res[f"fresh-left/{sname}"] = read_degree(build_left(op, fresh))
            res[f"fresh-balanced/{sname}"] = read_degree(build_balanced(op, hist_terms(famA, famB, k, op, n, fseed)))
        # the queried objects again, other threshold: the slots are still populated
        with Thresholds(t2):
            res[f"queried-left/{sname}"] = read_degree(q)
    # a balanced build over *queried* base terms
    with Thresholds(thr):
        ts = hist_terms(famA, famB, k, op, n, fseed)
        for i, t in enumerate(ts[: k + 3]):
            query(t, i)
        res["balanced-over-queried-terms"] = read_degree(build_balanced(op, ts))
        bv = build_vector(op, ts)
        bvf = build_vector(op, hist_terms(famA, famB, k, op, n, fseed))
        if bv is not None:
            rv, rf = read_degree(bv), read_degree(bvf)
            if rv != rf:
                return dict(base, what="degree / is_linear of the vectorised build depends on earlier degree questions",
                            got=rv, want=rf)
    want = res["fresh-left/default"]
    for nm, got in res.items():
        if got != want:
            return dict(base, what=f"degree / is_linear differs: {nm} vs a fresh never-queried accumulation",
                        got=got, want=want, all={a: str(b) for a, b in res.items()}, questions=asked)
    return None


class LinprogSpy:
    """counts calls of scipy.optimize.linprog (lp_solver imports it at call time): the LP-vs-NLP route"""

    def __enter__(self):
        import scipy.optimize as so

        self.so, self.orig, self.calls = so, so.linprog, 0

        def spy(*a, **kw):
            self.calls += 1
            return self.orig(*a, **kw)

        so.linprog = spy
        return self

    def __exit__(self, *a):
        self.so.linprog = self.orig


SOLVE_BASES = ["exp3", "cosh", "sqrt", "quartic", "lin"]


def solve_objective(kind, n, queried, how):
    """objective = base(x0) + Σ_{i<n} y_{i mod 3}/4 with x0 ∈ [-1,1], y ∈ [0,1]; fresh objects on every call.
    `queried`: ask base.is_linear() / .degree (and solve the base alone) before accumulating"""
    from optyx import Variable, Problem
    from optyx.core.vectors import VectorExpression

    x0 = Variable("x0", lb=-1.0, ub=1.0)
    ys = [Variable(f"y{j}", lb=0.0, ub=1.0) for j in range(3)]
    if kind == "exp3":
        t, xopt = gen.unary("exp", x0) * 3.0, -1.0
    elif kind == "cosh":
        t, xopt = gen.unary("cosh", x0 - 0.25), 0.25
    elif kind == "sqrt":
        t, xopt = gen.unary("sqrt", (x0 + 0.5) * (x0 + 0.5) + 1.0), -0.5
    elif kind == "quartic":
        t, xopt = (x0 - 0.5) ** 4 + (x0 - 0.5) ** 2, 0.5
    else:
        t, xopt = x0 * 2.0 + 1.0, -1.0
    if queried:
        t.is_linear()
        _ = t.degree
        if queried == "solve":
            guarded(lambda: Problem().minimize(t).solve())
    terms = [t] + [ys[i % 3] * 0.25 for i in range(n)]
    if how == "left":
        obj = terms[0]
        for i, u in enumerate(terms[1:], 1):
            obj = obj + u
            if queried and i in (1, 2, 399, 400, n // 2):
                obj.is_linear()
    elif how == "balanced":
        obj = build_balanced("+", terms)
    else:
        obj = VectorExpression(terms).sum()
    return obj, xopt


def history_solve_case(kind, n, thr, queried):
    base = {"family": "history-solve", "kind": kind, "n": n, "thr": thr, "queried": queried}
    from optyx import Problem

    outs = {}
    for how, qd in (("left", queried), ("left", False), ("balanced", False), ("vector", False)):
        with Thresholds(thr if qd else None):
            obj, xopt = solve_objective(kind, n, qd, how)
            with LinprogSpy() as spy:
                sol, err = guarded(lambda: Problem().minimize(obj).solve())
            if err is not None:
                return dict(base, what=f"solve raised {err} on the {how} build (queried={qd})")
            outs[(how, bool(qd))] = ("lp" if spy.calls else "nlp", str(sol.status), sol.objective_value, dict(sol.values))
    ref = outs[("left", False)]
    for key, (route, status, objv, vals) in outs.items():
        nm = f"{key[0]} build ({'queried' if key[1] else 'fresh'})"
        # known finding F26b: a *linear* vectorised build is routed to the NLP solver
        if route != ref[0] and not (key[0] == "vector" and kind == "lin"):
            return dict(base, what=f"LP-vs-NLP route of the {nm} differs from the fresh accumulation", got=route, want=ref[0])
        if status != ref[1]:
            return dict(base, what=f"solve status of the {nm} differs from the fresh accumulation", got=status, want=ref[1])
        if objv is None or abs(objv - ref[2]) > 2e-3 * (1 + abs(ref[2])):
            return dict(base, what=f"objective value of the {nm} differs from the fresh accumulation", got=objv, want=ref[2])
        if abs(vals.get("x0", 9e9) - xopt) > 2e-2:
            return dict(base, what=f"solution of the {nm} is not the optimum", got=vals.get("x0"), want=xopt)
        for j in range(3):
            if n > j and abs(vals.get(f"y{j}", 9e9)) > 2e-2:
                return dict(base, what=f"solution of the {nm} is not the optimum", got=vals.get(f"y{j}"), want=0.0, var=f"y{j}")
    return None


def history_plan(rng, thorough):
    """(famA, famB, k, op, n, seed, where, thr): non-polynomial head + polynomial tail (the case a stale
    'non-polynomial' marker would turn linear), and the three other head/tail combinations"""
    out = []
    sizes = [399, 400, 401, 450, 900] if thorough else [400, 401, 450]
    heads = NONPOLY if thorough else rng.sample(NONPOLY, 9)
    for i, fa in enumerate(heads):
        for n in (sizes if thorough else [sizes[i % len(sizes)]]):
            fb = rng.choice(["var", "lin", "param", "vec:lc", "vec:vs"])
            k = rng.choice([1, 1, 2, 5])
            where = rng.choice([{"base"}, {"prefix"}, {"base", "prefix"}])
            thr = rng.choice([None, 3, 0])
            out.append((fa, fb, k, rng.choice(["+", "-"]), n, rng.randint(0, 2 ** 31 - 1), where, thr))
    for fa, fb in ([(a, b) for a in POLY for b in (NONPOLY[:4] if not thorough else NONPOLY)][:: (1 if thorough else 7)]
                   + [(a, b) for a in POLY[:4] for b in POLY[4:8]][:: (1 if thorough else 4)]
                   + [(rng.choice(NONPOLY), rng.choice(NONPOLY)) for _ in range(8 if thorough else 2)]):
        out.append((fa, fb, rng.choice([1, 3, 200]), rng.choice(["+", "-", "*", "/"]), rng.choice(sizes),
                    rng.randint(0, 2 ** 31 - 1), {"base", "prefix"}, rng.choice([None, 3])))
    # below the threshold with the thresholds lowered
    for fa in rng.sample(NONPOLY, 6 if thorough else 3):
        out.append((fa, "var", 1, "+", rng.choice([12, 48]), rng.randint(0, 2 ** 31 - 1), {"base", "prefix"}, rng.choice([0, 3])))
    return out



# ----------------------------------------------------------------------------- wrapped sums (node vs accumulation)

WRAPPERS = ["K-S", "S-K", "K+S", "S+K", "-S", "k*S", "S*k", "S/k", "(K-S)-K2", "k*(K-S)", "K-k*S", "-(K-S)",
            "(S-K)*k", "K-(S+K2)", "S1-S2", "K-(S1+S2)"]


def sum_families(n, rng, tag=""):
    """name -> (terms tᵢ, the single node N with N = Σ tᵢ, monotone-increasing-and-convex on the box?)
    over fresh bounded variables x, y ∈ [0.1, 1]ⁿ (m×m matrix for the matrix family)"""
    from optyx import VectorVariable, MatrixVariable
    from optyx.core import vectors as V
    from optyx.core import matrices as M

    x = VectorVariable("x" + tag, n, lb=0.1, ub=1.0)
    y = VectorVariable("y" + tag, n, lb=0.1, ub=1.0)
    cs = np.array([[0.5, 1.25, 2.0, 0.75, 1.5][i % 5] for i in range(n)])
    m = min(n, 4)
    Qm = np.array([[(1.0 if i == j else 0.0) + 0.125 * ((i + j) % 3) for j in range(m)] for i in range(m)])
    xm = x[0:m] if m < n else x
    X = MatrixVariable("X" + tag, 2, 2, lb=0.1, ub=1.0)
    fams = {
        "dot(x,x)": ([x[i] * x[i] for i in range(n)], V.DotProduct(x, x), True),
        "x.dot(x)": ([x[i] * x[i] for i in range(n)], x.dot(x), True),
        "dot(x,y)": ([x[i] * y[i] for i in range(n)], V.DotProduct(x, y), False),
        "c@x": ([float(cs[i]) * x[i] for i in range(n)], cs @ x, True),
        "lc": ([float(cs[i]) * x[i] for i in range(n)], V.LinearCombination(cs, x), True),
        "x.sum()": ([x[i] for i in range(n)], x.sum(), True),
        "ps2": ([x[i] ** 2 for i in range(n)], (x ** 2).sum(), True),
        "ps3": ([x[i] ** 3 for i in range(n)], (x ** 3).sum(), True),
        "ps0.5": ([x[i] ** 0.5 for i in range(n)], V.VectorPowerSum(x, 0.5), False),
        "l1": ([gen.unary("abs", x[i]) for i in range(n)], V.L1Norm(x), True),
        "es": ([x[i] * 0.5 - y[i] for i in range(n)], (x * 0.5 - y).sum(), False),
        "qf": ([float(Qm[i, j]) * xm[i] * xm[j] for i in range(m) for j in range(m)], M.QuadraticForm(xm, Qm), True),
        "X.sum()": ([X[i, j] for i in range(2) for j in range(2)], X.sum(), True),
    }
    for op, convex in (("exp", True), ("sin", False), ("cos", False), ("tan", False), ("log", False), ("sqrt", False),
                       ("sinh", True), ("cosh", True), ("tanh", False), ("abs", True)):
        fams[f"us:{op}"] = ([gen.unary(op, x[i]) for i in range(n)], V.VectorUnarySum(x, op), convex)
    return fams


def s_builds(terms, node):
    from optyx.core.vectors import VectorExpression

    out = {"node": node, "left": build_left("+", terms), "balanced": balanced("+", terms),
           "vector": VectorExpression(terms).sum()}
    if len(terms) <= 30:
        out["right"] = build_right("+", terms)
    return out


def wrap(w, S, S2, K, K2, k):
    """(expression, slope a of the affine map S ↦ W for the single-sum wrappers, else None)"""
    from optyx.core.expressions import Constant

    if w == "K-S": return K - S, -1.0
    if w == "S-K": return S - K, 1.0
    if w == "K+S": return K + S, 1.0
    if w == "S+K": return S + K, 1.0
    if w == "-S": return -S, -1.0
    if w == "k*S": return k * S, k
    if w == "S*k": return S * k, k
    if w == "S/k": return S / k, 1.0 / k
    if w == "(K-S)-K2": return (K - S) - K2, -1.0
    if w == "k*(K-S)": return k * (K - S), -k
    if w == "K-k*S": return K - k * S, -k
    if w == "-(K-S)": return -(K - S), 1.0
    if w == "(S-K)*k": return (S - K) * k, k
    if w == "K-(S+K2)": return K - (S + K2), -1.0
    if w == "S1-S2": return S - S2, None
    if w == "K-(S1+S2)": return K - (S + S2), None
    raise KeyError(w)


def accumulated_from_constant(w, terms, K):
    """the term-by-term loops a user writes for K−S / K+S: acc = K; acc = acc ∓ tᵢ"""
    from optyx.core.expressions import Constant

    if w not in ("K-S", "K+S"):
        return None
    acc = Constant(K)
    for t in terms:
        acc = (acc - t) if w == "K-S" else (acc + t)
    return acc


def arr(v):
    return np.asarray(v, dtype=float).ravel()


def wrapped_case(fam, fam2, w, n, fseed, solve, thr=None):
    """None = all channels of all builds agree with the reference and with each other; else a failure dict"""
    with Thresholds(thr):
        return _wrapped_case(fam, fam2, w, n, fseed, solve, thr)


_KNOWN_PRODUCT: list = []


def _wrapped_case(fam, fam2, w, n, fseed, solve, thr):
    """a failure dict, or None; a hit of the known finding F30 (and nothing else wrong) is returned with its kind"""
    del _KNOWN_PRODUCT[:]
    r = _wrapped_case_inner(fam, fam2, w, n, fseed, solve, thr)
    if r is None and _KNOWN_PRODUCT:
        return _KNOWN_PRODUCT[0]
    return r


def _wrapped_case_inner(fam, fam2, w, n, fseed, solve, thr):
    import optyx.core.autodiff as AD
    import optyx.core.compiler as C
    from optyx import Problem
    from optyx.core.expressions import get_all_variables

    base = {"family": "wrapped", "fam": fam, "fam2": fam2, "wrapper": w, "n": n, "seed": fseed, "solve": solve, "thr": thr}
    rng = core.Rng(fseed)
    fams = sum_families(n, rng)
    terms, node, convex = fams[fam]
    terms2, node2, _ = fams[fam2]
    K, K2, k = rng.choice([7.5, -2.25, 0.5, 12.0]), rng.choice([1.5, -0.75]), rng.choice([2.0, 0.5, -1.5, 3.0, -0.25])
    S2forms = s_builds(terms2, node2)
    builds = {}
    slope = None
    for bname, S in s_builds(terms, node).items():
        e, slope = wrap(w, S, S2forms.get(bname, S2forms["left"]), K, K2, k)
        builds[bname] = e
    acc = accumulated_from_constant(w, terms, K)
    if acc is not None:
        builds["from-constant"] = acc
    names = sorted({v.name for t in terms + (terms2 if slope is None else []) for v in get_all_variables(t)})
    byname = {v.name: v for t in terms + terms2 for v in get_all_variables(t)}
    V = [byname[nm] for nm in names]
    rng.shuffle(V)
    pt = {v.name: rng.randint(2, 7) / 8 + 1 / 16 for v in V}
    x = np.array([pt[v.name] for v in V])
    ref_e = builds["balanced"]
    ref_v = ref_value(ref_e, pt)
    probe = list(range(len(V))) if len(V) <= 12 else sorted(rng.sample(range(len(V)), 8))
    ref_g = {j: ref_gradient(ref_e, pt, V[j].name) for j in probe}
    if ref_v is None or any(g is None for g in ref_g.values()):
        return None
    scale = sum(abs(ref_value(t, pt) or 0.0) for t in terms) * (abs(k) + 1) + abs(K) + abs(K2)
    want_vars = tuple(names)
    deg0 = None
    clear_caches()
    for bname, e in builds.items():
        def bad(what, **kw):
            return dict(base, build=bname, what=f"{what} ({bname} build of {w} over {fam})", point=pt, **kw)

        got, err = guarded(lambda: tuple(sorted(v.name for v in get_all_variables(e))))
        if err or got != want_vars:
            return bad("variable set differs", got=err or got[:8], want=want_vars[:8])
        for nm, fn in (("evaluate", lambda: K_fl(e.evaluate(dict(pt)))),
                       ("compiled value", lambda: K_fl(C.compile_expression(e, V)(x)))):
            got, err = guarded(fn)
            if err or not close(got, ref_v, scale):
                return bad(f"{nm} differs from the reference", got=err or got, want=ref_v)
        chans = {"compile_jacobian": lambda: arr(AD.compile_jacobian([e], V)(x))}
        if n <= 60:
            chans["compile_gradient"] = lambda: arr(C.compile_gradient(e, V)(x))
        for nm, fn in chans.items():
            got, err = guarded(fn)
            if err or len(got) != len(V):
                return bad(f"{nm} raised / has the wrong shape", got=err or len(got))
            for j in probe:
                if not close(float(got[j]), ref_g[j], scale, rtol=1e-7):
                    return bad(f"{nm} differs from the true derivative", wrt=V[j].name, got=float(got[j]), want=ref_g[j])
        if len(V) <= 4:
            H, err = guarded(lambda: np.asarray(AD.compile_hessian(e, V)(x), dtype=float))
            if err or H.shape != (len(V), len(V)):
                return bad("compile_hessian raised / has the wrong shape", got=err or getattr(H, "shape", None))
            for i2 in range(len(V)):
                for j2 in range(len(V)):
                    try:
                        wantH = float(oracle.ref_hess(ref_e, dict(pt), V[i2].name, V[j2].name))
                    except (oracle.NotRegular, OverflowError, ZeroDivisionError, ValueError, KeyError):
                        continue
                    if math.isfinite(wantH) and not close(float(H[i2, j2]), wantH, scale * 4, rtol=1e-6):
                        return bad("compile_hessian differs from the true second derivative", wrt=(V[i2].name, V[j2].name),
                                   got=float(H[i2, j2]), want=wantH)
        for j in probe[:4]:
            g, err = guarded(lambda: AD.gradient(e, V[j]))
            gv = grad_value(g, pt) if g is not None else None
            if err or (gv is not None and not close(gv, ref_g[j], scale, rtol=1e-7)):
                return bad("gradient() differs from the true derivative", wrt=V[j].name, got=err or gv, want=ref_g[j])
        d = read_degree(e)
        # F26b: VectorExpressionSum / MatrixSum have no degree case → their forms are compared with themselves only
        exempt = bname == "vector" or "X.sum()" in (fam, fam2) or "es" in (fam, fam2)
        if not exempt:
            if deg0 is None:
                deg0 = (bname, d)
            elif d != deg0[1]:
                # optyx classifies a scalar product of two variables (xᵢ*xᵢ, xᵢ*yᵢ) as None ("non-polynomial for LP
                # detection") while x·x / x·y / xᵀQx report 2: for the product families the degree itself is compared
                # up to None ~ ≥2 (reported to the coordinator), is_linear always exactly
                prodfam = bool({fam, fam2} & {"dot(x,x)", "x.dot(x)", "dot(x,y)", "qf"})
                a, b = d, deg0[1]
                compatible = prodfam and a[1] == b[1] and (a[0] is None) != (b[0] is None) and (a[0] or b[0]) >= 2
                if compatible:
                    # genuine clean-tree discrepancy, recorded as known finding F30 (is_linear agrees)
                    kp = bad("degree differs between builds: scalar product None vs node 2",
                             got=d, want=deg0[1], other=deg0[0])
                    kp["kind"] = "scalar_product_degree_none"
                    _KNOWN_PRODUCT.append(kp)
                else:
                    return bad("degree / is_linear differs between builds", got=d, want=deg0[1], other=deg0[0])
    if not solve or slope is None or not convex:
        return None
    # ---- solve with the formula as objective (the convex direction) and as constraint
    sols = {}
    for bname, e in builds.items():
        clear_caches()
        prob = Problem().minimize(e) if slope > 0 else Problem().maximize(e)
        sol, err = guarded(lambda: prob.solve())
        if err:
            return dict(base, build=bname, what=f"solve (objective) raised {err} on the {bname} build")
        at = ref_value(ref_e, {nm: sol.values.get(nm, pt[nm]) for nm in pt})
        sols[bname] = (str(sol.status), sol.objective_value, at)
    first = next(iter(sols.items()))
    for bname, (st, ov, at) in sols.items():
        if st != first[1][0] or ov is None or abs(ov - first[1][1]) > 2e-3 * (1 + abs(first[1][1])) or \
                (at is not None and abs(ov - at) > 2e-3 * (1 + abs(at))):
            return dict(base, build=bname, what=f"solve with the formula as objective differs between builds ({bname} vs {first[0]})",
                        got=(st, ov, at), want=first[1])
    p0 = {nm: 0.4 for nm in pt}
    rhs = ref_value(ref_e, p0)
    sols = {}
    for bname, e in builds.items():
        clear_caches()
        tgt = None
        for v in V:
            d = (v - 0.8) * (v - 0.8)
            tgt = d if tgt is None else tgt + d
        con = (e <= rhs) if slope > 0 else (e >= rhs)
        sol, err = guarded(lambda: Problem().minimize(tgt).subject_to(con).solve())
        if err:
            return dict(base, build=bname, what=f"solve (constraint) raised {err} on the {bname} build")
        vals = {nm: sol.values.get(nm) for nm in pt}
        cv = ref_value(ref_e, vals) if all(v is not None for v in vals.values()) else None
        sols[bname] = (str(sol.status), sol.objective_value, cv)
    first = next(iter(sols.items()))
    for bname, (st, ov, cv) in sols.items():
        if st != first[1][0] or ov is None or abs(ov - first[1][1]) > 2e-3 * (1 + abs(first[1][1])):
            return dict(base, build=bname, what=f"solve with the formula as constraint differs between builds ({bname} vs {first[0]})",
                        got=(st, ov, cv), want=first[1], rhs=rhs)
        if cv is not None and ((slope > 0 and cv > rhs + 1e-4 * (1 + abs(rhs))) or (slope < 0 and cv < rhs - 1e-4 * (1 + abs(rhs)))):
            return dict(base, build=bname, what="solution violates the constraint built from the formula", got=cv, rhs=rhs)
    return None


def K_fl(v):
    return K.fl(v)


def wrapped_plan(rng, thorough):
    """(family, second family, wrapper, n, seed, with solve)"""
    names = list(sum_families(3, rng))
    out = []
    for i, f in enumerate(names):
        ws = WRAPPERS if thorough else [WRAPPERS[(i + j * 5 + rng.randint(0, 15)) % len(WRAPPERS)] for j in range(2)] + \
            [rng.choice(["K-S", "K+S", "S-K", "k*(K-S)"])]
        for j, w in enumerate(ws):
            n = rng.choice([2, 3, 4, 5]) if (thorough and j % 3) or (not thorough and j < 2) else rng.choice([12, 40])
            out.append((f, rng.choice(names), w, n, rng.randint(0, 2 ** 31 - 1), n <= 5 and (thorough or j == 0),
                        rng.choice([None, None, 3, 0])))
    # node vs accumulation above the switch depth (derivative compilation is O(n²): few; the quick tier drives the
    # explicit-stack paths with lowered thresholds at n = 100 instead)
    for _ in range(6 if thorough else 2):
        out.append((rng.choice(["dot(x,x)", "c@x", "ps3", "us:exp", "x.sum()", "us:log"]), "x.sum()",
                    rng.choice(["K-S", "K+S", "S-K", "k*(K-S)", "-S"]), 401 if thorough else 100,
                    rng.randint(0, 2 ** 31 - 1), False, None if thorough else rng.choice([3, 0])))
    return out


# ---- a long accumulation hanging off the RIGHT of a short wrapper (K − acc, K + acc, K / acc, k·(K − acc), …): the left-spine
#      depth estimates report 1 or 2 for these trees, so the recursive algorithms are chosen at default thresholds (F36)
DEEP_WRAPS = ["K-S", "K+S", "K/S", "k*(K-S)", "K-(S+K2)", "(K-S)-K2", "-(K-S)", "K-k*S", "sqrt(K+S)"]


def deep_wrapped_case(w, op, n, fseed, consumers):
    """None, or a failure dict: gradient / variable discovery / degree of  wrapper(acc)  for a term-by-term accumulation acc of n
    scalar terms answer (no RecursionError) and agree with the values the harness computes alongside"""
    import optyx.core.autodiff as AD
    from optyx import Problem, Variable
    from optyx.core.expressions import get_all_variables

    rng = core.Rng(fseed)
    nv = rng.choice([3, 7, n])
    xs = [Variable(f"d{j}") for j in range(nv)]
    pt = {v.name: rng.randint(1, 7) / 8 + 0.5 for v in xs}
    K, K2, k = rng.choice([7.5, 12.25]), rng.choice([0.5, 2.0]), rng.choice([2.0, -0.5])
    coef = {v.name: 0.0 for v in xs}
    acc, S = None, 0.0
    for i in range(n):
        v = xs[i % nv]
        c = rng.choice([0.25, 0.5, 1.0, 1.5])
        t = v * c if i % 3 else c * v
        sg = -1.0 if (op == "-" and i > 0) else 1.0
        acc = t if acc is None else ((acc - t) if op == "-" else (acc + t))
        coef[v.name] += sg * c
        S += sg * c * pt[v.name]
    base = {"family": "deep-wrapped", "wrapper": w, "op": op, "n": n, "seed": fseed, "consumers": list(consumers)}
    if w == "K/S":
        if abs(S) < 0.5:
            return None
        e, dW = K / acc, -K / (S * S)
    elif w == "sqrt(K+S)":
        if K + S < 0.5:
            return None
        from optyx import sqrt
        e, dW = sqrt(K + acc), 0.5 / (K + S) ** 0.5
    else:
        e, a = wrap(w, acc, None, K, K2, k)
        dW = a
    names = sorted(nm for nm in coef if True)
    used = sorted({xs[i % nv].name for i in range(n)})

    def bad(what, **kw):
        return dict(base, what=f"{what}: {w} around a {n}-term accumulation ({op})", **kw)

    if "gradient" in consumers:
        for u in (xs[0], xs[min(nv, n) - 1], Variable("absent")):
            g, err = guarded(lambda: AD.gradient(e, u))
            if err:
                return bad(f"gradient() raised {err}", wrt=u.name)
            if u.name == "absent":
                if not is_literal_zero(g):
                    return bad("gradient w.r.t. an absent variable is not the literal 0", wrt=u.name)
                continue
            gv = grad_value(g, pt)
            want = dW * coef[u.name]
            if gv is not None and not close(gv, want, max(1.0, abs(want)), rtol=1e-7):
                return bad("gradient() differs from the hand-computed derivative", wrt=u.name, got=gv, want=want)
    if "variables" in consumers:
        got, err = guarded(lambda: sorted(u.name for u in get_all_variables(e)))
        if err or got != used:
            return bad("get_all_variables is not the set of the variables of the terms", got=err or f"{len(got)} variables", want=len(used))
        for where, mk in (("objective", lambda: Problem().minimize(e)), ("constraint", lambda: Problem().minimize(xs[0]).subject_to(e <= 1.0))):
            got, err = guarded(lambda: sorted(u.name for u in mk().variables))
            if err or got != used:
                return bad(f"Problem.variables with the formula as {where} is not the set of the variables of the terms",
                           got=err or f"{len(got)} variables", want=len(used))
    if "degree" in consumers:
        d = read_degree(e)
        if d[0] == "raise":
            return bad(f"degree / is_linear raised {d[1]}")
        if w not in ("K/S", "sqrt(K+S)") and d[1] is not True:
            return bad("an affine wrapper around a linear accumulation is not classified linear", got=d)
    return None


def deep_wrapped_plan(rng, thorough):
    out = []
    ws = list(DEEP_WRAPS)
    rng.shuffle(ws)
    for i, w in enumerate(ws if thorough else ws[:4]):
        n = [520, 900, 5000, 20000][i % 4] if thorough else [520, 900, 5000, 900][i % 4]
        out.append((w, rng.choice(["+", "-"]), n, rng.randint(0, 2 ** 31 - 1), ["gradient", "variables", "degree"]))
    return out


def lifetime_case(fam, op, n, fseed, rounds):
    """the same formula built again and again from fresh objects with the same names, earlier models dropped,
    no cache cleared in between: every round must answer like the first"""
    import gc
    import optyx.core.autodiff as AD
    from optyx.core.expressions import get_all_variables

    first = None
    ids = Ids()
    clear_caches()
    for r in range(rounds):
        U, builds, names, V, extra, pt, wrts = prepare(fam, op, n, fseed)
        e = builds["left"] if r % 2 == 0 else builds["balanced"]
        w = [v for v in V if v.name in names][:1]
        o = {"vars": guarded(lambda: tuple(sorted(v.name for v in get_all_variables(e)))),
             "degree": guarded(lambda: (builds["left"].degree, builds["left"].is_linear())),
             "value": guarded(lambda: K.fl(__import__("optyx.core.compiler", fromlist=["x"]).compile_expression(builds["left"], V)(
                 np.array([pt[v.name] for v in V])))) if n <= 900 else (None, None),
             "grad": guarded(lambda: struct_digest(AD.gradient(builds["left"], w[0]), ids)) if w else (None, None)}
        for k2, (val, err) in o.items():
            if err is not None:
                return {"family": "lifetime", "fam": fam, "op": op, "n": n, "seed": fseed, "rounds": rounds,
                        "what": f"{k2} raised {err} in round {r} of rebuilding one model"}
        snap = {k2: v[0] for k2, v in o.items()}
        if first is None:
            first = snap
        elif snap != first:
            diff = [k2 for k2 in snap if snap[k2] != first[k2]]
            return {"family": "lifetime", "fam": fam, "op": op, "n": n, "seed": fseed, "rounds": rounds,
                    "what": f"round {r} of rebuilding one model answers differently from round 0: {diff}",
                    "got": {k2: str(snap[k2])[:80] for k2 in diff}, "want": {k2: str(first[k2])[:80] for k2 in diff}}
        del U, builds, e, o
        if r % 3 == 2:
            gc.collect()
    return None



# ----------------------------------------------------------------------------- deep linear accumulations on the LP route

LP_METHODS = ["auto", "linprog", "highs", "highs-ds", "highs-ipm"]
LP_KINDS = ["sum", "diff", "scaled", "mixed-forms", "with-constants"]
LP_WRAPS = ["none", "k*", "/k", "K-", "neg", "+K"]


def lp_accumulation(kind, shape, wrapper, n, nvars, rng):
    """(expression, {name: coefficient}, constant, variables): a term-by-term linear accumulation and, computed by
    the harness alongside (dyadic numbers: exact in doubles), the affine function it denotes"""
    from optyx import Variable
    from optyx.core.expressions import Constant

    xs = [Variable(f"x{j}", lb=0.0, ub=1.0) for j in range(nvars)]
    terms = []  # (expression, var index, coefficient, constant)
    for i in range(n):
        j = i % nvars if rng.random() < 0.8 else rng.randrange(nvars)
        v = xs[j]
        c = rng.choice([0.25, 0.5, -0.75, 1.5, -2.0, 3.0, -0.25, 1.0])
        if kind in ("sum", "diff"):
            terms.append((v, j, 1.0, 0.0))
        elif kind == "scaled":
            terms.append((c * v, j, c, 0.0))
        elif kind == "mixed-forms":
            form = i % 6
            e = [c * v, v * c, v / (1.0 / c), -(v * -c), Constant(c) * v, (v * 2.0) * (c / 2.0)][form]
            terms.append((e, j, c, 0.0))
        else:
            d = rng.choice([0.0, 0.5, -1.25, 2.0])
            terms.append((c * v + d if i % 2 else d + v * c, j, c, d))
    sub = kind == "diff"
    coef = [0.0] * nvars
    const = 0.0
    if shape == "left":
        acc = terms[0][0]
        signs = [1.0] + [(-1.0 if sub else 1.0)] * (n - 1)
        for t in terms[1:]:
            acc = (acc - t[0]) if sub else (acc + t[0])
    else:  # right-deep: t0 ∘ (t1 ∘ (t2 ∘ …))
        acc = terms[-1][0]
        for t in reversed(terms[:-1]):
            acc = (t[0] - acc) if sub else (t[0] + acc)
        signs = [((-1.0) ** i if sub else 1.0) for i in range(n)]
    for sg, (_, j, c, d) in zip(signs, terms):
        coef[j] += sg * c
        const += sg * d
    k, K0 = rng.choice([2.0, -0.5, 4.0]), rng.choice([7.5, -2.25])
    if wrapper == "k*":
        acc, coef, const = k * acc, [k * a for a in coef], k * const
    elif wrapper == "/k":
        acc, coef, const = acc / k, [a / k for a in coef], const / k
    elif wrapper == "K-":
        acc, coef, const = K0 - acc, [-a for a in coef], K0 - const
    elif wrapper == "neg":
        acc, coef, const = -acc, [-a for a in coef], -const
    elif wrapper == "+K":
        acc, const = acc + K0, const + K0
    used = sorted({t[1] for t in terms})  # a variable that was never drawn is not part of the model
    return acc, {xs[j].name: coef[j] for j in used}, const, [xs[j] for j in used]


def scipy_lp(c, c0, sense, rows, nvars):
    """the optimum of  min/max c·x + c0  s.t. rows (a, '<='|'>=', r), 0 ≤ x ≤ 1 — SciPy on the harness's own data"""
    from scipy.optimize import linprog

    A, b = [], []
    for a, sn, r in rows:
        if sn == "<=":
            A.append(a); b.append(r)
        else:
            A.append([-v for v in a]); b.append(-r)
    cc = np.array(c) if sense == "min" else -np.array(c)
    res = linprog(cc, A_ub=np.array(A) if A else None, b_ub=np.array(b) if b else None, bounds=[(0.0, 1.0)] * nvars, method="highs")
    if res.status != 0:
        return None
    return (res.fun if sense == "min" else -res.fun) + c0


def lp_route_case(kind, shape, wrapper, n, nvars, fseed, methods):
    """None = every walker and every solve of the linear route answers correctly; else a failure dict"""
    import optyx.analysis as A
    from optyx import Problem

    base = {"family": "lp-route", "kind": kind, "shape": shape, "wrapper": wrapper, "n": n, "nvars": nvars, "seed": fseed,
            "methods": methods}
    rng = core.Rng(fseed)
    e, coef, const, xs = lp_accumulation(kind, shape, wrapper, n, nvars, rng)
    nvars = len(xs)
    names = [v.name for v in xs]
    avec = [coef[nm] for nm in names]
    tol = 1e-9 * (sum(abs(a) for a in avec) + abs(const) + 1.0)
    limit0 = sys.getrecursionlimit()
    clear_caches()

    def run(what, fn):
        val, err = guarded(fn)
        lim = sys.getrecursionlimit()
        if lim != limit0:
            sys.setrecursionlimit(limit0)
            return None, dict(base, what=f"{what} left the interpreter's recursion limit at {lim} (was {limit0})")
        if err is not None:
            return None, dict(base, what=f"{what} raised {err} on a {shape}-deep linear accumulation of {n} terms")
        return val, None

    def vec_ok(got, want):
        return got is not None and len(got) == len(want) and all(abs(float(g) - w) <= tol for g, w in zip(got, want))

    checks = [
        ("is_linear", lambda: (A.is_linear(e), e.is_linear(), A.is_quadratic(e)), lambda r: r == (True, True, True)),
        ("degree", lambda: e.degree, lambda r: r == (1 if any(avec) or kind != "zero" else 0) or (r == 0 and not any(avec))),
        ("extract_constant_term", lambda: A.extract_constant_term(e), lambda r: abs(r - const) <= tol),
        ("Problem.variables", lambda: [v.name for v in Problem().minimize(e).variables], lambda r: sorted(r) == sorted(names)),
    ]
    for j in sorted({0, 1, nvars // 2, nvars - 1}):
        checks.append((f"extract_linear_coefficient[{names[j]}]", (lambda j=j: A.extract_linear_coefficient(e, xs[j])),
                       (lambda r, j=j: abs(r - avec[j]) <= tol)))
    perm = list(range(nvars)); rng.shuffle(perm)
    for nm, order, pad in (("natural", list(range(nvars)), 0), ("permuted", perm, 0), ("superset", perm, 3)):
        vi = {names[j]: pos + pad for pos, j in enumerate(order)}
        want = [0.0] * (nvars + 2 * pad)
        for j in range(nvars):
            want[vi[names[j]]] = avec[j]
        checks.append((f"extract_all_linear_coefficients[{nm} index map]",
                       (lambda vi=vi, m=nvars + 2 * pad: A.extract_all_linear_coefficients(e, vi, m)),
                       (lambda r, want=want: vec_ok(list(r), want))))
    for what, fn, ok in checks:
        r, f = run(what, fn)
        if f is not None:
            return f
        if not ok(r):
            return dict(base, what=f"{what} is wrong on a {shape}-deep linear accumulation", got=str(r)[:200],
                        want_coefficients={nm: coef[nm] for nm in names[:6]}, want_constant=const)
    # ---- the extractor: objective row and constraint rows (≤ and ≥), constant terms moved to the right-hand side
    r0 = const + 0.4 * sum(a for a in avec if a > 0) + 0.6 * sum(a for a in avec if a < 0)  # strictly inside the range
    other = xs[0] * 1.0 + xs[-1] * 0.5
    ocoef = [0.0] * nvars; ocoef[0] += 1.0; ocoef[-1] += 0.5

    def extracted():
        prob = Problem().minimize(e).subject_to(e <= r0 + 1.0).subject_to(e >= r0 - 1.0)
        d = A.LinearProgramExtractor().extract(prob)
        order = [names.index(nm) for nm in d.variables]
        return d, order

    r, f = run("LinearProgramExtractor.extract", extracted)
    if f is not None:
        return f
    d, order = r
    wantc = [avec[j] for j in order]
    if not vec_ok(list(d.c), wantc) or abs(float(d.c0) - const) > tol:
        return dict(base, what="LinearProgramExtractor: objective row / constant differs", got=(list(d.c)[:6], float(d.c0)), want=(wantc[:6], const))
    if d.A_ub is None or d.A_ub.shape != (2, nvars) or not vec_ok(list(d.A_ub[0]), wantc) or not vec_ok(list(d.A_ub[1]), [-a for a in wantc]) \
            or abs(float(d.b_ub[0]) - (r0 + 1.0 - const)) > tol or abs(float(d.b_ub[1]) - (-(r0 - 1.0) + const)) > tol:
        return dict(base, what="LinearProgramExtractor: constraint rows / right-hand sides differ",
                    got=(None if d.A_ub is None else [list(row)[:4] for row in d.A_ub], None if d.b_ub is None else list(d.b_ub)),
                    want=(wantc[:4], r0 + 1.0 - const, -(r0 - 1.0) + const))
    for what, fn in (("is_simple_bound", lambda: A.is_simple_bound(e <= r0, xs)),
                     ("classify_constraints", lambda: A.classify_constraints([e <= r0 + 1.0, xs[0] >= 0.25], xs))):
        r, f = run(what, fn)
        if f is not None:
            return f
    # ---- solves: as objective (min, max) and as constraint, every LP method of this case
    problems = {
        "objective/min": (lambda: Problem().minimize(e), scipy_lp(avec, const, "min", [], nvars)),
        "objective/max": (lambda: Problem().maximize(e), scipy_lp(avec, const, "max", [], nvars)),
        "constraint/>=": (lambda: Problem().minimize(other).subject_to(e >= r0), scipy_lp(ocoef, 0.0, "min", [(avec, ">=", r0 - const)], nvars)),
        "constraint/<=": (lambda: Problem().maximize(other).subject_to(e <= r0), scipy_lp(ocoef, 0.0, "max", [(avec, "<=", r0 - const)], nvars)),
        "both": (lambda: Problem().minimize(e).subject_to(e >= r0), r0),
    }
    for pname, (mk, want) in problems.items():
        if want is None:
            continue
        for method in methods:
            clear_caches()
            with LinprogSpy() as spy:
                sol, f = run(f"solve(method={method}) with the accumulation as {pname}", lambda: mk().solve(method=method))
            if f is not None:
                return f
            if "OPTIMAL" not in str(sol.status).upper() or sol.objective_value is None or \
                    abs(sol.objective_value - want) > 1e-6 * (1 + abs(want)):
                return dict(base, what=f"solve(method={method}) with the accumulation as {pname}: not the optimum",
                            got=(str(sol.status), sol.objective_value), want=want, message=str(sol.message)[:160])
            if spy.calls == 0:
                return dict(base, what=f"solve(method={method}) with a linear accumulation as {pname} did not take the LP route")
    return None


def lp_route_plan(rng, thorough):
    """(kind, shape, wrapper, n, nvars, seed, methods): depths just below / at / above every documented depth
    constant (400: the four switch thresholds, 500: the caps of the estimators) and up to the supported 900"""
    sizes = [399, 400, 401, 450, 499, 500, 501, 700, 900]
    out = []
    if thorough:
        for kind in LP_KINDS:
            for shape in ("left", "right"):
                for n in sizes:
                    out.append((kind, shape, rng.choice(LP_WRAPS), n, rng.choice([5, 40, n]), rng.randint(0, 2 ** 31 - 1), LP_METHODS))
    else:
        picks = rng.sample(sizes[:-2], 3) + [700, 900]
        for i, n in enumerate(picks):
            for shape in ("left", "right"):
                kind = LP_KINDS[(i + (shape == "right") + rng.randint(0, 4)) % len(LP_KINDS)]
                out.append((kind, shape, rng.choice(LP_WRAPS), n, rng.choice([5, 40, n]), rng.randint(0, 2 ** 31 - 1),
                            ["auto", LP_METHODS[1 + (i + (shape == "right")) % 4]]))
    return out


# ----------------------------------------------------------------------------- equal labels, different elements × depth

# checklist 30 × depth: the terms are vector / matrix nodes on DISTINCT VIEWS WITH EQUAL `.name` (a label is not an identity)
LABEL_MODELS = ["row-parts", "col-parts", "steps", "tails", "slice-of-slice", "look-alike", "blocks"]
LABEL_PROFILES = {
    "linear": ["lc", "vs", "k*vs", "lc-node"],               # affine: the LP route, optimum over the box by hand
    "lsq": ["lsq"],                                          # Σ v·v − 2 c@v: strictly convex, separable, optimum by hand
    "mixed": ["lc", "dot-self", "dot-pair", "l2", "l1", "ps", "us", "vs", "qf", "dot-expr"],
    "matrix": ["msum", "fro", "mse"],                        # the "blocks" model (matrix views)
}
LABEL_WRAPS = ["none", "k*", "K-", "neg", "+K", "/k"]
LABEL_COEFS = [0.25, 0.5, -0.75, 1.5, -2.0, 3.0, -0.25, 1.0, -1.25, 0.75]
LABEL_STATS: dict = {}   # what the cases of this run exercised (reported in the histogram)


def _stat(key):
    LABEL_STATS[key] = LABEL_STATS.get(key, 0) + 1


def label_groups(model, G, rng):
    """(groups, declared): G groups of ≥ 2 view factories; the views of one group have EQUAL `.name` and pairwise
    different element lists; every call of a factory makes a fresh view object (what `X[i, :2]` in a user's loop does).
    All variables live in the box [0, 1].  declared: every Variable of the model"""
    from optyx import VectorVariable, MatrixVariable

    groups, declared = [], []

    def pick(cands, k):
        """k of the candidate slices, pairwise different element lists"""
        rng.shuffle(cands)
        return cands[:k]

    if model in ("row-parts", "col-parts"):
        C = rng.choice([4, 5, 6])
        X = MatrixVariable("X", G, C, lb=0.0, ub=1.0) if model == "row-parts" else MatrixVariable("X", C, G, lb=0.0, ub=1.0)
        declared = [v for row in X._variables for v in row]
        for i in range(G):
            a = rng.randint(1, C - 1)
            pats = [[slice(None, a), slice(a, None)],
                    [slice(None, None, 2), slice(1, None, 2)],
                    [slice(None, a), slice(a, None), slice(None, None, -1)],
                    [slice(None, a), slice(None)],
                    [slice(a, None), slice(None, a), slice(a - 1, a + 1)]]
            sls = rng.choice(pats)
            if rng.random() < 0.5:
                sls = sls[::-1]
            if model == "row-parts":
                groups.append([(lambda i=i, s=s: X[i, s]) for s in sls])
            else:
                groups.append([(lambda i=i, s=s: X[s, i]) for s in sls])
    elif model in ("steps", "tails", "slice-of-slice", "look-alike"):
        for g in range(G):
            m = rng.choice([6, 7, 9, 12])
            v = VectorVariable(f"v{g}", m, lb=0.0, ub=1.0)
            declared += list(v._variables)
            if model == "steps":
                if rng.random() < 0.5:   # all 'v[0:m]'
                    sls = pick([slice(None, None, 2), slice(None, None, 3), slice(None, None, -1), slice(0, m),
                                slice(None, None, -2), slice(0, m, 4)], rng.choice([2, 3, 4]))
                else:                    # all 'v[a:b]'
                    a = rng.randint(0, 2); b = rng.randint(a + 4, m)
                    sls = pick([slice(a, b), slice(a, b, 2), slice(a, b, 3)], rng.choice([2, 3]))
                groups.append([(lambda v=v, s=s: v[s]) for s in sls])
            elif model == "tails":       # 'v[a:m]': stop omitted, stop = m, stop = 0 with a negative step (`stop or size`)
                a = rng.randint(2, m - 3)
                sls = pick([slice(a, None), slice(a, None, 2), slice(a, 0, -1), slice(a, m, 3)], rng.choice([2, 3]))
                groups.append([(lambda v=v, s=s: v[s]) for s in sls])
            elif model == "slice-of-slice":
                a = rng.randint(0, 1); b = rng.randint(a + 5, m)
                sls = pick([slice(None, None, 2), slice(None, None, 3), slice(None, None, -1), slice(0, b - a)], rng.choice([2, 3]))
                groups.append([(lambda v=v, a=a, b=b, s=s: v[a:b][s]) for s in sls])
            else:                        # a vector whose constructor name looks like a view of another one
                k = rng.randint(2, m - 2)
                z = VectorVariable(f"v{g}[0:{k}]", k, lb=0.0, ub=1.0)
                declared += list(z._variables)
                fs = [(lambda v=v, k=k: v[0:k]), (lambda z=z: z)]
                if rng.random() < 0.5:
                    fs.append(lambda v=v, k=k: v[0:k:2])
                rng.shuffle(fs)
                groups.append(fs)
    elif model == "blocks":
        R, C = rng.choice([4, 5, 6]), rng.choice([3, 4])
        for g in range(G):
            X = MatrixVariable(f"B{g}", R, C, lb=0.0, ub=1.0)
            declared += [v for row in X._variables for v in row]
            c = rng.randint(2, C)
            rows = pick([slice(0, R), slice(0, R, 2), slice(0, R, 3)], rng.choice([2, 3]))
            cols = rng.choice([slice(0, c), slice(0, c, 2)]) if c > 2 else slice(0, c)
            groups.append([(lambda X=X, r=r, c=c: X[r, 0:c]) for r in rows] + ([(lambda X=X, R=R, cols=cols: X[0:R, cols])] if c > 2 else []))
    else:
        raise KeyError(model)
    return groups, declared


def view_names(v):
    vs = v._variables
    return [u.name for row in vs for u in row] if vs and isinstance(vs[0], list) else [u.name for u in vs]


def label_terms(kind, mk, mk_partner, rng):
    """the terms of one slot: [(expression, f(point) -> value, g(point) -> {name: partial}, {name: coefficient} | None)]
    — value, derivative and coefficients are the harness's own NumPy arithmetic on the element names of the view"""
    from optyx.core import vectors as V
    from optyx.core import matrices as M

    v = mk()
    nv = view_names(v)
    s = len(nv)
    c = np.array([rng.choice(LABEL_COEFS) for _ in range(s)])

    def at(pt, names=nv):
        return np.array([pt[a] for a in names], dtype=float)

    def scatter(*pairs):
        out = {}
        for names, arr_ in pairs:
            for a, d in zip(names, arr_):
                out[a] = out.get(a, 0.0) + float(d)
        return out

    if kind in ("lc", "lc-node"):
        e = (c @ v) if kind == "lc" else V.LinearCombination(c, v)
        return [(e, lambda pt: float(c @ at(pt)), lambda pt: scatter((nv, c)), scatter((nv, c)))]
    if kind in ("vs", "k*vs"):
        k = 1.0 if kind == "vs" else rng.choice([2.0, -0.5, 4.0, -1.5])
        e = v.sum() if kind == "vs" else k * v.sum()
        return [(e, lambda pt: k * float(at(pt).sum()), lambda pt: scatter((nv, [k] * s)), scatter((nv, [k] * s)))]
    if kind == "lsq":
        t = np.array([rng.randint(1, 7) / 8 for _ in range(s)])
        v2 = mk() if rng.random() < 0.5 else v
        return [(v.dot(v), lambda pt: float(at(pt) @ at(pt)), lambda pt: scatter((nv, 2 * at(pt))), None),
                ((-2.0 * t) @ v2, lambda pt: float(-2.0 * t @ at(pt)), lambda pt: scatter((nv, -2.0 * t)), scatter((nv, -2.0 * t)))]
    if kind == "dot-self":
        return [(v.dot(v), lambda pt: float(at(pt) @ at(pt)), lambda pt: scatter((nv, 2 * at(pt))), None)]
    if kind in ("dot-pair", "dot-expr"):
        w = mk_partner()
        nw = view_names(w)
        if len(nw) != s:   # no equally long partner in the group: the view against itself, reversed
            w = v[::-1]
            nw = view_names(w)
        if kind == "dot-pair":
            e = V.DotProduct(v, w)
            return [(e, lambda pt: float(at(pt) @ at(pt, nw)), lambda pt: scatter((nv, at(pt, nw)), (nw, at(pt))), None)]
        e = V.DotProduct(v * 0.5, w + 1.0)
        return [(e, lambda pt: float(0.5 * at(pt) @ (at(pt, nw) + 1.0)),
                 lambda pt: scatter((nv, 0.5 * (at(pt, nw) + 1.0)), (nw, 0.5 * at(pt))), None)]
    if kind == "l2":
        return [(V.L2Norm(v), lambda pt: float(np.sqrt(at(pt) @ at(pt))),
                 lambda pt: scatter((nv, at(pt) / np.sqrt(at(pt) @ at(pt)))), None)]
    if kind == "l1":
        return [(V.L1Norm(v), lambda pt: float(np.abs(at(pt)).sum()), lambda pt: scatter((nv, np.sign(at(pt)))), None)]
    if kind == "ps":
        return [(V.VectorPowerSum(v, 3), lambda pt: float((at(pt) ** 3).sum()), lambda pt: scatter((nv, 3 * at(pt) ** 2)), None)]
    if kind == "us":
        return [(V.VectorUnarySum(v, "sin"), lambda pt: float(np.sin(at(pt)).sum()), lambda pt: scatter((nv, np.cos(at(pt)))), None)]
    if kind == "qf":
        Q = np.array([[(0.5 if i == j else 0.0) + 0.125 * ((i + 2 * j) % 3 - 1) for j in range(s)] for i in range(s)])
        return [(M.QuadraticForm(v, Q), lambda pt: float(at(pt) @ Q @ at(pt)), lambda pt: scatter((nv, (Q + Q.T) @ at(pt))), None)]
    if kind == "msum":
        return [(M.MatrixSum(v), lambda pt: float(at(pt).sum()), lambda pt: scatter((nv, [1.0] * s)), None)]
    if kind == "fro":
        return [(M.FrobeniusNorm(v), lambda pt: float(np.sqrt(at(pt) @ at(pt))),
                 lambda pt: scatter((nv, at(pt) / np.sqrt(at(pt) @ at(pt)))), None)]
    if kind == "mse":
        return [((v * v).sum(), lambda pt: float(at(pt) @ at(pt)), lambda pt: scatter((nv, 2 * at(pt))), None)]
    raise KeyError(kind)


def labels_formula(model, profile, op, wrapper, n, fseed, build):
    """one build of the formula of (model, profile, op, wrapper, n, seed) from fresh objects, and what the harness knows
    about it from its own bookkeeping: element names, value / gradient functions, affine coefficients (linear profile),
    separable quadratic data (lsq profile)"""
    rng = core.Rng(fseed)
    G = max(1, min(rng.choice([1, 2, 3, 5, 8, max(2, n // 4)]), n // 2))
    groups, declared = label_groups(model, G, rng)
    kinds = LABEL_PROFILES["matrix" if model == "blocks" else profile]
    per = 2 if kinds == ["lsq"] else 1
    slots = [(g, j) for g in range(len(groups)) for j in range(len(groups[g]))]
    order = rng.choice(["grouped", "interleaved", "shuffled"])
    if order == "interleaved":
        slots.sort(key=lambda gj: (gj[1], gj[0]))
    elif order == "shuffled":
        rng.shuffle(slots)
    slots = slots[: max(2, -(-n // per))]
    while len(slots) * per < n:
        g = rng.randrange(len(groups))
        slots.append((g, rng.randrange(len(groups[g]))))
    items = []
    for i, (g, j) in enumerate(slots):
        kind = kinds[(i + fseed) % len(kinds)] if rng.random() < 0.7 else rng.choice(kinds)
        partner = groups[g][(j + 1) % len(groups[g])]
        items += label_terms(kind, groups[g][j], partner, rng)
    sub = op == "-"
    signs = [1.0] + [(-1.0 if sub else 1.0)] * (len(items) - 1)
    ts = [it[0] for it in items]
    if build == "left":
        e = build_left(op, ts)
    elif build == "balanced":
        e = build_balanced(op, ts)
    elif build == "vector":
        e = build_vector(op, ts)
    elif build == "zigzag":
        e = build_zigzag(op, ts)
    elif build == "right":
        e = build_right(op, ts)
    else:
        raise KeyError(build)
    k, K0 = rng.choice([2.0, 0.5, 4.0]), rng.choice([7.5, -2.25])
    a, b = {"none": (1.0, 0.0), "k*": (k, 0.0), "/k": (1.0 / k, 0.0), "K-": (-1.0, K0), "neg": (-1.0, 0.0), "+K": (1.0, K0)}[wrapper]
    if profile == "lsq" and a < 0:
        a, b, wrapper = 1.0, 0.0, "none"   # keep the problem convex
    if wrapper == "k*": e = k * e
    elif wrapper == "/k": e = e / k
    elif wrapper == "K-": e = K0 - e
    elif wrapper == "neg": e = -e
    elif wrapper == "+K": e = e + K0
    fs, gs = [it[1] for it in items], [it[2] for it in items]

    def value(pt):
        return a * sum(sg * f(pt) for sg, f in zip(signs, fs)) + b

    def scale(pt):
        return abs(a) * sum(abs(f(pt)) for f in fs) + abs(b)

    def grad(pt):
        out = {}
        for sg, g_ in zip(signs, gs):
            for nm, d in g_(pt).items():
                out[nm] = out.get(nm, 0.0) + a * sg * d
        return out

    names = sorted({nm for g_ in gs for nm in g_({u.name: 0.5 for u in declared})})
    coef = None
    if all(it[3] is not None for it in items):
        coef = {nm: 0.0 for nm in names}
        for sg, it in zip(signs, items):
            for nm, d in it[3].items():
                coef[nm] += a * sg * d
    quad = None
    if profile == "lsq" and model != "blocks":
        # a·Σ_j (m_j x_j² − 2 s_j x_j) + b with a > 0 (op '+'): x_j* = s_j / m_j ∈ [1/8, 7/8]
        mj, sj = {nm: 0.0 for nm in names}, {nm: 0.0 for nm in names}
        for it in items:
            if it[3] is None:
                for nm in it[2]({u.name: 0.5 for u in declared}):
                    mj[nm] += 1.0
            else:
                for nm, d in it[3].items():
                    sj[nm] += -0.5 * d
        quad = (mj, sj)
    byname = {u.name: u for u in declared}
    return {"expr": e, "n": len(items), "names": names, "value": value, "grad": grad, "scale": scale, "coef": coef, "const": b,
            "quad": quad, "declared": declared, "vars": [byname[nm] for nm in names], "wrapper": wrapper}


def labels_case(model, profile, op, wrapper, n, thr, fseed, solve):
    """None = every consumer answers, on every association of the formula, what the harness computed by hand; else a failure dict"""
    with Thresholds(thr):
        return _labels_case(model, profile, op, wrapper, n, thr, fseed, solve)


def _labels_case(model, profile, op, wrapper, n, thr, fseed, solve):
    import optyx.core.autodiff as AD
    import optyx.core.compiler as C
    from optyx import Problem
    from optyx.core.expressions import get_all_variables

    base = {"family": "labels", "model": model, "profile": profile, "op": op, "wrapper": wrapper, "n": n, "thr": thr,
            "seed": fseed, "solve": solve}
    if profile == "lsq":
        op = "+"
    bnames = ["left", "balanced", "vector"] + (["zigzag"] if op == "+" and 3 <= n <= 401 else []) + (["right"] if op == "+" and n <= 30 else [])
    prng = core.Rng(fseed * 7 + 1)
    degs = {}
    for bname in bnames:
        F = labels_formula(model, profile, op, wrapper, n, fseed, bname)
        e, names = F["expr"], F["names"]
        if e is None:
            continue
        pt = {u.name: prng.randint(1, 7) / 8 + 1 / 16 for u in F["declared"]}
        extra = [u for u in F["declared"] if u.name not in set(names)][:2]
        V = list(F["vars"]) + extra
        core.Rng(fseed + 5).shuffle(V)
        x = np.array([pt[u.name] for u in V])
        want_v, want_g, scale = F["value"](pt), F["grad"](pt), F["scale"](pt)
        views = f"{bname} build of {F['n']} terms over same-named views ({model})"

        def bad(what, **kw):
            return dict(base, build=bname, what=f"{what}: {views}", **kw)

        # ---- variable discovery: the expression, the problem (objective / constraint), the count
        got, err = guarded(lambda: sorted(u.name for u in get_all_variables(e)))
        if err or got != names:
            return bad("get_all_variables is not the set of the elements of the views", got=err or f"{len(got)} variables",
                       want=f"{len(names)} variables", missing=sorted(set(names) - set(got or []))[:6],
                       spurious=sorted(set(got or []) - set(names))[:6])
        other = F["vars"][0] * 1.0 + F["vars"][-1] * 0.5
        for where, mk in (("objective", lambda: Problem().minimize(e)),
                          ("constraint", lambda: Problem().minimize(other).subject_to(e <= want_v + 1.0))):
            got, err = guarded(lambda: (lambda p: ([u.name for u in p.variables], p.n_variables))(mk()))
            if err or sorted(got[0]) != names or got[1] != len(names):
                return bad(f"Problem.variables / n_variables with the formula as {where} is not the set of the elements of the views",
                           got=err or f"{got[1]} variables", want=f"{len(names)} variables",
                           missing=sorted(set(names) - set(got[0] if got else []))[:6])
        # ---- value: interpreter, compiled for a superset, compiled for Problem.variables (what the NLP route compiles)
        pv, _ = guarded(lambda: Problem().minimize(e).variables)
        for nm, fn in (("evaluate", lambda: K_fl(e.evaluate(dict(pt)))),
                       ("compiled value", lambda: K_fl(C.compile_expression(e, V)(x))),
                       ("value compiled for Problem.variables", lambda: K_fl(C.compile_expression(e, pv)(np.array([pt[u.name] for u in pv]))))):
            got, err = guarded(fn)
            if err or not close(got, want_v, scale):
                return bad(f"{nm} differs from the hand-computed value", got=err or got, want=want_v, point=pt if len(pt) <= 40 else None)
        # ---- derivatives: against the hand-computed partials
        if F["n"] <= 60:
            for nm, fn in (("compile_jacobian", lambda: arr(AD.compile_jacobian([e], V)(x))),
                           ("compile_gradient", lambda: arr(C.compile_gradient(e, V)(x)))):
                got, err = guarded(fn)
                if err or len(got) != len(V):
                    return bad(f"{nm} raised / has the wrong shape", got=err or len(got))
                for j, u in enumerate(V):
                    if not close(float(got[j]), want_g.get(u.name, 0.0), scale, rtol=1e-7):
                        return bad(f"{nm} differs from the hand-computed derivative", wrt=u.name, got=float(got[j]),
                                   want=want_g.get(u.name, 0.0))
        for u in [F["vars"][0], F["vars"][-1], F["vars"][len(names) // 2]] + extra[:1]:
            g, err = guarded(lambda: AD.gradient(e, u))
            if err:
                return bad(f"gradient() raised {err}", wrt=u.name)
            if u.name not in want_g:
                if not is_literal_zero(g):
                    return bad("gradient w.r.t. an absent variable is not the literal 0", wrt=u.name)
                continue
            gv = grad_value(g, pt)
            if gv is not None and not close(gv, want_g[u.name], scale, rtol=1e-7):
                return bad("gradient() differs from the hand-computed derivative", wrt=u.name, got=gv, want=want_g[u.name])
        # ---- degree / is_linear (vectorised sums: known finding F26b, compared with nothing)
        d = read_degree(e)
        if d[0] == "raise":
            return bad(f"degree / is_linear raised {d[1]}")
        if bname != "vector" and model != "blocks":
            if F["coef"] is not None and d[1] is not True:
                return bad("a sum of c@view / view.sum() terms is not classified linear", got=d)
            degs[bname] = d
            if d != degs[next(iter(degs))]:
                return bad("degree / is_linear differs between builds", got=d, want=degs[next(iter(degs))])
        if not solve:
            continue
        # ---- solve results
        nlp = bname == "vector"   # F26b: the vectorised build of a linear formula takes the NLP route
        if F["coef"] is not None and not (nlp and len(names) > 40):
            coef = [F["coef"][nm] for nm in names]
            want = F["const"] + sum(cj for cj in coef if cj < 0)
            clear_caches()
            with LinprogSpy() as spy:
                sol, err = guarded(lambda: Problem().minimize(e).solve())
            _stat("solve:linear-objective/" + ("nlp-route" if nlp else "lp-route") + ("/deep" if F["n"] >= 400 else ""))
            if err:
                return bad(f"solve (objective) raised {err}")
            tol_o, tol_x = (2e-3, 2e-2) if nlp else (1e-6, 1e-6)
            if not nlp and spy.calls == 0:
                return bad("solve with a linear accumulation as objective did not take the LP route")
            if "OPTIMAL" not in str(sol.status).upper() or sol.objective_value is None or abs(sol.objective_value - want) > tol_o * (1 + abs(want)):
                return bad("solve: not the optimum over the box (sum of the negative coefficients)", got=(str(sol.status), sol.objective_value), want=want)
            if sorted(sol.values) != names:
                return bad("solution.values does not have exactly the elements of the views as keys", got=f"{len(sol.values)} keys",
                           want=f"{len(names)} keys", missing=sorted(set(names) - set(sol.values))[:6])
            for nm, cj in zip(names, coef):
                if abs(cj) > 1e-9 and abs(float(sol.values[nm]) - (1.0 if cj < 0 else 0.0)) > tol_x:
                    return bad("solution value is not the vertex of the box the coefficient selects", var=nm, got=float(sol.values[nm]),
                               coefficient=cj)
            if not nlp:
                ocoef = [0.0] * len(names)
                ocoef[0] += 1.0; ocoef[-1] += 0.5
                r0 = 0.4 * sum(cj for cj in coef if cj > 0) + 0.6 * sum(cj for cj in coef if cj < 0)
                want = scipy_lp(ocoef, 0.0, "min", [(coef, ">=", r0)], len(names))
                if want is not None:
                    clear_caches()
                    sol, err = guarded(lambda: Problem().minimize(other).subject_to(e >= r0 + F["const"]).solve())
                    _stat("solve:linear-constraint" + ("/deep" if F["n"] >= 400 else ""))
                    if err:
                        return bad(f"solve (constraint) raised {err}")
                    if "OPTIMAL" not in str(sol.status).upper() or sol.objective_value is None or abs(sol.objective_value - want) > 1e-6 * (1 + abs(want)):
                        return bad("solve with the formula as constraint: not SciPy's optimum on the hand-computed row",
                                   got=(str(sol.status), sol.objective_value), want=want)
                    if sorted(sol.values) != names:
                        return bad("solution.values (formula as constraint) does not have exactly the elements of the views as keys",
                                   got=f"{len(sol.values)} keys", want=f"{len(names)} keys")
                    row = sum(F["coef"][nm] * float(sol.values[nm]) for nm in names)
                    if row < r0 - 1e-6 * (1 + abs(r0)):
                        return bad("solution violates the constraint built from the formula", got=row, rhs=r0)
        if F["quad"] is not None and len(names) <= 60:
            mj, sj = F["quad"]
            xs = {nm: (min(1.0, max(0.0, sj[nm] / mj[nm])) if mj[nm] > 0 else (1.0 if sj[nm] > 0 else 0.0)) for nm in names}
            want = F["value"]({**pt, **xs})
            clear_caches()
            sol, err = guarded(lambda: Problem().minimize(e).solve())
            _stat("solve:lsq" + ("/deep" if F["n"] >= 400 else ""))
            if err:
                return bad(f"solve (NLP objective) raised {err}")
            if "OPTIMAL" not in str(sol.status).upper() or sol.objective_value is None or abs(sol.objective_value - want) > 1e-4 * (1 + abs(want)):
                return bad("NLP solve: not the hand-computed optimum of the separable quadratic", got=(str(sol.status), sol.objective_value), want=want)
            if sorted(sol.values) != names:
                return bad("solution.values (NLP) does not have exactly the elements of the views as keys", got=f"{len(sol.values)} keys",
                           want=f"{len(names)} keys", missing=sorted(set(names) - set(sol.values))[:6])
            for nm in names:
                if mj[nm] > 0 and abs(float(sol.values[nm]) - xs[nm]) > 2e-2:
                    return bad("NLP solution is not the hand-computed minimiser", var=nm, got=float(sol.values[nm]), want=xs[nm])
    return None


def labels_plan(rng, thorough):
    """(model, profile, op, wrapper, n, thr, seed, solve): every model below the switch with the thresholds lowered
    (0 / 3: the explicit-stack code on a cheap formula) and at the default / recursive setting, and a few accumulations
    above the default switch depth (400) — with and without solves"""
    out = []
    profs = ["linear", "lsq", "mixed"]
    r = rng.randint(0, 2)
    for i, model in enumerate(LABEL_MODELS):
        for j in range(3 if thorough else 1):
            prof = profs[(i + j + r) % 3]
            out.append((model, prof, rng.choice(["+", "-"]), rng.choice(LABEL_WRAPS), rng.choice([2, 4, 7, 12, 30, 48]),
                        rng.choice([0, 3, 0, 3, None, BIG]), rng.randint(0, 2 ** 31 - 1), True))
    deep_models = LABEL_MODELS if thorough else rng.sample(LABEL_MODELS, 3)
    for i, model in enumerate(deep_models):
        prof = profs[(i + r) % 3] if thorough else ["linear", "mixed", "lsq"][i % 3]
        n = rng.choice([401, 450, 900] if thorough else [401, 430])
        out.append((model, prof, rng.choice(["+", "-"]), rng.choice(LABEL_WRAPS), n, None, rng.randint(0, 2 ** 31 - 1),
                    prof != "mixed"))
    if thorough:
        for model in LABEL_MODELS:
            out.append((model, "linear", "+", "none", rng.choice([400, 401, 700]), None, rng.randint(0, 2 ** 31 - 1), True))
    return out


def probe_vectorised_degree():
    """(x+1).sum() / X.sum() must have the degree of their term-by-term accumulations"""
    from optyx import VectorVariable, MatrixVariable

    x = VectorVariable("x", 3)
    X = MatrixVariable("X", 2, 2)
    clear_caches()
    pairs = [("(x+1).sum()", (x + 1).sum(), (x[0] + 1) + (x[1] + 1) + (x[2] + 1)),
             ("X.sum()", X.sum(), X[0, 0] + X[0, 1] + X[1, 0] + X[1, 1])]
    bad = [(nm, v.degree, a.degree) for nm, v, a in pairs if v.degree != a.degree]
    if not bad:
        return None
    return {"kind": "vectorised_sum_degree_none", "what": "degree of the vectorised build differs from the accumulation",
            "cases": [{"expr": nm, "vectorised": dv, "accumulated": da} for nm, dv, da in bad],
            "family": "probe", "op": "+", "n": 3}


SOLVE_METHODS = ["auto", "SLSQP", "L-BFGS-B", "trust-constr", "BFGS"]


def solve_case(n, seed, method="auto"):
    """min Σ (v_{i mod 4} - c_i)² accumulated term by term / balanced / vectorised: same optimum, every method"""
    from optyx import Variable, Problem

    res = {}
    for bname in ("left", "balanced", "vector"):
        vs = [Variable(f"v{j}") for j in range(4)]
        cs = [((i * 7 + seed) % 11) * 0.25 - 1.0 for i in range(n)]
        terms = [(vs[i % 4] - cs[i]) ** 2 for i in range(n)]
        e = {"left": build_left, "balanced": build_balanced, "vector": build_vector}[bname]("+", terms)
        clear_caches()
        sol, err = guarded(lambda: Problem().minimize(e).solve(method=method))
        if err is not None:
            return {"what": f"solve(method={method}) raised {err} on the {bname} build", "n": n, "build": bname,
                    "family": "least-squares", "op": "+", "seed": seed, "method": method}
        want = {}
        for j in range(min(4, n)):
            col = [cs[i] for i in range(n) if i % 4 == j]
            want[f"v{j}"] = sum(col) / len(col)
        res[bname] = (str(sol.status), sol.objective_value, dict(sol.values))
        for k2, w in want.items():
            got = sol.values.get(k2)
            if got is None or abs(got - w) > 1e-4 * (1 + abs(w)):
                return {"what": f"solve(method={method}) result differs from the optimum on the {bname} build", "n": n,
                        "build": bname, "variable": k2, "got": got, "want": w, "status": str(sol.status),
                        "family": "least-squares", "op": "+", "seed": seed, "method": method}
    objs = [r[1] for r in res.values()]
    if max(objs) - min(objs) > 1e-6 * (1 + abs(objs[0])):
        return {"what": "objective values differ between builds", "n": n, "objs": objs, "family": "least-squares",
                "op": "+", "seed": seed, "method": method}
    return None


# ----------------------------------------------------------------------------- heterogeneous element lists under a vectorised build
#
# `VectorExpression([t_1..t_n])` built BY HAND from a general term list and reduced by one vector node (.sum(), c @ ·, ·.dot(·),
# ‖·‖₂, ‖·‖₁): the elements differ in operator (x0 + c0, x1 - c1, x2 * c2, x3 / c3), in operand position (c - x, c / x) and in
# shape (bare variable, bare constant, unary function, nested operation, variable ∘ variable, variable ∘ parameter, power, typed
# constants) — what the vector API itself never produces, because one vector operation gives every element one operator and one
# shape.  Whatever looks only at the first element / assumes that all elements share an operator, a shape, a constant or a
# variable is exposed by the element-list PROFILES below (one odd element first / last / somewhere, two runs, equal ends, cycling
# operators, reflected operands, mixed shapes, equal constants, few shared variables).
#
# The formula is kept as a RECIPE (records of plain numbers; checklist 28) and written twice with the same Python operators: once
# over optyx objects, once over the harness's own forward-mode numbers (HDual: float value + NumPy gradient vector, no optyx code).
# Builds: the vector node, the left-deep and the balanced accumulation of the same summands (and, for pure sums, the flattened
# term list as one chain / one balanced tree / ONE big heterogeneous VectorExpression) — standalone, under short wrappers, and as
# node(s) at the top / bottom / middle / right of a subtraction / several places of a deep (≥ 400) term-by-term chain; thresholds
# default / 0 / 3.  Channels: evaluate, compile_expression (two points, one callable), compile_to_dict_function,
# CompiledExpression.value / .gradient, gradient(), compile_gradient, compile_jacobian([e], V), get_all_variables, and a solve with
# the formula as objective over a box whose optimum is computed by hand (every variable's contribution is monotone: corner).

HET_OPS = ["+", "-", "*", "/"]
HET_UNARY = ["sin", "cos", "exp", "tanh", "neg", "sqrt", "log", "abs", "sinh", "atan"]
HET_MONO_UNARY = ["exp", "tanh", "neg", "sqrt", "log"]
HET_BOUNDED_UNARY = ["sin", "cos", "exp", "tanh", "atan"]
HET_PROFILES = ["one-op", "cycle-ops", "first-odd", "last-odd", "one-odd", "two-runs", "ends-same", "random-ops", "same-const",
                "reflected", "first-vc-then-shapes", "first-shape-odd", "shapes", "unary-odd", "unary-random", "pow-odd", "pow-random"]
HET_REDUCTIONS = ["sum", "lc", "dot", "l2", "l1"]
HET_WHERE = ["alone", "wrapped", "deep-top", "deep-bottom", "deep-mid", "deep-sub", "deep-many"]
HET_WRAPS = ["K-S", "S-K", "K+S", "-S", "k*S", "S/k", "k*(K-S)", "K-k*S", "(K-S)-K2"]
HET_FN = {
    "sin": (math.sin, math.cos), "cos": (math.cos, lambda t: -math.sin(t)), "exp": (math.exp, math.exp),
    "tanh": (math.tanh, lambda t: 1.0 - math.tanh(t) ** 2), "neg": (lambda t: -t, lambda t: -1.0),
    "sqrt": (math.sqrt, lambda t: 0.5 / math.sqrt(t)), "log": (math.log, lambda t: 1.0 / t),
    "abs": (abs, lambda t: math.copysign(1.0, t)), "sinh": (math.sinh, math.cosh),
    "atan": (math.atan, lambda t: 1.0 / (1.0 + t * t)),
}
HET_STATS: dict = {}
HET_LO, HET_HI = 0.5, 1.5      # the box of every variable: log, sqrt, c / x, x ** -1 are regular and monotone on it


class HDual:
    """value and gradient vector in plain float / NumPy arithmetic — the harness's own forward mode"""

    __slots__ = ("v", "g")

    def __init__(self, v, g):
        self.v = float(v)
        self.g = g

    def _l(self, o):
        return o if isinstance(o, HDual) else HDual(float(o), np.zeros_like(self.g))

    def __add__(self, o):
        o = self._l(o)
        return HDual(self.v + o.v, self.g + o.g)

    def __radd__(self, o):
        o = self._l(o)
        return HDual(o.v + self.v, o.g + self.g)

    def __sub__(self, o):
        o = self._l(o)
        return HDual(self.v - o.v, self.g - o.g)

    def __rsub__(self, o):
        o = self._l(o)
        return HDual(o.v - self.v, o.g - self.g)

    def __mul__(self, o):
        o = self._l(o)
        return HDual(self.v * o.v, self.g * o.v + self.v * o.g)

    def __rmul__(self, o):
        o = self._l(o)
        return HDual(o.v * self.v, o.g * self.v + o.v * self.g)

    def __truediv__(self, o):
        o = self._l(o)
        return HDual(self.v / o.v, (self.g * o.v - self.v * o.g) / (o.v * o.v))

    def __rtruediv__(self, o):
        o = self._l(o)
        return HDual(o.v / self.v, (o.g * self.v - o.v * self.g) / (self.v * self.v))

    def __neg__(self):
        return HDual(-self.v, -self.g)

    def __pow__(self, k):
        k = float(k)
        return HDual(self.v ** k, (k * self.v ** (k - 1.0)) * self.g)


class HetRef:
    """the recipe over the harness's own numbers"""

    def __init__(self, point, params):
        self.p = [float(t) for t in point]
        self.params = [float(t) for t in params]
        self.nv = len(self.p)

    def var(self, i):
        g = np.zeros(self.nv)
        g[i] = 1.0
        return HDual(self.p[i], g)

    def const(self, c):
        return HDual(float(c), np.zeros(self.nv))

    def par(self, j):
        return self.params[j]

    def un(self, f, a):
        fn, d = HET_FN[f]
        return HDual(fn(a.v), d(a.v) * a.g)


class HetOptyx:
    """the recipe over optyx objects (public operators; unary nodes as gen.unary builds them)"""

    def __init__(self, xs, params):
        self.xs, self.params = xs, params

    def var(self, i):
        return self.xs[i]

    def const(self, c):
        from optyx.core.expressions import Constant

        return Constant(c)

    def par(self, j):
        return self.params[j]

    def un(self, f, a):
        return -a if f == "neg" else gen.unary(f, a)


def het_term(rec, A):
    """one element of the list, written with the operators a user writes"""
    k = rec[0]
    if k == "var": return A.var(rec[1])
    if k == "const": return A.const(rec[1])
    if k == "vc": return apply(rec[1], A.var(rec[2]), rec[3])                                  # x op c
    if k == "cv": return apply(rec[1], rec[3], A.var(rec[2]))                                  # c op x
    if k == "vv": return apply(rec[1], A.var(rec[2]), A.var(rec[3]))                           # x op y
    if k == "vp": return apply(rec[1], A.var(rec[2]), A.par(rec[3]))                           # x op parameter
    if k == "un": return A.un(rec[1], A.var(rec[2]))                                           # f(x)
    if k == "pow": return A.var(rec[1]) ** rec[2]                                              # x ** k
    if k == "nest": return apply(rec[2], apply(rec[1], A.var(rec[3]), rec[4]), rec[5])         # (x op1 c1) op2 c2
    if k == "nestr": return apply(rec[2], rec[5], apply(rec[1], A.var(rec[3]), rec[4]))        # c2 op2 (x op1 c1)
    if k == "unlin": return A.un(rec[1], A.var(rec[2]) * rec[3] + rec[4])                      # f(x * c + d)
    raise KeyError(k)


def het_term_vars(rec):
    k = rec[0]
    return {"var": (1,), "const": (), "vc": (2,), "cv": (2,), "vv": (2, 3), "vp": (2,), "un": (2,), "pow": (1,),
            "nest": (3,), "nestr": (3,), "unlin": (2,)}[k]


def het_records(profile, n, idx, rng, mono=False, typed=False):
    """the n records of one element list along `profile`; idx(i) = variable index of element i.  mono: only shapes that are
    monotone in their single variable on the box (solve cases)"""
    consts = [0.25, 0.5, 0.75, 1.25, 1.75, 2.0, 2.5, 3.0, 4.0, -0.5, -1.25, -2.0, -3.0]
    far = [2.0, 2.5, 3.0, -2.0, -3.0]        # x ∘ c stays ≥ 1/6 away from 0 for every ∘ and x in the box

    def C():
        c = rng.choice(consts)
        if typed and rng.random() < 0.4:
            c = rng.choice([lambda t: np.float64(t), lambda t: np.float32(t), lambda t: int(t) if float(t).is_integer() else t,
                            lambda t: np.array(t)])(c)
        return c

    # the operator-pattern profiles run over one base shape: x ∘ c (mostly), c ∘ x, x ∘ y, x ∘ parameter
    base = rng.choice(["vc", "vc", "vc", "cv", "vp"] + ([] if mono else ["vv"]))

    def vc(i, op, c=None):
        if base == "cv":
            return ("cv", op, idx(i), rng.choice(consts) if c is None else c)
        if base == "vv":
            return ("vv", op, idx(i), idx(i + 1 + rng.randint(0, 2)))
        if base == "vp":
            return ("vp", op, idx(i), rng.randint(0, 1))
        return ("vc", op, idx(i), C() if c is None else c)

    def shape(i, kinds):
        k = rng.choice(kinds)
        op, op2 = rng.choice(HET_OPS), rng.choice(HET_OPS)
        if k == "vc": return ("vc", op, idx(i), C())
        if k == "cv": return ("cv", op, idx(i), rng.choice(consts))
        if k == "vv": return ("vv", op, idx(i), idx(i + 1 + rng.randint(0, 2)))
        if k == "vp": return ("vp", op, idx(i), rng.randint(0, 1))
        if k == "un": return ("un", rng.choice(HET_MONO_UNARY if mono else HET_UNARY), idx(i))
        if k == "pow": return ("pow", idx(i), rng.choice([2, 3, 0.5, -1, 2.0, -0.5]))
        if k == "nest": return ("nest", op, op2, idx(i), rng.choice(far), rng.choice(consts))
        if k == "nestr": return ("nestr", op, op2, idx(i), rng.choice(far), rng.choice(consts))
        if k == "unlin": return ("unlin", rng.choice(HET_BOUNDED_UNARY), idx(i), rng.choice([0.5, -0.75, 1.25]), rng.choice([0.25, -0.5]))
        if k == "var": return ("var", idx(i))
        return ("const", rng.choice(consts))

    every = ["vc", "cv", "un", "nest", "nestr", "pow", "vp", "var"] + ([] if mono else ["vv", "unlin", "const", "vc", "cv"])
    not_vc = [k for k in every if k != "vc"]
    a, b = rng.sample(HET_OPS, 2)
    j = rng.randint(0, n - 1)
    cut = rng.randint(1, n - 1) if n > 1 else 1
    off = rng.randint(0, 3)
    c0 = rng.choice(consts)
    if profile == "one-op": return [vc(i, a) for i in range(n)]
    if profile == "cycle-ops": return [vc(i, HET_OPS[(i + off) % 4]) for i in range(n)]
    if profile == "first-odd": return [vc(i, a if i == 0 else b) for i in range(n)]
    if profile == "last-odd": return [vc(i, b if i == n - 1 else a) for i in range(n)]
    if profile == "one-odd": return [vc(i, b if i == j else a) for i in range(n)]
    if profile == "two-runs": return [vc(i, a if i < cut else b) for i in range(n)]
    if profile == "ends-same": return [vc(i, a if i in (0, n - 1) else b) for i in range(n)]
    if profile == "random-ops": return [vc(i, rng.choice(HET_OPS)) for i in range(n)]
    if profile == "same-const": return [vc(i, rng.choice(HET_OPS), c0) for i in range(n)]
    if profile == "reflected": return [shape(i, ["vc", "cv"]) for i in range(n)]
    if profile == "first-vc-then-shapes": return [vc(0, a)] + [shape(i, every) for i in range(1, n)]
    if profile == "first-shape-odd": return [shape(0, not_vc)] + [vc(i, a) for i in range(1, n)]
    if profile == "shapes": return [shape(i, every) for i in range(n)]
    fs = HET_MONO_UNARY if mono else HET_UNARY
    f, g = rng.sample(fs, 2)
    ks = [2, 3, 0.5, -1, 2.0, -0.5, 4, 1.5]
    k1, k2 = rng.sample(ks, 2)
    if profile == "unary-odd": return [("un", g if i == j else f, idx(i)) for i in range(n)]
    if profile == "unary-random": return [("un", rng.choice(fs), idx(i)) for i in range(n)]
    if profile == "pow-odd": return [("pow", idx(i), k2 if i == j else k1) for i in range(n)]
    if profile == "pow-random": return [("pow", idx(i), rng.choice(ks)) for i in range(n)]
    raise KeyError(profile)


def het_chain_records(m, z0, nz, rng, positive):
    """m scalar terms of a term-by-term chain over the variables z0 .. z0+nz-1 (all linear; positive: increasing in every z)"""
    cs = [0.25, 0.5, 0.75, 1.25, 1.5, 2.0] + ([] if positive else [-0.5, -1.25])
    out = []
    for i in range(m):
        zi = z0 + i % nz
        f = (i + i // nz) % 6
        c = cs[(i * 5 + i // 7) % len(cs)]
        out.append([("var", zi), ("vc", "*", zi, c), ("cv", "*", zi, c), ("vc", "/", zi, abs(c) if positive else c),
                    ("vc", "+", zi, c), ("vc", "-", zi, c)][f])
    return out


def het_spec(profile, red, where, n, m, fseed, solve):
    """the recipe of one formula, deterministic in its arguments: items = [(sign, ("t", record) | ("b", block))], wrapper,
    number of variables, parameter values, constants"""
    rng = core.Rng(fseed)
    mono = bool(solve)
    nv = n if (mono or n <= 2 or rng.random() < 0.6) else rng.choice([1, 2, 3])     # distinct variables / few shared ones
    perm = list(range(nv))
    rng.shuffle(perm)

    def idx(i):
        return perm[i % nv] if nv == n else perm[(i * 7 + i // nv) % nv]

    def block(prof, size, r):
        b = {"red": r, "t": het_records(prof, size, idx, rng, mono=mono, typed=not mono and rng.random() < 0.3)}
        if r == "dot":
            b["u"] = het_records(rng.choice(HET_PROFILES), size, idx, rng)
        if r == "lc":
            ws = [0.5, -1.5, 2.0, 0.25, -0.75, 1.25, 3.0]
            b["w"] = [ws[(i + fseed) % len(ws)] for i in range(size)]
            b["ctor"] = rng.random() < 0.5
        return b

    items = [("+", ("b", block(profile, n, red)))]
    wrapper = None
    nz = 0
    if where == "wrapped":
        wrapper = rng.choice(HET_WRAPS)
    elif where.startswith("deep"):
        nz = rng.choice([1, 3, 5])
        chain = [("+", ("t", r)) for r in het_chain_records(m, nv, nz, rng, positive=mono)]
        if not mono:
            chain = [((s if i == 0 or rng.random() < 0.75 else "-"), t) for i, (s, t) in enumerate(chain)]
        blk = items[0][1]
        if where == "deep-top":
            items = chain + [("+", blk)]
        elif where == "deep-bottom":
            items = [("+", blk)] + chain
        elif where == "deep-mid":
            k = rng.randint(1, m - 1)
            items = chain[:k] + [(rng.choice("+-"), blk)] + chain[k:]
        elif where == "deep-sub":
            items = chain + [("-", blk)]
        elif where == "deep-many":
            items = list(chain)
            others = [blk[1]] + [block(rng.choice(HET_PROFILES), rng.choice([2, 3, 4, n]), rng.choice(["sum", "sum", red]))
                              for _ in range(4)]
            for q, bk in enumerate(others):
                items.insert(rng.randint(0 if q else 1, len(items)), (rng.choice("+-") if q else "+", ("b", bk)))
            if items[0][0] == "-":
                items[0] = ("+", items[0][1])
        else:
            raise KeyError(where)
    return {"items": items, "wrapper": wrapper, "nvars": nv + nz, "nblock": nv, "params": [1.75, -0.625],
            "K": rng.choice([7.5, -2.25, 12.0]), "K2": rng.choice([1.5, -0.75]), "k": rng.choice([2.0, 0.5, -1.5, 3.0, -0.25]),
            "share": rng.random() < 0.5, "vector_vars": rng.random() < 0.5, "rng": rng}


def het_summands(b, A, memo=None):
    """the scalar summands sᵢ of a block with Σ sᵢ (√Σ sᵢ for ‖·‖₂) = the vector node; (elements t, elements u)"""
    if memo is not None and id(b) in memo:
        ts, us = memo[id(b)]
    else:
        ts = [het_term(r, A) for r in b["t"]]
        us = [het_term(r, A) for r in b["u"]] if b["red"] == "dot" else None
        if memo is not None:
            memo[id(b)] = (ts, us)
    red = b["red"]
    if red == "sum": ss = list(ts)
    elif red == "lc": ss = [w * t for w, t in zip(b["w"], ts)]
    elif red == "dot": ss = [t * u for t, u in zip(ts, us)]
    elif red == "l2": ss = [t * t for t in ts]
    elif red == "l1": ss = [A.un("abs", t) for t in ts]
    else: raise KeyError(red)
    return ts, us, ss


def het_block(b, A, how, memo=None):
    from optyx.core import vectors as V

    ts, us, ss = het_summands(b, A, memo)
    red = b["red"]
    if how == "vector":
        ve = V.VectorExpression(ts)
        if red == "sum": return ve.sum()
        if red == "lc": return V.LinearCombination(np.array(b["w"]), ve) if b["ctor"] else ve @ np.array(b["w"])
        if red == "dot": return ve.dot(V.VectorExpression(us))
        if red == "l2": return V.L2Norm(ve)
        if red == "l1": return V.L1Norm(ve)
    acc = build_left("+", ss) if how == "left" else balanced("+", ss)
    return A.un("sqrt", acc) if red == "l2" else acc


def het_formula(spec, A, how, memo=None):
    """the formula over the algebra A; how ∈ vector / left / balanced (the blocks), flat-left / flat-balanced / flat-vector
    (pure sums only: ONE accumulation / ONE VectorExpression over all elementary terms, each with its sign folded in)"""
    items = spec["items"]
    if how.startswith("flat"):
        from optyx.core.vectors import VectorExpression

        flat = []
        for s, (kind, it) in items:
            els = [het_term(it, A)] if kind == "t" else het_summands(it, A, memo)[2]
            flat += [(-t if s == "-" else t) for t in els]
        acc = {"flat-left": lambda: build_left("+", flat), "flat-balanced": lambda: balanced("+", flat),
               "flat-vector": lambda: VectorExpression(flat).sum()}[how]()
    else:
        acc = None
        for s, (kind, it) in items:
            t = het_term(it, A) if kind == "t" else het_block(it, A, how, memo)
            acc = t if acc is None else ((acc - t) if s == "-" else (acc + t))
    if spec["wrapper"]:
        acc = wrap(spec["wrapper"], acc, None, spec["K"], spec["K2"], spec["k"])[0]
    return acc


def het_reference(spec, point):
    """HDual of the formula at the point (harness arithmetic only) and the Σ|summand| scale; None if ill-conditioned"""
    A = HetRef(point, spec["params"])
    try:
        ref = het_formula(spec, A, "left")
        scale = 0.0
        for s, (kind, it) in spec["items"]:
            if kind == "t":
                scale += abs(het_term(it, A).v)
            else:
                ts, us, ss = het_summands(it, A)
                if it["red"] == "l1" and min(abs(t.v) for t in ts) < 1.0 / 64:
                    return None, None        # a kink of |·| too close
                tot = sum(abs(t.v) for t in ss)
                if it["red"] == "l2" and tot < 1.0 / 16:
                    return None, None
                scale += tot + 1.0
    except (ZeroDivisionError, OverflowError, ValueError):
        return None, None
    if not (math.isfinite(ref.v) and np.all(np.isfinite(ref.g)) and abs(ref.v) < 1e6 and float(np.max(np.abs(ref.g))) < 1e6):
        return None, None
    if spec["wrapper"]:
        scale = scale * (abs(spec["k"]) + 1.0) + abs(spec["K"]) + abs(spec["K2"])
    return ref, scale


def _hstat(key, k=1):
    HET_STATS[key] = HET_STATS.get(key, 0) + k


def hetero_case(profile, red, where, n, m, thr, fseed, solve):
    """None = every channel of every build agrees with the harness's own arithmetic on the recipe; else a failure dict"""
    with Thresholds(thr):
        return _hetero_case(profile, red, where, n, m, thr, fseed, solve)


def _hetero_case(profile, red, where, n, m, thr, fseed, solve):
    import optyx.core.autodiff as AD
    import optyx.core.compiler as C
    from optyx import Parameter, Problem, Variable, VectorVariable
    from optyx.core.expressions import get_all_variables

    base = {"family": "hetero", "profile": profile, "reduction": red, "where": where, "n": n, "m": m, "thr": thr,
            "seed": fseed, "solve": bool(solve)}
    spec = het_spec(profile, red, where, n, m, fseed, solve)
    rng = spec["rng"]
    nvars, nb = spec["nvars"], spec["nblock"]

    def fresh_vars():
        if spec["vector_vars"]:
            xs = list(VectorVariable("h", nb, lb=HET_LO, ub=HET_HI))
        else:
            xs = [Variable(f"h{i}", lb=HET_LO, ub=HET_HI) for i in range(nb)]
        xs += [Variable(f"z{i}", lb=HET_LO, ub=HET_HI) for i in range(nvars - nb)]
        return xs, [Parameter(f"hp{i}", v) for i, v in enumerate(spec["params"])]

    xs, params = fresh_vars()
    A = HetOptyx(xs, params)
    used = set()
    for s, (kind, it) in spec["items"]:
        for r in ([it] if kind == "t" else it["t"] + it.get("u", [])):
            used |= {r[p] for p in het_term_vars(r)}
    used = sorted(used)
    foreign = Variable("foreign", lb=HET_LO, ub=HET_HI)
    V = [xs[i] for i in used] + [foreign]
    rng.shuffle(V)
    col = {v.name: j for j, v in enumerate(V)}
    want_vars = tuple(sorted(xs[i].name for i in used))

    pure_sum = all(kind == "t" or it["red"] == "sum" for s, (kind, it) in spec["items"]) and len(spec["items"]) > 1
    hows = ["vector", "left", "balanced"] + (["flat-vector", "flat-left", "flat-balanced"] if pure_sum else [])
    memo = {} if spec["share"] else None       # the same element objects in every build (a DAG across builds) or fresh ones
    builds = {}
    for how in hows:
        builds[how], err = guarded(lambda: het_formula(spec, A, how, memo))
        if err:
            return dict(base, build=how, what=f"building the {how} form raised {err}")
    total = sum(1 if kind == "t" else len(it["t"]) for s, (kind, it) in spec["items"])
    small = total <= 60
    cheap_grad = len(V) * total <= 9000       # derivative compilation costs (variables × terms)

    # ---- points (dyadic, inside the box) and the harness's own values / partials
    pts = []
    for _ in range(6):
        p = [rng.randint(8, 24) / 16 for _ in range(nvars)]
        ref, scale = het_reference(spec, p)
        if ref is not None:
            pts.append((p, ref, scale))
        if len(pts) == 2:
            break
    if not pts:
        _hstat("skipped:ill-conditioned")
        return None

    first_block = next(it for s, (kind, it) in spec["items"] if kind == "b")

    def bad(how, what, **kw):
        return dict(base, build=how, what=f"{what} ({how} build; {red} over a '{profile}' element list, {where})",
                    elements=[repr(r) for r in first_block["t"][:6]], **kw)

    clear_caches()
    for how, e in builds.items():
        got, err = guarded(lambda: tuple(sorted(v.name for v in get_all_variables(e))))
        if err or got != want_vars:
            return bad(how, "get_all_variables is not the set of the variables of the terms", got=err or got[:8], want=want_vars[:8])
        fn, err = guarded(lambda: C.compile_expression(e, V))
        if err:
            return bad(how, f"compile_expression raised {err}")
        dfn, err = guarded(lambda: C.compile_to_dict_function(e, V))
        if err:
            return bad(how, f"compile_to_dict_function raised {err}")
        for pi, (p, ref, scale) in enumerate(pts):
            pt = {xs[i].name: p[i] for i in range(nvars)}
            pt["foreign"] = 0.8125
            x = np.array([pt[v.name] for v in V])
            chans = [("evaluate", lambda: K_fl(e.evaluate(dict(pt)))), ("compiled value", lambda: K_fl(fn(x))),
                     ("compile_to_dict_function value", lambda: K_fl(dfn(dict(pt))))]
            if pi == 0 and cheap_grad:
                chans.append(("CompiledExpression.value", lambda: K_fl(C.CompiledExpression(e, V).value(x))))
            for nm, f in chans:
                got, err = guarded(f)
                if err or not close(got, ref.v, scale):
                    return bad(how, f"{nm} differs from the value NumPy / plain float arithmetic gives for the recipe",
                               got=err or got, want=ref.v, point=pt)
            if pi > 0:
                continue
            want_g = np.zeros(len(V))
            for i in used:
                want_g[col[xs[i].name]] = ref.g[i]
            gch = {}
            if cheap_grad:
                gch["compile_jacobian"] = lambda: arr(AD.compile_jacobian([e], V)(x))
            if cheap_grad and (small or how in ("vector", "flat-vector")):
                gch["compile_gradient"] = lambda: arr(C.compile_gradient(e, V)(x))
                gch["CompiledExpression.gradient"] = lambda: arr(C.CompiledExpression(e, V).gradient(x))
            for nm, f in gch.items():
                got, err = guarded(f)
                if err or len(got) != len(V):
                    return bad(how, f"{nm} raised / has the wrong shape", got=err or len(got))
                for j2 in range(len(V)):
                    if not close(float(got[j2]), float(want_g[j2]), scale, rtol=1e-7):
                        return bad(how, f"{nm} differs from the hand-propagated derivative", wrt=V[j2].name, got=float(got[j2]),
                                   want=float(want_g[j2]), point=pt)
            probe = [xs[used[0]], xs[used[-1]], foreign] + ([xs[rng.choice(used)]] if len(used) > 2 else [])
            for u in probe:
                g, err = guarded(lambda: AD.gradient(e, u))
                if err:
                    return bad(how, f"gradient() raised {err}", wrt=u.name)
                if u is foreign:
                    if not is_literal_zero(g):
                        return bad(how, "gradient w.r.t. an absent variable is not the literal 0", wrt=u.name)
                    continue
                gv = grad_value(g, pt)
                if gv is None:
                    gv, err = guarded(lambda: K_fl(g.evaluate(dict(pt))))
                if gv is None or not close(gv, float(want_g[col[u.name]]), scale, rtol=1e-7):
                    return bad(how, "gradient() differs from the hand-propagated derivative", wrt=u.name, got=err or gv,
                               want=float(want_g[col[u.name]]), point=pt)
    _hstat("compared")
    _hstat("builds", len(builds))
    if not solve:
        return None
    # ---- solve: every variable's contribution is monotone on the box, so the optimum is a corner computed by hand
    lo = [HET_LO] * nvars
    f_lo = het_reference(spec, lo)[0]
    if f_lo is None:
        return None
    opt = f_lo.v
    corner = list(lo)
    for i in used:
        p = list(lo)
        p[i] = HET_HI
        f_hi = het_reference(spec, p)[0]
        if f_hi is None or abs(f_hi.v - f_lo.v) < 0.05:
            _hstat("solve-skipped:flat-direction")
            return None                      # a nearly flat direction: the solver's stopping rule would decide
        if f_hi.v < f_lo.v:
            opt += f_hi.v - f_lo.v
            corner[i] = HET_HI
    chk = het_reference(spec, corner)[0]
    if chk is None or abs(chk.v - opt) > 1e-9 * (1 + abs(opt)):
        return None                          # not separable after all
    sols = {}
    for how, e in builds.items():
        clear_caches()
        sol, err = guarded(lambda: Problem().minimize(e).solve())
        if err:
            return bad(how, f"solve with the formula as objective raised {err}")
        vals = dict(sol.values or {})
        at = None
        if all(xs[i].name in vals for i in used):
            at = het_reference(spec, [float(vals.get(xs[i].name, HET_LO)) for i in range(nvars)])[0]
        sols[how] = (str(sol.status), sol.objective_value, at.v if at is not None else None)
    optimal = {how: s for how, s in sols.items() if "optimal" in s[0].lower()}
    if not optimal:
        _hstat("solve-skipped:no-optimal-status")
        return None
    _hstat("solved")
    for how, (st, ov, at) in sols.items():
        if how not in optimal:
            return bad(how, "solve status differs between builds of one formula", got=st, want=next(iter(optimal.values()))[0])
        if ov is None or abs(ov - opt) > 1e-5 * (1 + abs(opt)):
            return bad(how, "reported optimal objective differs from the hand-computed optimum over the box", got=ov, want=opt,
                       corner={xs[i].name: corner[i] for i in used[:8]})
        if at is not None and abs(ov - at) > 1e-6 * (1 + abs(at)):
            return bad(how, "reported objective value is not the value of the recipe at the reported solution", got=ov, want=at)
    return None


def hetero_plan(rng, thorough):
    """(profile, reduction, where, n, m, thr, seed, solve)"""
    out = []
    S = lambda: rng.randint(0, 2 ** 31 - 1)
    small_n = [1, 2, 3, 4, 5, 8, 12, 31, 33]
    reps = 4 if thorough else 1
    r0 = rng.randint(0, 99)
    # every profile standalone under .sum() and under one other reduction; wrapped; thresholds default / 0 / 3
    for rep_ in range(reps):
        for i, prof in enumerate(HET_PROFILES):
            out.append((prof, "sum", "alone", rng.choice(small_n[1:]), 0, rng.choice([None, None, 0, 3]), S(), False))
            out.append((prof, HET_REDUCTIONS[1 + (i + r0 + rep_) % 4], rng.choice(["alone", "wrapped"]), rng.choice(small_n), 0,
                        rng.choice([None, 0, 3]), S(), False))
            if thorough or (i + r0) % 2 == 0:
                out.append((prof, "sum", "wrapped", rng.choice(small_n[1:]), 0, rng.choice([None, 0]), S(), False))
    # sizes across thresholds, standalone
    for n in ([64, 100, 399, 400, 401, 450, 900] if thorough else [rng.choice([64, 100]), rng.choice([400, 401, 450]), 900]):
        out.append((rng.choice(HET_PROFILES), "sum" if n > 100 or rng.random() < 0.5 else rng.choice(HET_REDUCTIONS), "alone", n, 0,
                    None, S(), False))
    # the vector node(s) inside a deep term-by-term chain
    deep = [w for w in HET_WHERE if w.startswith("deep")]
    for i, w in enumerate(deep * (3 if thorough else 1)):
        out.append((HET_PROFILES[(i * 3 + r0) % len(HET_PROFILES)], "sum" if (i + r0) % 3 else rng.choice(HET_REDUCTIONS[1:]), w,
                    rng.choice([2, 4, 6, 12]), rng.choice([399, 400, 401, 450, 900] if thorough else [400, 401, 450]), None, S(), False))
    # solve objectives: standalone, wrapped (a positive scaling keeps the corner), inside a deep chain
    for i in range(12 if thorough else 4):
        out.append((HET_PROFILES[(i * 5 + r0) % len(HET_PROFILES)], ["sum", "lc"][i % 2], "alone", rng.choice([2, 3, 4, 6, 8]), 0, None,
                    S(), True))
    for i in range(4 if thorough else 1):
        out.append((HET_PROFILES[(i * 4 + r0 + 1) % len(HET_PROFILES)], "sum", rng.choice(["deep-top", "deep-bottom", "deep-mid"]),
                    rng.choice([3, 4, 6]), rng.choice([400, 401, 450]), None, S(), True))
    return out


def hetero_sweep(seed, rng):
    """the widened search of the family: every profile × reduction × position, thresholds default / 0 / 3, solves; then the
    deep positions and the sizes; first failure or None"""
    sd = seed * 5000 + 17
    one = len(HET_PROFILES) * len(HET_REDUCTIONS)
    for i in range(one * 2):
        prof = HET_PROFILES[i % len(HET_PROFILES)]
        red = HET_REDUCTIONS[(i // len(HET_PROFILES)) % len(HET_REDUCTIONS)]
        solve = i % 3 == 0 and red in ("sum", "lc")
        # first pass: the recursive algorithms (default thresholds; 3 under a wrapper), second pass: the explicit-stack ones
        thr = 0 if i >= one else (None if (solve or i % 2) else rng.choice([None, 3]))
        r = hetero_case(prof, red, "alone" if (solve or (i + i // one) % 2) else "wrapped", rng.choice([2, 3, 4, 5, 8, 12, 33]), 0,
                        thr, sd + i, solve)
        if r is not None:
            return r
    deep_where = [w for w in HET_WHERE if w.startswith("deep")]
    for i in range(30):
        r = hetero_case(HET_PROFILES[(i * 3) % len(HET_PROFILES)], "sum" if i % 3 else HET_REDUCTIONS[1 + i % 4],
                        deep_where[i % len(deep_where)], rng.choice([2, 4, 6, 12]), rng.choice([399, 400, 401, 450, 900]), None,
                        sd + 1000 + i, i % 10 == 9 and deep_where[i % len(deep_where)] != "deep-many")
        if r is not None:
            return r
    for i, n in enumerate([64, 100, 399, 400, 401, 450, 900]):
        r = hetero_case(HET_PROFILES[(i * 2 + 1) % len(HET_PROFILES)], "sum", "alone", n, 0, None, sd + 2000 + i, False)
        if r is not None:
            return r
    return None


# ----------------------------------------------------------------------------- search / replay


def term_scale(op, n, pt):
    """Σ|tᵢ(pt)| of the terms of the formula prepared last (+, -: the scale rounding errors are relative to);
    0 for * and / (purely relative comparison)"""
    if op not in "+-":
        return 0.0
    terms = prepare.last_terms
    if n > 2000:
        terms = terms[:2000]
    tot = 0.0
    for t in terms:
        v = ref_value(t, pt)
        if v is None:
            return float(n) * 4.0
        tot += abs(v)
    return tot * (n / len(terms))


def prepare(fam, op, n, fseed):
    """deterministic construction of one formula (all builds), its variable list, point and
    differentiation variables from (family, op, n, seed) — used by run() and by replay"""
    rng = core.Rng(fseed)
    vecfam = fam.startswith("vec:")
    U = gen.Universe(rng, nvec=4 if (vecfam and rng.random() < 0.5) else 3)
    fams, _ = families(U, rng)
    terms, names = [], set()
    for i in range(n):
        t, ns = fams[fam](i)
        terms.append(term_for(op, t))
        names |= ns
    prepare.last_terms = terms
    builds = {"left": build_left(op, terms), "balanced": build_balanced(op, terms)}
    bv = build_vector(op, terms)
    if bv is not None:
        builds["vector"] = bv
    if n <= 30 and op in "+*":
        builds["right"] = build_right(op, terms)
    if 3 <= n <= 401 and op in "+*":
        builds["zigzag"] = build_zigzag(op, terms)
    V = sorted((v for v in U.all_vars() if v.name in names), key=lambda v: v.name)
    extra = [v for v in U.all_vars() if v.name not in names][:2]
    V = V + extra  # a strict superset
    rng.shuffle(V)
    if vecfam:
        # orders on which a contiguous-slice shortcut for x[idx] would read the wrong entries: endpoints of
        # the operand len-1 apart with the interior permuted / a foreign variable inside the span
        own = [v for v in V if v.name in names]
        ops = [L for L in K.vector_operands(terms[0]) if len(L) >= 3]
        if ops:
            picks = K.span_orders(rng, rng.choice(ops), own, extra, how_many=1)
            if picks:
                V = rng.choice(picks)[1]
                V = V + [v for v in extra if v.name not in {w.name for w in V}]
    pt = gen.rand_point(rng, V, lo=-1.0, hi=1.0)
    wrts = ([v for v in V if v.name in names][:1] or []) + extra[:1]
    return U, builds, names, V, extra, pt, wrts


def check_formula(fam, op, n, seed, pt_seed=None):
    """the implementation-only oracle on one formula; None = holds"""
    U, builds, names, V, extra, pt, wrts = prepare(fam, op, n, seed)
    if pt_seed:
        prng = core.Rng(seed * 31 + pt_seed)
        pt = {k2: prng.choice([-1.0, 1.0]) * prng.choice([0.0625, 0.3125, 0.8125, 1.0625, 1e-7 if pt_seed > 3 else 0.5625]) for k2 in pt}
    builds.pop("right", None)
    wrts = [w for w in wrts if w.name in names]
    values_ok = n <= 900
    scale = term_scale(op, n, pt)
    want_vars = tuple(sorted(names))
    ref_v = ref_value(builds["balanced"], pt) if values_ok else None
    first = None
    for bname, e in builds.items():
        for sname, thr in [("default", None), ("iter", 0)]:
            with Thresholds(thr):
                o = observe(e, wrts, V, pt, values_ok)
            for k2, (val, err) in o.items():
                if err is not None and err not in ("ZeroDivisionError", "OverflowError"):
                    return {"what": f"{k2} raised {err} on the {bname} build ({sname})", "family": fam, "op": op, "n": n,
                            "seed": seed}
            if o["vars"][0] != want_vars:
                return {"what": f"variable set differs on {bname}/{sname}", "family": fam, "op": op, "n": n, "seed": seed}
            if first is None:
                first = o
            if bname != "vector" and o["degree"][0] != first["degree"][0]:
                return {"what": f"degree differs on {bname}/{sname}", "family": fam, "op": op, "n": n, "seed": seed}
            if values_ok and ref_v is not None:
                for k2 in ("value", "evaluate"):
                    if o[k2][0] is not None and not close(o[k2][0], ref_v, scale):
                        return {"what": f"{k2} differs from the reference on {bname}/{sname}", "family": fam, "op": op,
                                "n": n, "seed": seed, "got": o[k2][0], "want": ref_v}
            for w in wrts:
                g = o["grad:" + w.name][0]
                gv = grad_value(g, pt) if g is not None else None
                want = ref_gradient(builds["balanced"], pt, w.name)
                if gv is not None and want is not None and not close(gv, want, scale, rtol=1e-7):
                    return {"what": f"gradient value differs on {bname}/{sname}", "family": fam, "op": op, "n": n,
                            "seed": seed, "got": gv, "want": want}
    return None


def search(ctx, rep):
    rng = core.Rng(ctx["seed"] + 31337)
    # (1) the formulas on which model and implementation disagree: all builds, both thresholds, several points
    seen = set()
    for m in (rep.corr_mismatches if rep is not None else [])[:200]:
        key = (m.get("family"), m.get("op"), m.get("n"), m.get("seed"))
        if None in key or key in seen:
            continue
        seen.add(key)
        for pseed in range(6):
            r = check_formula(key[0], key[1], int(key[2]), int(key[3]), pt_seed=pseed)
            if r is not None:
                return r
    # (1a) heterogeneous element lists under every vectorised reduction
    r = hetero_sweep(ctx["seed"], rng)
    if r is not None:
        return r
    # (1b) same-named views: every model × profile, thresholds lowered, and above the default switch depth
    for i in range(42):
        model = LABEL_MODELS[i % len(LABEL_MODELS)]
        prof = ["linear", "mixed", "lsq"][(i // len(LABEL_MODELS)) % 3]
        deep = i % 5 == 4
        r = labels_case(model, prof, rng.choice(["+", "-"]), rng.choice(LABEL_WRAPS), rng.choice([401, 450]) if deep else rng.choice([2, 5, 12, 30]),
                        None if deep else rng.choice([0, 3, None]), ctx["seed"] * 1000 + i, True)
        if r is not None:
            return r
    # (1c) accumulations on the right of a short wrapper
    for i in range(18):
        r = deep_wrapped_case(DEEP_WRAPS[i % len(DEEP_WRAPS)], "+-"[i % 2], [520, 900, 5000][i % 3], ctx["seed"] * 77 + i,
                              ["gradient", "variables", "degree"])
        if r is not None:
            return r
    # (2) the families around them, then everything
    U = gen.Universe(rng)
    fams, _ = families(U, rng)
    names = list(fams)
    for i in range(160):
        fam = names[i % len(names)]
        op = "+-*/"[(i // len(names)) % 4]
        n = rng.choice([2, 5, 399, 400, 401, 900, 3000])
        r = check_formula(fam, op, n, ctx["seed"] + i)
        if r is not None:
            return r
    return None


def replay(payload) -> bool:
    f = payload["failure"]
    if f.get("family") == "lp-route":
        r = lp_route_case(f["kind"], f["shape"], f["wrapper"], int(f["n"]), int(f["nvars"]), int(f["seed"]), list(f["methods"]))
        print("lp_route_case:", r)
        return r is None
    if f.get("family") == "labels":
        r = labels_case(f["model"], f["profile"], f["op"], f["wrapper"], int(f["n"]),
                        None if f.get("thr") in (None, "None") else int(f["thr"]), int(f["seed"]), bool(f["solve"]))
        print("labels_case:", r)
        return r is None
    if f.get("family") == "hetero":
        r = hetero_case(f["profile"], f["reduction"], f["where"], int(f["n"]), int(f["m"]),
                        None if f.get("thr") in (None, "None") else int(f["thr"]), int(f["seed"]), bool(f["solve"]))
        print("hetero_case:", r)
        return r is None
    if f.get("family") == "deep-wrapped":
        r = deep_wrapped_case(f["wrapper"], f["op"], int(f["n"]), int(f["seed"]), list(f["consumers"]))
        print("deep_wrapped_case:", r)
        return r is None
    if f.get("family") == "lifetime":
        r = lifetime_case(f["fam"], f["op"], int(f["n"]), int(f["seed"]), int(f.get("rounds", 5)))
        print("lifetime_case:", r)
        return r is None
    if f.get("family") == "probe":
        r = probe_vectorised_degree()
        print("probe:", r)
        return r is None
    if f.get("family") == "wrapped":
        r = wrapped_case(f["fam"], f["fam2"], f["wrapper"], int(f["n"]), int(f["seed"]), bool(f["solve"]),
                         None if f.get("thr") in (None, "None") else int(f["thr"]))
        print("wrapped_case:", r)
        return r is None
    if f.get("family") == "history":
        r = history_case(f["famA"], f["famB"], int(f["k"]), f["op"], int(f["n"]), int(f["seed"]), set(f["where"]),
                         None if f["thr"] in (None, "None") else int(f["thr"]))
        print("history_case:", r)
        return r is None
    if f.get("family") == "history-solve":
        r = history_solve_case(f["kind"], int(f["n"]), None if f["thr"] in (None, "None") else int(f["thr"]), f["queried"])
        print("history_solve_case:", r)
        return r is None
    if f.get("family") == "least-squares":
        r = solve_case(int(f["n"]), int(f.get("seed", 0)), f.get("method", "auto"))
        print("solve_case:", r)
        return r is None
    r = check_formula(f["family"], f["op"], int(f["n"]), int(f.get("seed", 0)))
    print("check_formula:", r)
    return r is None
