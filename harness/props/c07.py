"""C07 — reported objective value and variable values are self-consistent.

Tie:    the stub tables of c06 (arbitrary `x`, `fun`; both senses; constant terms; the retry), where the
        whole Solution (status, objective value, values dict in order, iterations) is compared exactly
        with `Py.Solve.solve*`; an LP table whose stub satisfies linprog's contract fun = c'·x; handle
        construction routes (vector / matrix, slices, rows, columns, sub-matrices, transposes, symmetric,
        diagonal, diag_matrix) and `Solution[handle]` look-ups vs `Py.Solve.getVector/getMatrix`.
Oracle: independent of the model — `P.objective.evaluate(s.values) == s.objective_value`
        (exact on the stub tables whose stub honours the solver contract `fun = f(x)`; 1e-7 relative on
        real solves), `list(s.values) == [v.name for v in P.variables]`, and
        `s[vec][i] == s.values[vec[i].name]`, `s[M][i][j] == s.values[M[i, j].name]`, shapes.
"""
from __future__ import annotations

import math
import warnings

import numpy as np

import core
from ser import rat
from props import c06 as base

LEAN_MODULE = "Optyx.Props.C07"
EXTRA_MODULES = ["Optyx.Props.PinsC07", "Optyx.Props.SolveTie", "Optyx.Props.StateTie", "Optyx.Props.BuildTie", "Optyx.Props.CompileEntryTie"]   # transcription anchors (harness/source_pins.py)
THEOREMS = [
    "Optyx.Props.C07.lp_objective_value",
    "Optyx.Props.C07.scipy_objective_value",
    "Optyx.Props.C07.values_keys",
    "Optyx.Props.C07.values_lookup",
    "Optyx.Props.C07.getitem_vector",
    "Optyx.Props.C07.getitem_matrix",
    "Optyx.Props.C07.getitem_transpose",
    "Optyx.Props.C07.getitem_symmetric",
    "Optyx.Props.Glue.lpGlue_text",
    "Optyx.Props.Dispatch.solve_autoSelect_eq_generated",
    "Optyx.Props.Dispatch.solve_route_eq_generated",
    "Optyx.Props.SolveTie.finish_objective_eq",
    "Optyx.Props.SolveTie.reported_objective_of_source_equations",
    "Optyx.Props.SolveTie.solutionKwargs_pin",
    "Optyx.Props.StateTie.edits_are_source",
    "Optyx.Props.BuildTie.compile_step",
    "Optyx.Props.BuildTie.compileVec_step",
    "Optyx.Props.CompileEntryTie.compileExpression_eq",
    "Optyx.Props.CompileEntryTie.param_run",
    "Optyx.Props.PinsC07.anchors",
]
ASSUMPTIONS = [
    "solver contract (explicit hypotheses of the theorems): minimize returns fun = f'(x) for the objective it was "
    "given (negated for maximise); linprog returns fun = c'·x",
    "variable names of a problem are pairwise distinct (C16); result vectors are at least as long as the variable list "
    "(a shorter one raises IndexError in the code and in the model)",
    "solver results are finite (NaN / ±inf are outside the rational model)",
]
run_lean_unit = base.run_lean_unit
qs, orat, b01 = base.qs, base.orat, base.b01


# ----------------------------------------------------------------------------- handle recipes
# recipe = nested tuples, mirrored by `evalRecipe` of Optyx/Drive/Solve.lean


def sl_text(s):
    a, b, c = s
    f = lambda v: "None" if v is None else str(v)  # noqa: E731
    return f"(sl {f(a)} {f(b)} {f(c)})"


def recipe_text(r):
    k = r[0]
    if k == "var":
        return f"(var {qs(r[1])} {orat(r[2])} {orat(r[3])} {r[4]})"
    if k == "vec":
        return f"(vec {qs(r[1])} {r[2]} {orat(r[3])} {orat(r[4])} {r[5]})"
    if k == "mat":
        return f"(mat {qs(r[1])} {r[2]} {r[3]} {orat(r[4])} {orat(r[5])} {r[6]} {b01(r[7])})"
    if k == "slice":
        return f"(slice {recipe_text(r[1])} {sl_text(r[2])})"
    if k == "vget":
        return f"(vget {recipe_text(r[1])} {r[2]})"
    if k == "T":
        return f"(T {recipe_text(r[1])})"
    if k == "mget":
        return f"(mget {recipe_text(r[1])} {r[2]} {r[3]})"
    if k == "row":
        return f"(row {recipe_text(r[1])} {r[2]} {sl_text(r[3])})"
    if k == "col":
        return f"(col {recipe_text(r[1])} {sl_text(r[2])} {r[3]})"
    if k == "sub":
        return f"(sub {recipe_text(r[1])} {sl_text(r[2])} {sl_text(r[3])})"
    if k in ("diagonal", "diagf"):
        return f"(diagonal {recipe_text(r[1])})"
    if k == "diagm":
        return f"(diagm {recipe_text(r[1])} {orat(r[2])} {orat(r[3])})"
    raise ValueError(k)


def build_handle(r, memo=None):
    """the recipe through the real API; sub-recipes are shared through `memo` so that identity of
    element objects between a view and its base can be observed"""
    from optyx import MatrixVariable, Variable, VectorVariable
    from optyx.core.matrices import diag, diag_matrix

    memo = {} if memo is None else memo
    if r in memo:
        return memo[r]
    k = r[0]
    if k == "var":
        h = Variable(r[1], lb=r[2], ub=r[3], domain=r[4])
    elif k == "vec":
        h = VectorVariable(r[1], r[2], lb=r[3], ub=r[4], domain=r[5])
    elif k == "mat":
        h = MatrixVariable(r[1], r[2], r[3], lb=r[4], ub=r[5], domain=r[6], symmetric=r[7])
    else:
        b = build_handle(r[1], memo)
        if k == "slice":
            h = b[slice(*r[2])]
        elif k == "vget":
            h = b[r[2]]
        elif k == "T":
            h = b.T
        elif k == "mget":
            h = b[r[2], r[3]]
        elif k == "row":
            h = b[r[2], slice(*r[3])]
        elif k == "col":
            h = b[slice(*r[2]), r[3]]
        elif k == "sub":
            h = b[slice(*r[2]), slice(*r[3])]
        elif k == "diagonal":
            h = b.diagonal()
        elif k == "diagf":
            h = diag(b)
        elif k == "diagm":
            h = diag_matrix(b, lb=r[2], ub=r[3])
        else:
            raise ValueError(k)
    memo[r] = h
    return h


def pvar_text(v):
    return f"({qs(v.name)} {orat(v.lb)} {orat(v.ub)} {v.domain})"


def describe(h):
    from optyx import MatrixVariable, VectorVariable

    if isinstance(h, VectorVariable):
        return (f"vec {qs(h.name)} {orat(h.lb)} {orat(h.ub)} {h.domain} size={h.size} "
                f"({' '.join(pvar_text(v) for v in h._variables)})")
    if isinstance(h, MatrixVariable):
        rows = " ".join("(" + " ".join(pvar_text(v) for v in row) + ")" for row in h._variables)
        return (f"mat {qs(h.name)} {h.rows} {h.cols} {orat(h.lb)} {orat(h.ub)} {h.domain} "
                f"sym={b01(h.symmetric)} tr={b01(h._is_transpose)} ({rows})")
    return "var " + pvar_text(h)


ERRMAP = {"IndexError": "raise:IndexError", "ValueError": "raise:ValueError", "InvalidSizeError": "raise:InvalidSizeError",
          "SquareMatrixError": "raise:SquareMatrixError", "KeyError": "raise:KeyError"}


def real_describe(r):
    try:
        return describe(build_handle(r))
    except Exception as e:  # noqa: BLE001
        return ERRMAP.get(type(e).__name__, f"raise:{type(e).__name__}")


SLICES = [(None, None, None), (1, None, None), (None, 2, None), (1, 3, None), (None, None, 2), (None, None, -1),
          (-2, None, None), (0, 0, None), (3, 1, None), (None, -1, None), (1, None, 2), (None, None, 0), (-1, -3, -1),
          (0, 9, 3), (-9, 2, None)]


def recipes(rng, domains=("continuous", "integer", "binary"), thorough=False):
    """cell cover of the construction routes (+ seeded random compositions)"""
    out = []
    for dom in domains:
        # bounds as numbers of several numeric types (a binary declaration must end at [0, 1] whatever was passed)
        for bi, (lb, ub) in enumerate(((None, None), (0.5, None), (-1.0, 3.0), (np.int64(-3), np.float32(7.5)), (2, 1e16))):
            vname = ["x", "x", "x", "x1", "b_10"][bi]
            out.append(("var", f"s_{dom[0]}", lb, ub, dom))
            vec = ("vec", vname, 4, lb, ub, dom)
            out.append(vec)
            if (lb, ub) == (None, None):
                out += [("vec", "x", 0, lb, ub, dom), ("vec", "e", 1, lb, ub, dom)]
            for s in SLICES:
                out.append(("slice", vec, s))
            for i in (0, 3, -1, -4, 4, -5):
                out.append(("vget", vec, i))
            out.append(("slice", ("slice", vec, (1, None, None)), (None, None, -1)))
            out.append(("diagm", vec, None, None))
            out.append(("diagm", ("slice", vec, (0, 2, None)), -1.0, 1.0))
            out.append(("T", ("diagm", vec, None, None)))
            out.append(("diagonal", ("diagm", vec, None, None)))
            for (r, c, sym) in ((2, 3, False), (3, 3, False), (3, 3, True), (1, 1, False), (2, 2, True), (1, 3, False),
                                (3, 1, False), (4, 3, False)):
                m = ("mat", "A", r, c, lb, ub, dom, sym)
                out += [m, ("T", m), ("T", ("T", m)), ("diagonal", m), ("diagf", m), ("diagonal", ("T", m))]
                # transposes of blocks, blocks of transposes, strided / reversed blocks, views of views of views
                out += [("T", ("T", ("T", m))), ("sub", ("T", m), (None, None, None), (0, 2, None)),
                        ("sub", ("T", m), (None, None, -1), (None, None, None)),
                        ("T", ("sub", ("T", m), (0, 2, None), (None, None, None))),
                        ("sub", m, (None, None, 2), (None, None, 2)), ("T", ("sub", m, (None, None, 2), (None, None, -1))),
                        ("sub", ("sub", m, (None, None, -1), (None, None, None)), (0, 2, None), (None, None, -1)),
                        ("row", ("T", ("sub", m, (0, 2, None), (None, None, None))), -1, (None, None, -1)),
                        ("col", ("T", ("T", m)), (None, None, 2), -1),
                        ("slice", ("col", ("T", m), (None, None, None), 0), (None, None, -1)),
                        ("slice", ("slice", ("row", m, 0, (None, None, None)), (None, None, -1)), (None, None, 2)),
                        ("diagonal", ("sub", m, (0, min(r, c), None), (0, min(r, c), None)))]
                for i in (0, r - 1, -1, r):
                    out.append(("row", m, i, (None, None, None)))
                    out.append(("row", ("T", m), 0, (1, None, None)))
                for j in (0, c - 1, -1, c, -c - 1):
                    out.append(("col", m, (None, None, None), j))
                out.append(("col", m, (1, None, None), 0))
                out.append(("col", ("T", m), (None, None, -1), 0))
                for rs, cs in (((None, None, None), (None, None, None)), ((0, 2, None), (1, None, None)),
                               ((1, None, None), (0, 1, None)), ((2, 2, None), (None, None, None)),
                               ((None, None, None), (5, None, None)), ((None, None, -1), (None, None, 2))):
                    out.append(("sub", m, rs, cs))
                    out.append(("T", ("sub", m, rs, cs)))
                out.append(("mget", m, 0, c - 1))
                out.append(("mget", ("T", m), c - 1, 0))
                out.append(("mget", m, r, 0))
                out.append(("slice", ("row", m, 0, (None, None, None)), (None, None, 2)))
                out.append(("slice", ("diagonal", m), (1, None, None)))
            out += [("mat", "Z", 0, 2, lb, ub, dom, False), ("mat", "Z", 2, -1, lb, ub, dom, False),
                    ("mat", "Z", 2, 3, lb, ub, dom, True)]
    for _ in range(3000 if thorough else 300):
        dom = rng.choice(list(domains))
        lb, ub = rng.choice([(None, None), (0.0, None), (-2.0, 2.0)])
        if rng.random() < 0.5:
            h = ("vec", "x", rng.randint(1, 5), lb, ub, dom)
            for _ in range(rng.randint(1, 3)):
                h = ("slice", h, (rng.choice([None, -3, -1, 0, 1, 2, 4]), rng.choice([None, -2, 0, 1, 3, 6]),
                                  rng.choice([None, 1, 2, -1, -2])))
        else:
            n = rng.randint(1, 3)
            sym = rng.random() < 0.4
            h = ("mat", "M", n, n if sym else rng.randint(1, 3), lb, ub, dom, sym)
            for _ in range(rng.randint(0, 3)):
                c = rng.randint(0, 3)
                sl = lambda: (rng.choice([None, -2, 0, 1]), rng.choice([None, -1, 1, 2, 3]), rng.choice([None, 1, -1, 2]))  # noqa: E731
                if c == 0:
                    h = ("T", h)
                elif c == 1:
                    h = ("sub", h, sl(), sl())
                elif c == 2:
                    h = ("row", h, rng.randint(-3, 3), sl())
                    break
                else:
                    h = rng.choice([("diagonal", h), ("col", h, sl(), rng.randint(-3, 3))])
                    break
        out.append(h)
    return out


def base_of(r):
    while r[0] not in ("var", "vec", "mat"):
        r = r[1]
    return r


def handle_elements(h):
    from optyx import MatrixVariable, VectorVariable

    if isinstance(h, VectorVariable):
        return list(h._variables)
    if isinstance(h, MatrixVariable):
        return [v for row in h._variables for v in row]
    return [h]


def ref_names(r):
    """the element NAMES a handle must expose, position by position, computed with NumPy indexing on string arrays
    (independent of optyx's containers).  None = this recipe is outside the reference (diag_matrix labels)."""
    k = r[0]
    if k == "var":
        return np.array(r[1], dtype=object)
    if k == "vec":
        return np.array([f"{r[1]}[{i}]" for i in range(r[2])], dtype=object)
    if k == "mat":
        sym = r[7]
        return np.array([[f"{r[1]}[{min(i, j)},{max(i, j)}]" if sym else f"{r[1]}[{i},{j}]" for j in range(r[3])]
                         for i in range(r[2])], dtype=object).reshape(r[2], r[3])
    b = ref_names(r[1])
    if b is None:
        return None
    if k == "slice":
        return b[slice(*r[2])]
    if k == "vget":
        return b[r[2]]
    if k == "T":
        return b.T
    if k == "mget":
        return b[r[2], r[3]]
    if k == "row":
        return b[r[2], slice(*r[3])]
    if k == "col":
        return b[slice(*r[2]), r[3]]
    if k == "sub":
        return b[slice(*r[2]), slice(*r[3])]
    if k in ("diagonal", "diagf"):
        return np.array([b[i, i] for i in range(b.shape[0])], dtype=object)
    return None


def accessor_channels(s, h, vals, r):
    """every way of reading the same numbers: s[h], s.get(h), s.get(h, default), h.to_numpy(values) — and the
    NumPy reference layout of names.  -> list of disagreements"""
    from optyx import MatrixVariable, VectorVariable

    out = []
    got = s[h]
    g2 = s.get(h)
    if not np.array_equal(np.asarray(got, dtype=float), np.asarray(g2, dtype=float)):
        out.append("Solution.get(handle) differs from Solution[handle]")
    if isinstance(h, (VectorVariable, MatrixVariable)):
        g3 = h.to_numpy(dict(vals))
        if not np.array_equal(np.asarray(got, dtype=float), np.asarray(g3, dtype=float)) or np.shape(g3) != np.shape(got):
            out.append("handle.to_numpy(values) differs from Solution[handle]")
    try:
        names = ref_names(r)
    except (IndexError, ValueError):
        names = None
        out.append("the handle was built although NumPy indexing of the same recipe is invalid")
    if names is not None:
        names = np.asarray(names, dtype=object)
        want = (np.vectorize(lambda n: vals[n], otypes=[float])(names) if names.size else np.zeros(names.shape)) \
            if names.shape != () else np.float64(vals[str(names)])
        if np.shape(want) != np.shape(got) or not np.array_equal(np.asarray(want, dtype=float), np.asarray(got, dtype=float)):
            out.append(f"Solution[handle] differs from the NumPy reference layout {names.tolist()}")
        if names.size == 0:
            out.append("an empty view was built (NumPy gives an empty selection)")
    return out


def getitem_cases(rep, rng, recs):
    """Solution(values)[handle] through the real code vs the model and vs the property itself"""
    from optyx import MatrixVariable, VectorVariable
    from optyx.solution import Solution, SolverStatus

    lines, metas = [], []
    for i, r in enumerate(recs):
        try:
            h = build_handle(r)
        except Exception:  # noqa: BLE001
            continue
        elems = handle_elements(h)
        names = []
        for v in handle_elements(build_handle(base_of(r))) + elems:
            if v.name not in names:
                names.append(v.name)
        vals = {n: rng.dy(-8, 8) for n in names}
        if i % 9 == 4 and elems:
            vals.pop(elems[rng.randrange(len(elems))].name)   # a missing key
        s = Solution(status=SolverStatus.OPTIMAL, values=dict(vals))
        try:
            got = s[h]
            if isinstance(h, MatrixVariable):
                text = "(" + " ".join("(" + " ".join(rat(float(v)) for v in row) + ")" for row in got) + ")"
                ok = got.shape == (h.rows, h.cols) and all(
                    got[a][b] == vals[h[a, b].name] for a in range(h.rows) for b in range(h.cols))
            elif isinstance(h, VectorVariable):
                text = "(" + " ".join(rat(float(v)) for v in got) + ")"
                ok = got.shape == (len(h),) and all(got[a] == vals[h[a].name] for a in range(len(h)))
            else:
                text = rat(float(got))
                ok = got == vals[h.name]
            chan = accessor_channels(s, h, vals, r)
            if not ok or chan:
                rep.oracle_failures.append({"what": "; ".join((["Solution[handle] differs from values[element.name] / wrong shape"]
                                                               if not ok else []) + chan)[:400],
                                            "kind_of_case": "getitem", "recipe": r, "values": vals, "got": text})
        except KeyError:
            text = "raise:KeyError"
            if all(v.name in vals for v in elems):
                rep.oracle_failures.append({"what": "Solution[handle] raised KeyError although every element has a value",
                                            "kind_of_case": "getitem", "recipe": r, "values": vals})
            elif s.get(h, "absent") != "absent" or s.get(h) is not None:
                rep.oracle_failures.append({"what": "Solution.get(handle, default) does not return the default for a missing value",
                                            "kind_of_case": "getitem", "recipe": r, "values": vals})
        vt = " ".join(f"({qs(k)} {rat(v)})" for k, v in vals.items())
        lines.append(f"getitem ({vt}) {recipe_text(r)}")
        metas.append((r, text))
    outs = run_lean_unit(lines)
    rep.evaluations += len(lines)
    for (r, text), model in zip(metas, outs):
        k = "getitem:" + r[0]
        rep.histogram[k] = rep.histogram.get(k, 0) + 1
        if text != model:
            rep.corr_mismatches.append({"case": {"getitem": r}, "impl": text[:300], "model": model[:300]})
        elif not text.startswith("raise"):
            rep.nontrivial.add(hash(("getitem", r)))


def handle_cases(rep, recs):
    lines = [f"handle {recipe_text(r)}" for r in recs]
    outs = run_lean_unit(lines)
    rep.evaluations += len(lines)
    for r, model in zip(recs, outs):
        text = real_describe(r)
        k = "route:" + r[0] + (":raise" if text.startswith("raise") else "")
        rep.histogram[k] = rep.histogram.get(k, 0) + 1
        if text != model:
            rep.corr_mismatches.append({"case": {"handle": r}, "impl": text[:400], "model": model[:400]})
        elif not text.startswith("raise"):
            rep.nontrivial.add(hash(("handle", r)))


# ----------------------------------------------------------------------------- objective value / keys oracles


def stub_consistency(rep, metas):
    """on the stub tables the stub honours the solver contract (fun = ±objective at x), so the
    reported objective value must equal the user's objective at the reported values — exactly"""
    for meta, P, text, info in metas:
        sol = info.get("solution")
        if sol is None or not sol.values or sol.objective_value is None:
            continue
        if "(linprog " in text and not meta.get("contract", False):
            continue
        names = [v.name for v in P.variables]
        if list(sol.values) != names:
            rep.oracle_failures.append({"what": "keys of values differ from the problem's variable names",
                                        "kind_of_case": meta.get("table", "stub"), "case": meta, "keys": list(sol.values)})
            continue
        want = float(P.objective.evaluate(sol.values))
        if want != sol.objective_value:
            rep.oracle_failures.append({"what": "objective_value differs from the objective at the reported values",
                                        "kind_of_case": meta.get("table", "stub"), "case": meta, "want": want,
                                        "got": sol.objective_value, "values": dict(sol.values)})


def lp_contract_rows():
    """LP stub rows whose result honours linprog's contract fun = c'·x (c' = sign-adjusted cost)"""
    specs = []
    for sense in ("min", "max"):
        for const in (0.0, 5.0, -2.5):
            specs.append({"vars": [["x", 0.0, None, "continuous"], ["y", 0.0, 3.0, "continuous"], ["z10", -1.0, 1.0, "continuous"]],
                          "sense": sense, "obj": [[2, [[0, 1]]], [-3, [[1, 1]]], [0.5, [[2, 1]]], [const, []]],
                          "cons": [[[[1, [[0, 1]]], [1, [[1, 1]]]], "<=", 4.0]]})
    rows = []
    for sp in specs:
        sign = -1.0 if sp["sense"] == "max" else 1.0
        for x in ([1.0, 2.0, 0.5], [0.0, 0.0, 0.0], [4.0, 0.0, -1.0], [0.25, 3.0, 1.0]):
            # problem.variables order is x, y, z10 (natural sort)
            fun = sign * (2 * x[0] - 3 * x[1] + 0.5 * x[2])
            for success, status in ((True, 0), (False, 1), (False, 4)):
                for method in (None, "highs-ds"):
                    rows.append((sp, method, base.LRes(success, status, x, fun, 4)))
    return rows


def run_lp_contract_table(rep):
    lines, metas = [], []
    for i, (sp, method, lr) in enumerate(lp_contract_rows()):
        P = base.build_problem(sp)[0]
        kind = "solve" if i % 2 else "solve-lp"
        m = method if kind == "solve-lp" else (method or "auto")
        lines.append(base.model_line(kind, P, m, False, True, None, base.DUMMY_RES, base.DUMMY_RES, lr, None))
        text, info = base.observe(P, kind, m, False, True, None, base.DUMMY_RES, base.DUMMY_RES, lr)
        metas.append(({"table": "lpcontract", "spec": sp, "kind": kind, "method": m, "lres": lr.js(), "contract": True},
                      P, text, info))
    outs = run_lean_unit(lines)
    rep.evaluations += len(lines)
    for (meta, P, text, info), model in zip(metas, outs):
        rep.histogram["lpcontract"] = rep.histogram.get("lpcontract", 0) + 1
        if text != model:
            rep.corr_mismatches.append({"case": meta, "impl": text[:600], "model": model[:600]})
        else:
            rep.nontrivial.add(hash(("lpc", str(meta["lres"]), meta["spec"]["sense"], str(meta["spec"]["obj"][-1]), meta["kind"])))
    return metas


def check_consistent(spec, method, P, sol):
    """real solves: objective value vs objective at values; keys; (no feasibility claim here)"""
    if not sol.values or sol.objective_value is None:
        return None
    names = [v.name for v in P.variables]
    if list(sol.values) != names:
        return {"what": "keys of values differ from the problem's variable names", "keys": list(sol.values), "names": names}
    if not all(math.isfinite(v) for v in sol.values.values()) or not math.isfinite(sol.objective_value):
        return None
    want = float(P.objective.evaluate(sol.values))
    ind = base.poly_eval(spec["obj"], [sol.values[n] for n, *_ in spec["vars"]]) if all(
        n in sol.values for n, *_ in spec["vars"]) else want
    scale = 1.0 + sum(abs(m[0]) * math.prod(abs(sol.values[spec["vars"][vi][0]]) ** p for vi, p in m[1])
                      for m in spec["obj"] if m[0] != "exp" and all(spec["vars"][vi][0] in sol.values for vi, _ in m[1]))
    if abs(want - sol.objective_value) > 1e-7 * scale or abs(ind - sol.objective_value) > 1e-7 * scale:
        return {"what": "objective_value differs from the objective evaluated at the reported values",
                "want": want, "independent": ind, "got": sol.objective_value, "values": dict(sol.values)}
    return None


# ----------------------------------------------------------------------------- LP objectives with hidden constants

LP_ROOT_FORMS = ["c@(x+d)", "c@(x+arr)", "c@(k*x-arr)", "(x+d).sum()", "x.sum()+d", "c@x+d", "c@(x-arr)+d", "(2*x-arr).sum()",
                 "c@(arr-x)"]
LP_ALL_METHODS = ["auto", "linprog", "highs", "highs-ds", "highs-ipm"]


def lp_root_case(form, sense, method, data):
    """a linear objective whose constant term hides inside the *elements* of a vector expression under a
    LinearCombination / VectorSum / sum root; -> (problem, offset the optimum must include)"""
    from optyx import Problem, VectorVariable

    n = len(data["c"])
    x = VectorVariable("x", n, lb=data["lb"], ub=data["ub"])
    c, arr, d, k = np.array(data["c"]), np.array(data["arr"]), data["d"], data["k"]
    obj = {"c@(x+d)": lambda: c @ (x + d),
           "c@(x+arr)": lambda: c @ (x + arr),
           "c@(k*x-arr)": lambda: c @ (k * x - arr),
           "(x+d).sum()": lambda: (x + d).sum(),
           "x.sum()+d": lambda: x.sum() + d,
           "c@x+d": lambda: c @ x + d,
           "c@(x-arr)+d": lambda: c @ (x - arr) + d,
           "(2*x-arr).sum()": lambda: (2.0 * x - arr).sum(),
           "c@(arr-x)": lambda: c @ (arr - x)}[form]()
    P = Problem()
    P.minimize(obj) if sense == "min" else P.maximize(obj)
    P.subject_to(x.sum() <= data["cap"])
    return P


def lp_root_check(case):
    P = lp_root_case(case["form"], case["sense"], case["method"], case["data"])
    with warnings.catch_warnings():
        warnings.simplefilter("ignore")
        try:
            sol = P.solve(method=case["method"])
        except Exception as e:  # noqa: BLE001
            # e.g. NonLinearError: sums of vector expressions are conservatively classified non-linear
            # (C04 allows over-reporting); a refusal to solve is not an inconsistent answer
            return None, "raise:" + type(e).__name__
    if not sol.values or sol.objective_value is None:
        return None, sol.status.name
    want = float(P.objective.evaluate(sol.values))
    # independent value of the same affine function
    d = case["data"]
    xs = [sol.values[f"x[{i}]"] for i in range(len(d["c"]))]
    c, arr, dd, k = d["c"], d["arr"], d["d"], d["k"]
    ind = {"c@(x+d)": sum(ci * (xi + dd) for ci, xi in zip(c, xs)),
           "c@(x+arr)": sum(ci * (xi + ai) for ci, xi, ai in zip(c, xs, arr)),
           "c@(k*x-arr)": sum(ci * (k * xi - ai) for ci, xi, ai in zip(c, xs, arr)),
           "(x+d).sum()": sum(xi + dd for xi in xs),
           "x.sum()+d": sum(xs) + dd,
           "c@x+d": sum(ci * xi for ci, xi in zip(c, xs)) + dd,
           "c@(x-arr)+d": sum(ci * (xi - ai) for ci, xi, ai in zip(c, xs, arr)) + dd,
           "(2*x-arr).sum()": sum(2 * xi - ai for xi, ai in zip(xs, arr)),
           "c@(arr-x)": sum(ci * (ai - xi) for ci, xi, ai in zip(c, xs, arr))}[case["form"]]
    scale = 1.0 + abs(want) + sum(abs(ci) * (abs(xi) + abs(ai) + abs(dd)) for ci, xi, ai in zip(c, xs, arr))
    if abs(want - sol.objective_value) > 1e-8 * scale or abs(ind - sol.objective_value) > 1e-8 * scale:
        return {"what": "objective_value differs from the objective evaluated at the reported values",
                "objective_value": sol.objective_value, "objective_at_values": want, "independent": ind,
                "values": dict(sol.values)}, sol.status.name
    return None, sol.status.name


def run_lp_root_forms(rep, rng, thorough):
    for form in LP_ROOT_FORMS:
        for sense in ("min", "max"):
            for method in LP_ALL_METHODS:
                for rep_i in range(3 if thorough else 1):
                    n = rng.randint(2, 4)
                    csc = COST_SCALES[(len(form) + len(method) + rep_i + (sense == "max")) % len(COST_SCALES)]
                    data = {"c": [rng.choice([1.0, 2.0, -1.0, 0.5, 3.0, -2.0]) * (csc if csc != "mixed" else (1e-8 if j % 2 else 1e7))
                                  for j in range(n)],
                            "arr": [rng.choice([1.0, -2.0, 0.5, 4.0, -0.25]) for _ in range(n)],
                            "d": rng.choice([1.0, -3.0, 0.5, 2.5]), "k": rng.choice([2.0, -1.0, 0.5]),
                            "lb": rng.choice([0.0, -1.0]), "ub": rng.choice([2.0, 3.0]), "cap": rng.choice([2.0, 3.5, 5.0])}
                    case = {"form": form, "sense": sense, "method": method, "data": data}
                    bad, status = lp_root_check(case)
                    rep.evaluations += 1
                    tag = f"lp-root:{form}:{status}"
                    rep.histogram[tag] = rep.histogram.get(tag, 0) + 1
                    if status == "OPTIMAL":
                        rep.nontrivial.add(hash(("lproot", form, sense, method, str(data))))
                    if bad is not None:
                        bad.update({"kind_of_case": "lp-root", "case": case})
                        rep.oracle_failures.append(bad)


# ----------------------------------------------------------------------------- start points (NLP route)

GRADIENT_METHODS = ["auto", "L-BFGS-B", "BFGS", "CG", "TNC", "SLSQP", "trust-constr", "Newton-CG"]
DERIVATIVE_FREE = ["Nelder-Mead", "Powell", "COBYLA"]
START_KINDS = ["default", "optimum", "previous", "corner", "other"]


def start_problem(data):
    """±(c0 + Σ aᵢ (xᵢ − tᵢ)²): convex when minimised, concave when maximised; optional box and an optional
    single-variable constraint; -> (problem, variables, known optimum point, known optimal value)"""
    from optyx import Problem, Variable

    n = len(data["t"])
    vs = [Variable(f"s{i}", lb=data["lb"][i], ub=data["ub"][i]) for i in range(n)]
    body = data["c0"]
    for i in range(n):
        body = body + data["a"][i] * (vs[i] - data["t"][i]) ** 2
    P = Problem()
    if data["sense"] == "min":
        P.minimize(body)
    else:
        P.maximize(-1.0 * body if data["negate_by_mul"] else -body)
    lo = [(-math.inf if b is None else b) for b in data["lb"]]
    hi = [(math.inf if b is None else b) for b in data["ub"]]
    con = data.get("con")
    if con is not None:
        i, sense, u = con
        P.subject_to(vs[i] <= u if sense == "<=" else vs[i] >= u)
        if sense == "<=":
            hi[i] = min(hi[i], u)
        else:
            lo[i] = max(lo[i], u)
    xopt = [min(max(data["t"][i], lo[i]), hi[i]) for i in range(n)]
    fbody = data["c0"] + sum(data["a"][i] * (xopt[i] - data["t"][i]) ** 2 for i in range(n))
    return P, vs, xopt, (fbody if data["sense"] == "min" else -fbody)


def start_point(kind, data, vs, xopt, prev):
    if kind == "default":
        return None
    if kind == "optimum":
        return list(xopt)
    if kind == "previous":
        return None if prev is None else [prev[v.name] for v in vs]
    if kind == "corner":
        return [(v.lb if v.lb is not None else (v.ub if v.ub is not None else data["t"][i] + 1.0)) for i, v in enumerate(vs)]
    return [min(max(data["t"][i] + data["shift"][i], -1e9 if v.lb is None else v.lb), 1e9 if v.ub is None else v.ub)
            for i, v in enumerate(vs)]


def start_case(data):
    """-> (failure dict | None, tag)"""
    P, vs, xopt, fopt = start_problem(data)
    prev = None
    with warnings.catch_warnings(), np.errstate(all="ignore"):
        warnings.simplefilter("ignore")
        try:
            if data["start"] == "previous":
                first = P.solve(method=data["method"])
                prev = dict(first.values) if first.values else None
            x0 = start_point(data["start"], data, vs, xopt, prev)
            kw = {} if x0 is None else {"x0": np.array(x0, dtype=float)}
            sol = P.solve(method=data["method"], **kw)
        except Exception as e:  # noqa: BLE001
            return None, "raise:" + type(e).__name__
    if not sol.values or sol.objective_value is None:
        return None, sol.status.name
    names = [v.name for v in P.variables]
    if list(sol.values) != names:
        return {"what": "keys of values differ from the problem's variable names", "keys": list(sol.values)}, sol.status.name
    xs = [sol.values[v.name] for v in vs]
    if not all(math.isfinite(v) for v in xs) or not math.isfinite(sol.objective_value):
        return None, sol.status.name + ":nonfinite"
    want = float(P.objective.evaluate(sol.values))
    body = data["c0"] + sum(data["a"][i] * (xs[i] - data["t"][i]) ** 2 for i in range(len(xs)))
    ind = body if data["sense"] == "min" else -body
    scale = 1.0 + abs(data["c0"]) + sum(data["a"][i] * (abs(xs[i]) + abs(data["t"][i])) ** 2 for i in range(len(xs)))
    if abs(want - sol.objective_value) > 1e-7 * scale or abs(ind - sol.objective_value) > 1e-7 * scale:
        return {"what": "objective_value differs from the objective evaluated at the reported values",
                "objective_value": sol.objective_value, "objective_at_values": want, "independent": ind,
                "values": dict(sol.values), "status": sol.status.name}, sol.status.name
    # the known optimum is only demanded of gradient-based methods: SciPy's simplex / direction-set methods
    # report success at non-optimal points when the start lies on (or 1e-4 from) a bound — solver quality (C09)
    if sol.status.name == "OPTIMAL" and data["method"] not in DERIVATIVE_FREE and abs(sol.objective_value - fopt) > 1e-3 * scale:
        return {"what": "status OPTIMAL but the objective value is not the known optimum of this separable quadratic",
                "objective_value": sol.objective_value, "known_optimum": fopt, "known_point": xopt,
                "values": dict(sol.values)}, sol.status.name
    return None, sol.status.name


def run_start_points(rep, rng, thorough):
    """start-point family × sense × method class × box / constraint: default start, x0 = the optimum,
    x0 = the previous solution (second solve of the same Problem), x0 on a corner of the box, x0 elsewhere"""
    n_cases = 2500 if thorough else 500
    for i in range(n_cases):
        n = rng.randint(1, 3)
        sense = rng.choice(["min", "max"])
        symmetric = rng.random() < 0.4         # optimum at the origin = default start of unbounded variables
        t = [0.0] * n if symmetric else [rng.dy(-2, 2) for _ in range(n)]
        box = rng.choice(["none", "none", "inside", "on-bound", "outside", "one-sided"])
        lb, ub = [], []
        for j in range(n):
            if box == "none":
                lb.append(None); ub.append(None)
            elif box == "inside":
                lb.append(t[j] - rng.choice([1.0, 2.0, 0.5])); ub.append(t[j] + rng.choice([1.0, 3.0]))
            elif box == "on-bound":
                lb.append(t[j]); ub.append(t[j] + 2.0)
            elif box == "outside":
                lb.append(t[j] + 0.5); ub.append(t[j] + 2.5)
            else:
                lb.append(t[j] - 1.0); ub.append(None)
        con = None
        c = rng.random()
        if c < 0.15:
            con = [0, "<=", t[0] + 4.0]      # inactive
        elif c < 0.3:
            con = [0, "<=", t[0] - 0.5] if (lb[0] is None or lb[0] <= t[0] - 0.5) else [0, ">=", (lb[0] or 0.0)]
        method = rng.choice(GRADIENT_METHODS) if i % 4 != 3 else rng.choice(DERIVATIVE_FREE)
        data = {"sense": sense, "t": t, "a": [rng.choice([1.0, 2.0, 0.5, 4.0]) for _ in range(n)],
                "c0": rng.choice([10.0, -3.0, 2.5, 7.0, -0.5]), "lb": lb, "ub": ub, "con": con, "method": method,
                "start": START_KINDS[(i // 4) % len(START_KINDS)], "shift": [rng.choice([1.0, -1.5, 0.25]) for _ in range(n)],
                "negate_by_mul": bool(rng.randint(0, 1))}
        bad, tag = start_case(data)
        rep.evaluations += 1
        cls = "derivative-free" if method in DERIVATIVE_FREE else "gradient"
        k = f"start:{data['start']}:{sense}:{cls}:{'con' if con else 'nocon'}:{tag}"
        rep.histogram[k] = rep.histogram.get(k, 0) + 1
        if tag == "OPTIMAL":
            rep.nontrivial.add(hash(("start", str(data))))
        if bad is not None:
            bad.update({"kind_of_case": "start", "data": data})
            rep.oracle_failures.append(bad)


# ----------------------------------------------------------------------------- objective forms × types × magnitudes

COST_SCALES = [1.0, 1e-9, 1e7, "mixed", 1.0, 1e-6, 1e12, 3e-5, 2.5e6]
ARRAY_KINDS = ["float64", "list", "int64", "float32", "strided", "reversed", "fortran-col", "int8", "tuple"]
SCALAR_KINDS = ["float", "int", "np.float64", "np.float32", "np.int64", "0-d", "bool"]
OBJ_FORMS = ["c@(x+d)", "c@x+d", "-(c@x)+d", "2*(x.sum())+d", "(c@x)/2+d", "d-x.sum()", "-(x.sum())-d", "c@(d-x)",
             "c@x+exp0*d", "c@x+p", "p*(x.sum())+d", "c@x+0*x0+x0**0", "c@x[::-1]+d", "x[::2].sum()+d", "x[1:].sum()-d",
             "M.sum()+d", "S.sum()+d", "trace(S)+d", "M[0,:].sum()+d", "M.T[:,0].sum()-d", "c@M.diagonal()+d",
             "deep-450", "c@x+quad"]


def typed_array(vals, kind):
    a = np.array(vals, dtype=float)
    if kind == "list":
        return [float(v) for v in vals]
    if kind == "tuple":
        return tuple(float(v) for v in vals)
    if kind == "int64":
        return np.array(vals, dtype=np.int64)
    if kind == "int8":
        return np.array(vals, dtype=np.int8)
    if kind == "float32":
        return np.array(vals, dtype=np.float32)
    if kind == "strided":
        big = np.zeros(2 * len(vals)); big[::2] = a
        return big[::2]
    if kind == "reversed":
        return a[::-1].copy()[::-1]
    if kind == "fortran-col":
        return np.asfortranarray(np.column_stack([a, a + 1.0]))[:, 0]
    return a


def typed_scalar(v, kind):
    return {"float": float, "int": lambda t: int(t), "np.float64": np.float64, "np.float32": np.float32,
            "np.int64": lambda t: np.int64(int(t)), "0-d": lambda t: np.array(float(t)), "bool": lambda t: bool(t)}[kind](v)


def objective_case(data):
    """-> (problem, truth(values) -> float, [(array handed to optyx, pristine copy)])"""
    from optyx import MatrixVariable, Parameter, Problem, VectorVariable
    from optyx.core.expressions import Constant
    from optyx.core.functions import exp

    n, form = data["n"], data["form"]
    integral = data["akind"] in ("int64", "int8") or data["skind"] in ("int", "np.int64", "bool")
    cv = [float(int(v)) for v in data["c"]] if data["akind"] in ("int64", "int8") else list(data["c"])
    dv = float(bool(data["d"])) if data["skind"] == "bool" else float(int(data["d"])) if data["skind"] in ("int", "np.int64") else float(data["d"])
    if data["skind"] == "np.float32":
        dv = float(np.float32(dv))
    if data["akind"] == "float32":
        cv = [float(np.float32(v)) for v in cv]
    c = typed_array(cv, data["akind"])
    d = typed_scalar(dv, data["skind"])
    keep = [(c, np.array(c, dtype=float).copy())] if isinstance(c, np.ndarray) else []
    x = VectorVariable("x", n, lb=data["lb"], ub=data["ub"])
    M = MatrixVariable("M", 2, 2, lb=-1.0, ub=2.0)
    S = MatrixVariable("S", 2, 2, lb=-1.0, ub=2.0, symmetric=True)
    p = Parameter("p", data["p"])
    xs = lambda v: [v.get(f"x[{i}]", float("nan")) for i in range(n)]  # noqa: E731  (views use a subset)
    dot = lambda a, b: sum(ai * bi for ai, bi in zip(a, b))  # noqa: E731
    forms = {
        "c@(x+d)": (lambda: c @ (x + d), lambda v: dot(cv, [t + dv for t in xs(v)])),
        "c@x+d": (lambda: c @ x + d, lambda v: dot(cv, xs(v)) + dv),
        "-(c@x)+d": (lambda: -(c @ x) + d, lambda v: -dot(cv, xs(v)) + dv),
        "2*(x.sum())+d": (lambda: 2 * (x.sum()) + d, lambda v: 2 * sum(xs(v)) + dv),
        "(c@x)/2+d": (lambda: (c @ x) / 2 + d, lambda v: dot(cv, xs(v)) / 2 + dv),
        "d-x.sum()": (lambda: d - x.sum(), lambda v: dv - sum(xs(v))),
        "-(x.sum())-d": (lambda: -(x.sum()) - d, lambda v: -sum(xs(v)) - dv),
        "c@(d-x)": (lambda: c @ (d - x), lambda v: dot(cv, [dv - t for t in xs(v)])),
        "c@x+exp0*d": (lambda: c @ x + exp(Constant(0.0)) * d, lambda v: dot(cv, xs(v)) + dv),
        "c@x+p": (lambda: c @ x + p, lambda v: dot(cv, xs(v)) + float(p.value)),
        "p*(x.sum())+d": (lambda: p * (x.sum()) + d, lambda v: float(p.value) * sum(xs(v)) + dv),
        "c@x+0*x0+x0**0": (lambda: c @ x + 0 * x[0] + x[0] ** 0, lambda v: dot(cv, xs(v)) + 1.0),
        "c@x[::-1]+d": (lambda: c @ x[::-1] + d, lambda v: dot(cv, xs(v)[::-1]) + dv),
        "x[::2].sum()+d": (lambda: x[::2].sum() + d, lambda v: sum(xs(v)[::2]) + dv),
        "x[1:].sum()-d": (lambda: x[1:].sum() - d, lambda v: sum(xs(v)[1:]) - dv),
        "M.sum()+d": (lambda: M.sum() + d, lambda v: sum(v[f"M[{i},{j}]"] for i in range(2) for j in range(2)) + dv),
        "S.sum()+d": (lambda: S.sum() + d, lambda v: v["S[0,0]"] + 2 * v["S[0,1]"] + v["S[1,1]"] + dv),
        "trace(S)+d": (lambda: S.trace() + d, lambda v: v["S[0,0]"] + v["S[1,1]"] + dv),
        "M[0,:].sum()+d": (lambda: M[0, :].sum() + d, lambda v: v["M[0,0]"] + v["M[0,1]"] + dv),
        "M.T[:,0].sum()-d": (lambda: M.T[:, 0].sum() - d, lambda v: v["M[0,0]"] + v["M[0,1]"] - dv),
        "c@M.diagonal()+d": (lambda: np.array(cv[:2]) @ M.diagonal() + d, lambda v: cv[0] * v["M[0,0]"] + cv[1] * v["M[1,1]"] + dv),
        "c@x+quad": (lambda: c @ x + d + (x[0] - 0.25) ** 2, lambda v: dot(cv, xs(v)) + dv + (v["x[0]"] - 0.25) ** 2),
    }
    if form == "deep-450":
        e = x[0] * 1.0
        for i in range(450):
            e = e + cv[i % n] * x[i % n] + 0.25
        truth = lambda v: v["x[0]"] + sum(cv[i % n] * v[f"x[{i % n}]"] + 0.25 for i in range(450))  # noqa: E731
    else:
        build, truth = forms[form]
        e = build()
    P = Problem()
    P.minimize(e) if data["sense"] == "min" else P.maximize(e)
    return P, truth, keep, p


def objective_check(data):
    try:
        P, truth, keep, p = objective_case(data)
    except Exception as e:  # noqa: BLE001 - an operand type the API refuses is not a C07 matter
        return None, "unbuildable:" + type(e).__name__
    with warnings.catch_warnings(), np.errstate(all="ignore"):
        warnings.simplefilter("ignore")
        try:
            sol = P.solve(method=data["method"])
        except Exception as e:  # noqa: BLE001
            return None, "raise:" + type(e).__name__
    for arr, copy in keep:
        if not np.array_equal(np.asarray(arr, dtype=float), copy):
            return {"what": "a user-supplied array was modified by the solve", "now": np.asarray(arr).tolist(),
                    "before": copy.tolist()}, sol.status.name
    if not sol.values or sol.objective_value is None:
        return None, sol.status.name
    if list(sol.values) != [v.name for v in P.variables]:
        return {"what": "keys of values differ from the problem's variable names", "keys": list(sol.values)}, sol.status.name
    vals = sol.values
    if not all(math.isfinite(t) for t in vals.values()):
        return None, sol.status.name + ":nonfinite"
    ind = float(truth(vals))
    want = float(P.objective.evaluate(vals))
    scale = 1.0 + abs(ind) + abs(float(data["d"])) * (1 + sum(abs(t) for t in data["c"])) + sum(
        abs(t) for t in data["c"]) * (1 + max(abs(t) for t in vals.values()))
    if abs(ind - sol.objective_value) > 1e-8 * scale or abs(want - sol.objective_value) > 1e-8 * scale:
        return {"what": "objective_value differs from the objective at the reported values",
                "objective_value": sol.objective_value, "independent": ind, "objective.evaluate(values)": want,
                "values": dict(vals), "status": sol.status.name}, sol.status.name
    return None, sol.status.name


def run_objective_forms(rep, rng, thorough):
    """objective shape (wrappers around reduction roots, constant-valued sub-expressions, parameters, views, matrices,
    symmetric matrices, a 450-term chain) × array type × scalar type × magnitude of the constant × sense × method"""
    mags = [0.0, 1.0, -3.0, 2.5, 1e-12, -1e-9, 1e-7, 1e8, -1e16, 123456.0]
    methods = LP_ALL_METHODS + ["SLSQP", "L-BFGS-B"]
    i = 0
    for form in OBJ_FORMS:
        for rep_i in range(80 if thorough else 20):
            i += 1
            n = rng.randint(2, 4)
            akind = ARRAY_KINDS[i % len(ARRAY_KINDS)]
            skind = SCALAR_KINDS[(i // 2) % len(SCALAR_KINDS)]
            d = mags[(i // 3) % len(mags)]
            if skind in ("int", "np.int64", "bool") and abs(d) < 1.0 and d != 0.0:
                d = 7.0
            cs = [rng.choice([1.0, 2.0, -1.0, 0.5, 3.0, -2.0, 100.0]) for _ in range(n)]
            # magnitude of the cost vector: all tiny / all huge / mixed / ordinary (with a non-zero constant alongside)
            cscale = COST_SCALES[(i // 5) % len(COST_SCALES)]
            if akind == "int8" or (akind == "int64" and (cscale == "mixed" or cscale < 1.0)):
                cscale = 1.0
            cs = [v * (cscale if cscale != "mixed" else (1e-8 if j % 2 else 1e7)) for j, v in enumerate(cs)]
            if cscale != 1.0 and d == 0.0:
                d = 1250.0
            data = {"form": form, "n": n, "c": cs, "d": d, "cscale": cscale,
                    "akind": akind, "skind": skind, "p": rng.choice([0.0, 1.0, -2.0, 0.5]),
                    "lb": rng.choice([0.0, -1.0]), "ub": rng.choice([2.0, 3.0]), "sense": "max" if i % 2 else "min",
                    "method": methods[(i // 2) % len(methods)] if form not in ("c@x+quad",) else ["auto", "SLSQP", "L-BFGS-B", "trust-constr"][i % 4]}
            bad, status = objective_check(data)
            rep.evaluations += 1
            tag = f"objform:{form}:{status}"
            rep.histogram[tag] = rep.histogram.get(tag, 0) + 1
            rep.histogram[f"objform-types:{akind}/{skind}"] = rep.histogram.get(f"objform-types:{akind}/{skind}", 0) + 1
            if status == "OPTIMAL":
                rep.nontrivial.add(hash(("objform", str(data))))
            if bad is not None:
                bad.update({"kind_of_case": "objform", "data": data})
                rep.oracle_failures.append(bad)


# ----------------------------------------------------------------------------- histories on one problem


def value_history(data):
    """one Problem object through a history of solves, parameter updates, bound edits and sense flips of the SAME
    objective expression object; after every solve the reported objective value must be the user's objective in its
    current orientation, at the current parameter values, at the reported values.  -> (failure | None, n solves)"""
    from optyx import Parameter, Problem, VectorVariable

    n = data["n"]
    x = VectorVariable(data["name"], n, lb=-2.0, ub=3.0)
    p, q = Parameter("p", data["p0"]), Parameter("q", data["q0"])
    c = np.array(data["c"])
    e = p * (c @ x) + q + 1.5
    if data["quadratic"]:
        e = e + data["a"] * (x[0] - 0.5) ** 2
    P = Problem()
    sense = "min"
    P.minimize(e)
    P.subject_to(x.sum() <= data["cap"])
    solves = 0
    for op in data["ops"]:
        if op[0] == "set":
            (p if op[1] == "p" else q).set(op[2])
        elif op[0] == "flip":
            sense = "max" if sense == "min" else "min"
            P.maximize(e) if sense == "max" else P.minimize(e)
        elif op[0] == "bound":
            v = x[op[1] % n]
            if op[2] == "ub":
                v.ub = op[3]
            else:
                v.lb = op[3]
        elif op[0] == "rebuild":
            # drop the model and rebuild one with the same names and different numbers
            x = VectorVariable(data["name"], n, lb=-2.0, ub=3.0)
            c = c[::-1].copy()
            e = p * (c @ x) + q + op[1]
            P = Problem()
            P.minimize(e) if sense == "min" else P.maximize(e)
            P.subject_to(x.sum() <= data["cap"])
            data = dict(data, quadratic=False, rebuilt_const=op[1])
        else:
            with warnings.catch_warnings(), np.errstate(all="ignore"):
                warnings.simplefilter("ignore")
                try:
                    sol = P.solve(method=op[1])
                except Exception:  # noqa: BLE001 - e.g. NonLinearError for an LP method on the quadratic variant
                    continue
            solves += 1
            if not sol.values or sol.objective_value is None:
                continue
            xs = [sol.values.get(f"{data['name']}[{i}]") for i in range(n)]
            if list(sol.values) != [v.name for v in P.variables] or any(t is None for t in xs):
                return {"what": "keys of values differ from the problem's variable names", "keys": list(sol.values)}, solves
            const = data.get("rebuilt_const", 1.5)
            ind = float(p.value) * sum(ci * xi for ci, xi in zip(c, xs)) + float(q.value) + const
            if data["quadratic"]:
                ind += data["a"] * (xs[0] - 0.5) ** 2
            scale = 1.0 + abs(ind) + abs(float(p.value)) * sum(abs(ci) * 3.0 for ci in c) + abs(float(q.value))
            want = float(P.objective.evaluate(sol.values))
            if abs(ind - sol.objective_value) > 1e-7 * scale or abs(want - sol.objective_value) > 1e-7 * scale:
                return {"what": "objective_value differs from the objective (current sense, current parameters) at the reported values",
                        "objective_value": sol.objective_value, "independent": ind, "objective.evaluate(values)": want,
                        "p": float(p.value), "q": float(q.value), "sense": sense, "after": op, "values": dict(sol.values)}, solves
            # a sense flip must flip the optimum: the maximiser of a linear objective over a box is not its minimiser
    return None, solves


def run_value_histories(rep, rng, thorough):
    lp = ["auto", "linprog", "highs", "highs-ds", "highs-ipm"]
    nlp = ["SLSQP", "trust-constr", "L-BFGS-B", "auto"]
    for i in range(400 if thorough else 60):
        quadratic = i % 3 == 0
        methods = (nlp if quadratic else lp + ["SLSQP", "L-BFGS-B"])
        ops = []
        for _ in range(rng.randint(4, 9)):
            r = rng.random()
            if r < 0.4:
                ops.append(["solve", rng.choice(methods)])
            elif r < 0.6:
                ops.append(["set", rng.choice(["p", "q"]), rng.choice([0.0, 1.0, -1.0, 2.5, -0.5, 1e-9, 1e8])])
            elif r < 0.75:
                ops.append(["flip"])
            elif r < 0.9:
                ops.append(["bound", rng.randint(0, 3), rng.choice(["lb", "ub"]), rng.choice([0.0, 1.0, -1.0, 2.0])])
            else:
                ops.append(["rebuild", rng.choice([0.0, -4.0, 7.25])])
        ops.append(["solve", rng.choice(methods)])
        data = {"n": rng.randint(2, 4), "name": rng.choice(["x", "x1", "w10"]), "c": [rng.choice([1.0, -2.0, 0.5, 3.0]) for _ in range(4)],
                "p0": rng.choice([1.0, 2.0, -1.0]), "q0": rng.choice([0.0, 5.0, -2.5]), "a": rng.choice([1.0, 2.0]),
                "cap": rng.choice([2.0, 4.0]), "quadratic": quadratic, "ops": ops}
        data["c"] = data["c"][:data["n"]]
        bad, solves = value_history(data)
        rep.evaluations += solves
        rep.histogram["history-solves"] = rep.histogram.get("history-solves", 0) + solves
        rep.nontrivial.add(hash(("hist", str(data))))
        if bad is not None:
            bad.update({"kind_of_case": "history", "data": data})
            rep.oracle_failures.append(bad)


# ----------------------------------------------------------------------------- parameter identity vs. parameter name
# A linear (optionally: + one convex quadratic term) model whose numbers are *slots*: plain floats or Parameter OBJECTS.
# Several DISTINCT Parameter objects may carry the SAME name (a helper called twice), the same object may fill several
# slots, names may be unique.  One Problem is solved, some objects are .set() (one of two same-named objects, both, a
# swap of their values, back to the first value), and it is solved again.  The judge keeps its OWN table of the value
# every object currently has (what the harness passed to the constructor / to set()) and derives from it
#   * the objective at the returned values (plain Python arithmetic), and
#   * the optimum of the current LP by a direct scipy.optimize.linprog call on harness-side arrays.
# Nothing is read back from optyx (no Parameter.value, no LPData, no cache).

PI_KINDS = ["objcoef", "concoef", "rhs", "const"]
PI_FORMS = {"p": (1.0, 0.0), "2*p": (2.0, 0.0), "-p": (-1.0, 0.0), "p+1": (1.0, 1.0), "p/2": (0.5, 0.0)}
PI_VALUES = [2.0, -1.0, 0.5, 3.0, -2.0, 1.0, 0.0, 4.0, -0.5, 1.5]
PI_NAMINGS = ["same", "same", "pairs", "unique", "shared-object"]
PI_LP_METHODS = ["auto", "linprog", "highs", "highs-ds", "highs-ipm"]
PI_NLP_METHODS = ["SLSQP", "auto", "SLSQP", "trust-constr"]


def pi_slot_value(slot, pvals):
    """the number a slot stands for, from the harness's own table of parameter values"""
    if slot[0] == "num":
        return float(slot[1])
    mul, add = PI_FORMS[slot[2]]
    return mul * float(pvals[slot[1]]) + add


def pi_slot_expr(slot, params):
    if slot[0] == "num":
        return float(slot[1])
    p = params[slot[1]]
    return {"p": lambda: p, "2*p": lambda: 2.0 * p, "-p": lambda: -p, "p+1": lambda: p + 1.0, "p/2": lambda: p / 2.0}[slot[2]]()


def pi_build(data):
    """-> (problem, variables, parameter objects)"""
    from optyx import Parameter, Problem, Variable

    n = data["n"]
    xs = [Variable(f"{data['vname']}{i}", lb=data["lb"][i], ub=data["ub"][i]) for i in range(n)]
    params = [Parameter(nm, v0) for nm, v0 in data["params"]]

    def lin(coefs, flip):
        e = None
        for i, sl in enumerate(coefs):
            if sl[0] == "num" and sl[1] == 0.0:
                continue
            c = pi_slot_expr(sl, params)
            t = xs[i] * c if (flip + i) % 2 else c * xs[i]
            e = t if e is None else e + t
        return xs[0] * 0.0 if e is None else e

    obj = lin(data["obj"], data["flip"])
    for sl in data["const"]:
        obj = obj + pi_slot_expr(sl, params)
    if data.get("quad"):
        a, t = data["quad"]
        obj = obj + a * (xs[0] - t) ** 2
    P = Problem()
    P.minimize(obj) if data["sense"] == "min" else P.maximize(obj)
    for k, con in enumerate(data["cons"]):
        lhs = lin(con["coef"], data["flip"] + k + 1)
        rhs = pi_slot_expr(con["rhs"], params)
        P.subject_to(lhs <= rhs if con["sense"] == "<=" else lhs >= rhs)
    return P, xs, params


def pi_reference(data, pvals):
    """the current LP solved by SciPy on harness-side numbers; -> optimum in the user's orientation | None"""
    from scipy.optimize import linprog

    sign = 1.0 if data["sense"] == "min" else -1.0
    c = [sign * pi_slot_value(sl, pvals) for sl in data["obj"]]
    A, b = [], []
    for con in data["cons"]:
        s = 1.0 if con["sense"] == "<=" else -1.0
        A.append([s * pi_slot_value(sl, pvals) for sl in con["coef"]])
        b.append(s * pi_slot_value(con["rhs"], pvals))
    res = linprog(c, A_ub=A or None, b_ub=b or None, bounds=list(zip(data["lb"], data["ub"])), method="highs")
    if res.status != 0:
        return None
    return sign * float(res.fun) + sum(pi_slot_value(sl, pvals) for sl in data["const"])


def param_identity_history(data):
    """-> (failure | None, number of judged solves)"""
    P, xs, params = pi_build(data)
    pvals = [float(v0) for _, v0 in data["params"]]          # the harness's own bookkeeping
    judged = 0
    for step, op in enumerate(data["ops"]):
        if op[0] == "set":
            params[op[1]].set(op[2])
            pvals[op[1]] = float(op[2])
            continue
        if op[0] == "swap":
            a, b = pvals[op[1]], pvals[op[2]]
            params[op[1]].set(b)
            params[op[2]].set(a)
            pvals[op[1]], pvals[op[2]] = b, a
            continue
        with warnings.catch_warnings(), np.errstate(all="ignore"):
            warnings.simplefilter("ignore")
            try:
                sol = P.solve(method=op[1])
            except Exception:  # noqa: BLE001 - e.g. NonLinearError: an LP method on a model the library calls non-linear
                # (a refusal is not an inconsistent answer); the history goes on through a general-purpose route
                try:
                    sol = P.solve(method=data.get("fallback", "SLSQP"))
                except Exception:  # noqa: BLE001
                    continue
        if not sol.values or sol.objective_value is None:
            continue
        names = [v.name for v in xs]
        if sorted(sol.values) != sorted(names) or list(sol.values) != [v.name for v in P.variables]:
            return {"what": "keys of values differ from the problem's variable names", "keys": list(sol.values),
                    "after": op, "step": step}, judged
        x = [float(sol.values[nm]) for nm in names]
        if not all(math.isfinite(t) for t in x) or not math.isfinite(sol.objective_value):
            continue
        judged += 1
        cs = [pi_slot_value(sl, pvals) for sl in data["obj"]]
        const = sum(pi_slot_value(sl, pvals) for sl in data["const"])
        ind = sum(ci * xi for ci, xi in zip(cs, x)) + const
        scale = 1.0 + sum(abs(ci) * max(abs(lo), abs(hi)) for ci, lo, hi in zip(cs, data["lb"], data["ub"])) + abs(const)
        if data.get("quad"):
            a, t = data["quad"]
            ind += a * (x[0] - t) ** 2
            scale += a * (max(abs(data["lb"][0]), abs(data["ub"][0])) + abs(t)) ** 2
        want = float(P.objective.evaluate(sol.values))
        if abs(ind - sol.objective_value) > 1e-7 * scale or abs(want - sol.objective_value) > 1e-7 * scale:
            return {"what": "objective_value differs from the objective (at the parameter values the caller has set) "
                            "evaluated at the reported values",
                    "objective_value": sol.objective_value, "by_hand": ind, "objective.evaluate(values)": want,
                    "parameter_values_set_by_caller": list(pvals), "values": dict(sol.values), "status": sol.status.name,
                    "after": op, "step": step}, judged
        if sol.status.name == "OPTIMAL" and not data.get("quad"):
            ref = pi_reference(data, pvals)
            if ref is not None and abs(ref - sol.objective_value) > 1e-3 * scale:
                return {"what": "status OPTIMAL but the objective value is not the optimum of the model at the parameter "
                                "values the caller has set (scipy.optimize.linprog on the same numbers)",
                        "objective_value": sol.objective_value, "linprog_optimum": ref,
                        "parameter_values_set_by_caller": list(pvals), "values": dict(sol.values),
                        "after": op, "step": step}, judged
    return None, judged


def pi_case(rng, i):
    """case i of the family: the positions of the first two parameter objects run through all pairs of
    {objective coefficient, constraint coefficient, right-hand side, constant term}; which of them is updated first,
    the naming scheme, equal / different first values, the expression form around the parameter, sense, route vary"""
    n = rng.randint(2, 4)
    m = rng.choice([1, 1, 2])
    kind_a, kind_b = PI_KINDS[i % 4], PI_KINDS[(i // 4) % 4]
    first_updated = (i // 16) % 2
    naming = rng.choice(PI_NAMINGS)
    equal_start = rng.random() < 0.65
    quad = None if rng.random() < 0.8 else [rng.choice([1.0, 2.0, 0.5]), rng.choice([0.5, -0.25, 1.0])]
    lb = [rng.choice([0.0, -1.0, 1.0]) for _ in range(n)]
    ub = [lo + rng.choice([2.0, 3.0, 5.0]) for lo in lb]
    num = lambda: ["num", rng.choice([1.0, 2.0, -1.0, 0.5, 3.0, -2.0])]  # noqa: E731
    obj = [num() for _ in range(n)]
    const = [["num", rng.choice([7.0, -2.5, 0.0, 1.25])]]
    cons = []
    for k in range(m):
        coef = [["num", rng.choice([1.0, 1.0, 2.0, 0.5, -1.0])] for _ in range(n)]
        sense = "<=" if rng.random() < 0.65 else ">="
        mid = sum(c[1] * (lo + hi) / 2.0 for c, lo, hi in zip(coef, lb, ub))
        cons.append({"coef": coef, "sense": sense, "rhs": ["num", mid + (1.0 if sense == "<=" else -1.0) * rng.choice([0.5, 1.0, 2.0])]})
    const.append(["num", 0.0])
    # free slots by kind; a slot is addressed by a path into (obj, const, cons)
    free = {"objcoef": [("obj", j) for j in range(n)], "const": [("const", 0), ("const", 1)],
            "concoef": [("coef", k, j) for k in range(m) for j in range(n)], "rhs": [("rhs", k) for k in range(m)]}

    def cell(path):
        if path[0] == "obj":
            return obj, path[1]
        if path[0] == "const":
            return const, path[1]
        if path[0] == "coef":
            return cons[path[1]]["coef"], path[2]
        return cons[path[1]], "rhs"

    n_par = rng.choice([2, 2, 3, 4])
    kinds = [kind_a, kind_b] + [rng.choice(PI_KINDS) for _ in range(n_par - 2)]
    params, placed = [], []
    base_name = rng.choice(["rate", "p", "cap", "k[0]", "x0"])
    for j, kind in enumerate(kinds):
        pool = free[kind] if free[kind] else free[[kk for kk in PI_KINDS if free[kk]][0]]
        cont, key = cell(pool.pop(rng.randrange(len(pool))))
        old = cont[key][1]
        form = rng.choice(["p", "p", "p", "2*p", "-p", "p+1", "p/2"])
        mul, add = PI_FORMS[form]
        if naming == "shared-object" and j >= 1 and rng.random() < 0.6:
            pidx = rng.randrange(len(params))                       # the SAME object in another slot
        else:
            name = {"same": base_name, "shared-object": base_name, "unique": f"{base_name}_{j}",
                    "pairs": base_name if j < 2 else base_name + "b"}[naming]
            same = [v for nm, v in params if nm == name]
            if same and equal_start:
                v0 = same[0]                                        # equal values at first
            elif kind == "const" or old == 0.0:
                v0 = rng.choice(PI_VALUES)
            else:
                v0 = (old - add) / mul                              # the slot keeps the number it had
            if same and not equal_start and v0 in same:
                v0 = v0 + 1.0
            params.append([name, float(v0)])
            pidx = len(params) - 1
        cont[key] = ["par", pidx, form]
        placed.append(pidx)
    lp_route = rng.random() < 0.7
    methods = PI_LP_METHODS if (lp_route and not quad) else PI_NLP_METHODS
    ops = [["solve", rng.choice(methods)]]
    for rnd in range(rng.randint(1, 3)):
        r = rng.random()
        tgt = placed[first_updated] if rnd == 0 else rng.choice(placed)
        if r < 0.6 or len(params) < 2:
            cur = params[tgt][1]
            ops.append(["set", tgt, rng.choice([v for v in PI_VALUES if v != cur])])
        elif r < 0.75:
            other = rng.choice([p for p in range(len(params)) if p != tgt])
            ops.append(["swap", tgt, other])
        elif r < 0.9:
            v = rng.choice(PI_VALUES)                                 # both of a pair, one after the other
            ops.append(["set", tgt, v])
            ops.append(["set", rng.choice(placed), rng.choice(PI_VALUES)])
        else:
            ops.append(["set", tgt, rng.choice(PI_VALUES)])
            ops.append(["solve", rng.choice(methods)])
            ops.append(["set", tgt, params[tgt][1]])                  # and back to the first value
        ops.append(["solve", rng.choice(methods) if rng.random() < 0.7 else ops[0][1]])
    return {"n": n, "vname": rng.choice(["x", "y1", "q"]), "lb": lb, "ub": ub, "sense": rng.choice(["min", "max"]),
            "flip": rng.randint(0, 1), "params": params, "obj": obj, "const": const, "cons": cons, "quad": quad, "ops": ops,
            "fallback": rng.choice(["SLSQP", "SLSQP", "auto"]),
            "naming": naming, "equal_start": equal_start, "positions": [kind_a, kind_b], "first_updated": first_updated}


def run_param_identity(rep, rng, thorough):
    """distinct Parameter objects with equal names (and the same object in several slots, and unique names) in every
    position of a linear model × solve / set-one-of-them / re-solve histories; judged on harness-side numbers"""
    for i in range(480 if thorough else 80):
        data = pi_case(rng, i)
        bad, judged = param_identity_history(data)
        rep.evaluations += judged
        tag = f"param-identity:{data['naming']}:{'+'.join(data['positions'])}"
        rep.histogram[tag] = rep.histogram.get(tag, 0) + judged
        if judged:
            rep.nontrivial.add(hash(("pi", str(data))))
        if bad is not None:
            bad.update({"kind_of_case": "param-identity", "data": data})
            rep.oracle_failures.append(bad)


def vm_case(data):
    """one problem written with vector / matrix handles; -> (status, list of failed look-up checks)"""
    from optyx import MatrixVariable, Problem, VectorVariable

    k, sym, tx, tm, method = data["k"], data["sym"], data["tx"], data["tm"], data["method"]
    x = VectorVariable("x", k, lb=-4.0, ub=4.0)
    M = MatrixVariable("M", 2, 2, lb=-3.0, ub=3.0, symmetric=sym)
    obj = sum((x[j] - tx[j]) ** 2 for j in range(k)) + sum((M[a, b] - tm[a][b]) ** 2 for a in range(2) for b in range(2))
    P = Problem().minimize(obj)
    if data["constrained"]:
        P.subject_to(x[0] + x[1] <= 1.0)
    with warnings.catch_warnings():
        warnings.simplefilter("ignore")
        sol = P.solve(method=method)
    if not sol.values:
        return sol.status.name, []
    fails = []
    views = [("x", x), ("x[1:]", x[1:]), ("x[::-1]", x[::-1]), ("M", M), ("M.T", M.T), ("M[0,:]", M[0, :]),
             ("M[:,1]", M[:, 1]), ("M.T[0:1,:]", M.T[0:1, :]), ("M.diagonal()", M.diagonal())]
    for name, h in views:
        got = sol[h]
        if isinstance(h, MatrixVariable):
            ok = got.shape == (h.rows, h.cols) and all(got[a][b] == sol.values[h[a, b].name]
                                                       for a in range(h.rows) for b in range(h.cols))
        else:
            ok = got.shape == (len(h),) and all(got[a] == sol.values[h[a].name] for a in range(len(h)))
        if not ok:
            fails.append(name)
    if not np.array_equal(sol[M.T], sol[M].T):
        fails.append("M.T vs transpose")
    if sym and sol[M][0][1] != sol[M][1][0]:
        fails.append("symmetric entries differ")
    if list(sol.values) != [v.name for v in P.variables]:
        fails.append("keys")
    if sol.status.name == "OPTIMAL" and not data["constrained"]:
        err = max(abs(sol[x][j] - tx[j]) for j in range(k))
        if err > 1e-3:
            fails.append(f"optimum misplaced by {err}")
    return sol.status.name, fails


def vector_matrix_solves(rep, rng, n):
    """real solves of problems written with vector / matrix handles; look-ups through views"""
    for i in range(n):
        k = rng.randint(2, 4)
        sym = i % 2 == 0
        tx = [rng.dy(-2, 2) for _ in range(k)]
        tm = [[rng.dy(-2, 2) for _ in range(2)] for _ in range(2)]
        if sym:
            tm[1][0] = tm[0][1]
        method = rng.choice(["auto", "SLSQP", "L-BFGS-B", "trust-constr"])
        constrained = i % 3 == 0
        if constrained and method == "L-BFGS-B":
            method = "SLSQP"
        data = {"k": k, "sym": sym, "tx": tx, "tm": tm, "method": method, "constrained": constrained}
        status, fails = vm_case(data)
        rep.evaluations += 1
        rep.histogram["vm-solve:" + status] = rep.histogram.get("vm-solve:" + status, 0) + 1
        if status == "OPTIMAL":
            rep.nontrivial.add(hash(("vm", str(data))))
        if fails:
            rep.oracle_failures.append({"what": "vector / matrix look-ups inconsistent: " + ", ".join(fails),
                                        "kind_of_case": "vm", "data": data})


# ----------------------------------------------------------------------------- two views of ONE base inside one node
# Dimension: a two-operand vector node (dot product, @, dot with A@·, element-wise +/- under dot / sum, linear
# combinations) whose operands are DISTINCT 1-D views of the same vector / matrix — overlapping, strided, reversed,
# different column ranges of one row, different row ranges of one column, views of views.  View handles derive their
# names from the base and (part of) the index, so many distinct views share name AND size; the generator stratifies on
# that.  Oracle: objective_value == the objective written out in NumPy on Solution.values, with element positions taken
# from `ref_names` (NumPy indexing on string arrays — the harness's own bookkeeping), and == Expression.evaluate.

VP_NLP_FORMS = ["L.dot(R)", "L@R", "R.dot(L)", "L.dot(A@R)", "(L-R).dot(L-R)", "(L+R).dot(L-R)", "L.dot(R*2)",
                "(L-R).dot(R)"]
VP_LP_FORMS = ["(L-R).sum()", "c@L-d@R", "c@(L+R*2)", "(L-R)@c"]
VP_NLP_METHODS = ["auto", "SLSQP", "L-BFGS-B", "Nelder-Mead", "trust-constr", "BFGS", "auto", "SLSQP"]
VP_LP_METHODS = ["auto", "highs", "linprog", "highs-ds"]
VP_W = 10.0   # weight of the separable quadratic: keeps every NLP member strictly convex (|coef| * form <= 8 * el^2)


def _tup(x):
    return tuple(_tup(y) for y in x) if isinstance(x, (list, tuple)) else x


def vp_views(base, rng):
    """pool of 1-D view recipes over one base (vector or matrix)"""
    out = []
    if base[0] == "vec":
        n = base[2]
        for a in (None, 0, 1, 2, -2, -n):
            for b in (None, n, n - 1, 2, 3, -1):
                for st in (None, 2, 3, -1, -2):
                    out.append(("slice", base, (a, b, st)))
        for _ in range(12):   # views of views
            v = rng.choice(out[:150])
            out.append(("slice", v, rng.choice([(None, None, -1), (None, None, 2), (1, None, None), (None, -1, None),
                                                (None, None, None)])))
    else:
        r, c = base[2], base[3]
        sls = lambda m: [(None, None, None), (0, 2, None), (1, 3, None), (2, 4, None), (None, None, -1), (None, None, 2),  # noqa: E731
                         (1, None, 2), (0, m - 1, None), (1, None, None), (m - 2, None, None)]
        t = ("T", base)
        for i in range(r):
            out += [("row", base, i, s) for s in sls(c)]
            out += [("col", t, s, i) for s in sls(c)[:5]]
        for j in range(c):
            out += [("col", base, s, j) for s in sls(r)]
            out += [("row", t, j, s) for s in sls(r)[:5]]
        if r == c:
            out += [("diagonal", base), ("diagonal", t), ("diagonal", ("sub", base, (None, None, -1), (None, None, None)))]
        for _ in range(12):
            v = rng.choice(out)
            out.append(("slice", v, rng.choice([(None, None, -1), (None, None, 2), (1, None, None), (None, -1, None)])))
    return out


def vp_pair(base, rng, want_same_name):
    """two views of `base` with the same length (>= 2) and different element lists; when asked (and possible) the two
    real handles also carry the same derived name"""
    memo = {}
    pool = []
    for v in vp_views(base, rng):
        try:
            names = ref_names(v)
            if names is None or names.ndim != 1 or len(names) < 2:
                continue
            h = build_handle(v, memo)
        except Exception:  # noqa: BLE001  (an index outside the base: not a member of this family)
            continue
        pool.append((v, tuple(names), h.name))
    rng.shuffle(pool)
    fallback = None
    for i, (v1, n1, h1) in enumerate(pool):
        for v2, n2, h2 in pool[i + 1:]:
            if len(n1) != len(n2) or n1 == n2:
                continue
            if (h1 == h2) == want_same_name:
                return v1, v2, h1 == h2
            fallback = fallback or (v1, v2, h1 == h2)
    return fallback


def vp_build(data):
    """-> (problem, independent objective as a function of the values dict, scale function)"""
    from optyx import Problem

    base, Lr, Rr = _tup(data["base"]), _tup(data["L"]), _tup(data["R"])
    memo = {}
    bh = build_handle(base, memo)
    L, R = build_handle(Lr, memo), build_handle(Rr, memo)
    nl, nr = list(ref_names(Lr)), list(ref_names(Rr))
    bn = ref_names(base)
    form, coef, k0, sense = data["form"], data["coef"], data["k"], data["sense"]
    A, c, d, T = np.array(data["A"]), np.array(data["c"]), np.array(data["d"]), data["T"]
    node = {"L.dot(R)": lambda: L.dot(R), "L@R": lambda: L @ R, "R.dot(L)": lambda: R.dot(L),
            "L.dot(A@R)": lambda: L.dot(A @ R), "(L-R).dot(L-R)": lambda: (L - R).dot(L - R),
            "(L+R).dot(L-R)": lambda: (L + R).dot(L - R), "L.dot(R*2)": lambda: L.dot(R * 2),
            "(L-R).dot(R)": lambda: (L - R).dot(R),
            "(L-R).sum()": lambda: (L - R).sum(), "c@L-d@R": lambda: c @ L - d @ R,
            "c@(L+R*2)": lambda: c @ (L + R * 2), "(L-R)@c": lambda: (L - R) @ c}[form]()
    ref = {"L.dot(R)": lambda l, r: l @ r, "L@R": lambda l, r: l @ r, "R.dot(L)": lambda l, r: r @ l,
           "L.dot(A@R)": lambda l, r: l @ (A @ r), "(L-R).dot(L-R)": lambda l, r: (l - r) @ (l - r),
           "(L+R).dot(L-R)": lambda l, r: (l + r) @ (l - r), "L.dot(R*2)": lambda l, r: l @ (2 * r),
           "(L-R).dot(R)": lambda l, r: (l - r) @ r,
           "(L-R).sum()": lambda l, r: float(np.sum(l - r)), "c@L-d@R": lambda l, r: c @ l - d @ r,
           "c@(L+R*2)": lambda l, r: c @ (l + 2 * r), "(L-R)@c": lambda l, r: (l - r) @ c}[form]
    # the base's own elements, each once (index access through the real API, positions from the reference layout)
    cells = [(j,) for j in range(bn.shape[0])] if bn.ndim == 1 else [(a, b) for a in range(bn.shape[0])
                                                                     for b in range(bn.shape[1])]
    obj = coef * node + k0
    P = Problem()
    if data["path"] == "nlp":
        sgn = 1.0 if sense == "min" else -1.0
        for ci, cell in enumerate(cells):
            el = bh[cell[0]] if len(cell) == 1 else bh[cell[0], cell[1]]
            obj = obj + (sgn * VP_W) * (el - T[ci]) ** 2
    else:
        sgn = 0.0
        tot = None
        for cell in cells:
            el = bh[cell[0]] if len(cell) == 1 else bh[cell[0], cell[1]]
            tot = el if tot is None else tot + el
        P.subject_to(tot <= data["cap"])
    P.minimize(obj) if sense == "min" else P.maximize(obj)
    if data.get("constrained"):
        e0 = bh[cells[0][0]] if len(cells[0]) == 1 else bh[cells[0][0], cells[0][1]]
        e1 = bh[cells[-1][0]] if len(cells[-1]) == 1 else bh[cells[-1][0], cells[-1][1]]
        P.subject_to(e0 + e1 >= 1.0)

    def independent(vals):
        l = np.array([vals[n] for n in nl], dtype=float)
        r = np.array([vals[n] for n in nr], dtype=float)
        q = sum((vals[str(bn[cell])] - T[ci]) ** 2 for ci, cell in enumerate(cells))
        amag = max(1.0, float(np.abs(A).sum())) * max(1.0, float(np.abs(c).max()), float(np.abs(d).max()))
        mag = 1.0 + abs(k0) + VP_W * abs(sgn) * q + 4.0 * abs(coef) * amag * (l @ l + r @ r + np.abs(l).sum() + np.abs(r).sum())
        return float(coef * ref(l, r) + k0 + sgn * VP_W * q), float(mag)

    return P, independent


def vp_check(data):
    """-> (failure dict | None, status tag)"""
    try:
        P, independent = vp_build(data)
    except Exception as e:  # noqa: BLE001
        return None, "build-raise:" + type(e).__name__
    with warnings.catch_warnings():
        warnings.simplefilter("ignore")
        try:
            sol = P.solve(method=data["method"])
        except Exception as e:  # noqa: BLE001
            return None, "raise:" + type(e).__name__     # a refusal to solve is not an inconsistent answer
    if not sol.values or sol.objective_value is None:
        return None, sol.status.name
    names = [v.name for v in P.variables]
    if list(sol.values) != names:
        return {"what": "keys of values differ from the problem's variable names", "keys": list(sol.values),
                "names": names}, sol.status.name
    if not all(math.isfinite(v) for v in sol.values.values()) or not math.isfinite(sol.objective_value):
        return None, sol.status.name + ":non-finite"
    ind, mag = independent(sol.values)
    want = float(P.objective.evaluate(sol.values))
    if abs(ind - sol.objective_value) > 1e-8 * mag or abs(want - sol.objective_value) > 1e-8 * mag:
        return {"what": "objective_value differs from the user's objective (two views of one base inside one vector "
                        "node) evaluated at the reported values",
                "objective_value": sol.objective_value, "independent_numpy": ind, "objective_at_values": want,
                "status": sol.status.name, "values": dict(sol.values)}, sol.status.name
    return None, sol.status.name


def vp_case(rng, i, path):
    if i % 2 == 0:
        base = ("vec", "x", rng.randint(4, 6), -10.0, 10.0, "continuous")
    else:
        base = ("mat", "M", rng.randint(2, 4), rng.randint(2, 4), -10.0, 10.0, "continuous", False)
    if path == "lp":
        base = base[:3 + (base[0] == "mat")] + (rng.choice([0.0, -1.0]), rng.choice([2.0, 3.0])) + base[5 + (base[0] == "mat"):]
    pair = vp_pair(base, rng, want_same_name=(i % 4 != 3))
    if pair is None:
        return None
    Lr, Rr, same = pair
    k = len(ref_names(Lr))
    ncell = int(np.prod(ref_names(base).shape))
    forms, methods = (VP_NLP_FORMS, VP_NLP_METHODS) if path == "nlp" else (VP_LP_FORMS, VP_LP_METHODS)
    method = methods[(i // 2) % len(methods)]
    data = {"path": path, "base": base, "L": Lr, "R": Rr, "same_name": same, "form": forms[i % len(forms)],
            "sense": "min" if (i // len(forms)) % 2 == 0 else "max", "method": method,
            "coef": rng.choice([1.0, -1.0, 0.5, 2.0, -2.0]), "k": rng.choice([0.0, 1.5, -3.0, 7.0]),
            "A": [[rng.dy(-1, 1) / k for _ in range(k)] for _ in range(k)],
            "c": [rng.choice([1.0, 2.0, -1.0, 0.5, 3.0, -2.0]) for _ in range(k)],
            "d": [rng.choice([1.0, -2.0, 0.5, 4.0, -0.25]) for _ in range(k)],
            "T": [rng.dy(-2, 2) for _ in range(ncell)], "cap": rng.choice([2.0, 3.5, 5.0]),
            "constrained": path == "nlp" and method in ("SLSQP", "trust-constr") and rng.random() < 0.5}
    return data


def run_view_pairs(rep, rng, thorough):
    for path, n in (("nlp", 320 if thorough else 96), ("lp", 96 if thorough else 24)):
        for i in range(n):
            data = vp_case(rng, i, path)
            if data is None:
                continue
            bad, status = vp_check(data)
            rep.evaluations += 1
            tag = f"view-pair:{path}:{'same-name' if data['same_name'] else 'other-name'}:{status}"
            rep.histogram[tag] = rep.histogram.get(tag, 0) + 1
            if status == "OPTIMAL":
                rep.nontrivial.add(hash(("vp", str(data))))
            if bad is not None:
                bad.update({"kind_of_case": "view-pair", "data": data})
                rep.oracle_failures.append(bad)


def run(ctx) -> core.Report:
    rng = ctx["rng"]
    thorough = ctx["tier"] == "thorough" or ctx["escalate"]
    rep = core.Report(rule="stub tables (scipy rows incl. retry, both senses, constant terms; LP rows honouring fun = c'·x) "
                           "compared exactly with the model; construction routes and Solution[handle] look-ups (cell cover "
                           "+ random compositions); real solves; non-trivial = distinct rows with a non-empty values dict / "
                           "distinct handles that do not raise")
    metas = base.run_stub_table(rep, rng, thorough)
    stub_consistency(rep, metas)
    base.run_lp_stub_table(rep)
    stub_consistency(rep, run_lp_contract_table(rep))
    recs = recipes(rng, thorough=thorough)
    handle_cases(rep, recs)
    getitem_cases(rep, rng, recs)
    rep.exhaustive = True
    run_lp_root_forms(rep, rng, thorough)
    run_objective_forms(rep, rng, thorough)
    run_value_histories(rep, rng, thorough)
    run_param_identity(rep, rng, thorough)
    run_start_points(rep, rng, thorough)
    run_view_pairs(rep, rng, thorough)
    base.run_real_solves(rep, rng, 1500 if thorough else 120, check_consistent)
    vector_matrix_solves(rep, rng, 300 if thorough else 30)
    for meta, P, text, info in metas[:4000:997]:
        rep.samples.append({"case": meta, "observed": text[:240]})
    return rep


def search(ctx, rep):
    rng = core.Rng(ctx["seed"] + 15485863)
    r2 = core.Report()
    # first: the mismatching cases themselves as oracle checks — a handle whose description / look-up differs is read
    # through every accessor at many value sets against the NumPy reference layout
    def _tup(x):
        return tuple(_tup(y) for y in x) if isinstance(x, (list, tuple)) else x
    todo = []
    for m in rep.corr_mismatches:
        c = m.get("case", {})
        rcp = c.get("handle") or c.get("getitem")
        if rcp is not None and _tup(rcp) not in todo:
            todo.append(_tup(rcp))
    if todo:
        getitem_cases(r2, rng, [r for r in todo[:60] for _ in range(8)])
        if r2.oracle_failures:
            return r2.oracle_failures[0]
    # parameter objects vs. parameter names in solve / set / re-solve histories (cheap, judged on harness-side numbers)
    run_param_identity(r2, rng, True)
    if r2.oracle_failures:
        return r2.oracle_failures[0]
    # two distinct views of one base inside one vector node (objective of real solves, NumPy reference)
    run_view_pairs(r2, rng, True)
    if r2.oracle_failures:
        return r2.oracle_failures[0]
    metas = base.run_stub_table(r2, rng, True)
    stub_consistency(r2, metas)
    stub_consistency(r2, run_lp_contract_table(r2))
    if r2.oracle_failures:
        return r2.oracle_failures[0]
    run_lp_root_forms(r2, rng, True)
    if r2.oracle_failures:
        return r2.oracle_failures[0]
    run_start_points(r2, rng, False)
    if r2.oracle_failures:
        return r2.oracle_failures[0]
    getitem_cases(r2, rng, recipes(rng, thorough=True))
    if r2.oracle_failures:
        return r2.oracle_failures[0]
    base.run_real_solves(r2, rng, 250, check_consistent)   # bounded: the whole search stays under ~2 min
    vector_matrix_solves(r2, rng, 30)
    return r2.oracle_failures[0] if r2.oracle_failures else None


def replay(payload) -> bool:
    f = payload["failure"]
    kind = f.get("kind_of_case")
    if kind == "real":
        P, sol = base.real_solve(f["spec"], f["method"])
        print("status:", getattr(sol, "status", sol), "objective_value:", getattr(sol, "objective_value", None))
        if isinstance(sol, Exception):
            return True
        bad = check_consistent(f["spec"], f["method"], P, sol)
        print(bad)
        return bad is None
    if kind in ("stub", "lpcontract"):
        c = f["case"]
        rep = core.Report()
        if kind == "stub":
            P = base.build_problem(base.SHAPES[c["shape"]]["spec"])[0]
            text, info = base.observe(P, c["kind"], c["method"], False, c["use_hessian"], c["tol"], base.Res(*c["r1"]),
                                      base.Res(*c["r2"]), base.DUMMY_LRES, x0=c.get("x0"))
        else:
            P = base.build_problem(c["spec"])[0]
            text, info = base.observe(P, c["kind"], c["method"], False, True, None, base.DUMMY_RES, base.DUMMY_RES,
                                      base.LRes(*c["lres"]))
        print(text)
        stub_consistency(rep, [(c, P, text, info)])
        print(rep.oracle_failures)
        return not rep.oracle_failures
    if kind == "getitem":
        from optyx.solution import Solution, SolverStatus

        def tup(x):
            return tuple(tup(y) for y in x) if isinstance(x, list) else x
        h = build_handle(tup(f["recipe"]))
        s = Solution(status=SolverStatus.OPTIMAL, values=dict(f["values"]))
        try:
            got = s[h]
        except KeyError as e:
            print("KeyError", e)
            return not all(v.name in f["values"] for v in handle_elements(h))
        print(got)
        els = handle_elements(h)
        return list(np.asarray(got, dtype=float).ravel()) == [f["values"][v.name] for v in els]
    if kind == "history":
        bad, _ = value_history(f["data"])
        print(bad)
        return bad is None
    if kind == "param-identity":
        bad, judged = param_identity_history(f["data"])
        print("judged solves:", judged, bad)
        return bad is None
    if kind == "objform":
        bad, status = objective_check(f["data"])
        print(status, bad)
        return bad is None
    if kind == "start":
        bad, tag = start_case(f["data"])
        print(tag, bad)
        return bad is None
    if kind == "lp-root":
        bad, status = lp_root_check(f["case"])
        print("status:", status, bad)
        return bad is None
    if kind == "view-pair":
        bad, status = vp_check(f["data"])
        print(status, bad)
        return bad is None
    if kind == "vm":
        status, fails = vm_case(f["data"])
        print(status, fails)
        return not fails
    return True
