"""C14 — independent models do not interfere through process-wide caches.

Tie:    (a) CPython's `functools.lru_cache` hit/miss behaviour on random request sequences and small
            capacities vs the Lean policy `Py.LRU.lru` (exact); the three `maxsize` values of the real
            caches vs the regenerated table `Optyx.Generated.lruSizes` (exact);
        (b) the key equality the theorems assume (`Variable` / `Parameter` equal-and-hash by name, every other
            node by identity; a bare `Parameter` never reaches `_compile_cached`) measured on real objects.
Oracle: for seeded model recipes M (same variable / parameter *names* in every model, different bounds, values,
        structure): observations on M — evaluate, compiled value, Jacobian (+ which fast path), Hessian, symbolic
        gradients, degrees, LP data, real solves with two methods, all again after `Parameter.set` — after an
        adversarial prefix of k ∈ {0, 1, 5, capacity + 50} other models in this process, and after *discard-and-rebuild*
        rounds (a model of another degree class over the same names is built, analysed, sometimes solved, dropped and
        garbage-collected, then the target is rebuilt on the recycled addresses — shallow chains and chains deeper than the
        recursion threshold), against the same observations computed in a **fresh subprocess** (one process per chunk with all caches cleared before each
        M, plus some M in a process of their own).
        Sequences of independent models whose vector nodes sit on DISTINCT VIEWS WITH EQUAL LABEL AND SIZE (strided / reversed /
        clipped slices, rows / columns of symmetric vs plain matrices, column slices, transposes, blocks, look-alike names —
        discovered by building every way the API derives a view), nodes nested in squared residuals and sums and at the root:
        each model against a hand-written NumPy model of its function (values, gradients, Jacobian rows, Hessians, LP data,
        optimum) and against a fresh process.
        Histories whose operations on OTHER models are ABORTED half way by an exception the caller catches — every public
        compile / gradient / degree / evaluate / variables / solve entry point × (variable missing from the variable list,
        right-deep chain beyond the recursion limit, unknown operator, foreign node, a fault injected at the k-th call of an
        internal helper of each library module, faults inside the compiled callables) — followed by a model over the same
        names at shifted positions of the variable list, each channel in turn used first: NumPy model of the recipe's formula
        (values, analytic gradients, Hessian, hand-computed optimum) and a fresh process.
        Histories in which OTHER models are solved with EXPLICIT PER-CALL SOLVER OPTIONS (maxiter / tol / x0 / use_hessian /
        callbacks / strict / options={...} / keywords the back end rejects; every NLP and LP method) before a model is solved
        with defaults and with its own options: the optimum of its recipe computed in NumPy (KKT systems of all active sets,
        vertex enumeration), its twin from fresh objects solved before the other models, and a fresh process.
        Models whose nodes hold NUMPY ARRAYS (x.dot(Q @ x) / QuadraticForm matrices, LinearCombination coefficient vectors,
        matrix-vector products, MatrixParameter copies) of dimension 1 … 40 — sizes around 2, 4, 8, 16, 32 and random ones — built
        after 1–6 earlier independent models over same-shaped arrays that were compiled / differentiated (gradient, Jacobian,
        Hessian, symbolic; never solved) and then DROPPED and collected (with and without emptying the LRU caches), the new
        arrays being allocated until they sit on the ADDRESS OF A DEAD ARRAY, or whose live arrays were OVERWRITTEN IN PLACE:
        value, gradient, Jacobian rows of the bare nodes, Hessian, symbolic gradients, optimum against NumPy on the model's own
        arrays.
"""
from __future__ import annotations

import json
import math
import os
import random
import subprocess
import sys
import warnings
from concurrent.futures import ThreadPoolExecutor
from functools import lru_cache

if __name__ == "__main__":
    sys.path.insert(0, os.path.dirname(os.path.dirname(os.path.abspath(__file__))))

import numpy as np

import core

LEAN_MODULE = "Optyx.Props.C14"
EXTRA_MODULES = ["Optyx.Props.PinsC14", "Optyx.Props.StateTie", "Optyx.Props.BuildTie", "Optyx.Props.VarsStepTie", "Optyx.Props.DegreeEntryTie", "Optyx.Props.SpineTie", "Optyx.Props.CompileEntryTie", "Optyx.Props.ParamTie", "Optyx.Props.ScaledTie", "Optyx.Props.ConstraintTie"]   # transcription anchors (harness/source_pins.py)
THEOREMS = [
    "Optyx.Props.C14.cache_transparent",
    "Optyx.Props.C14.cache_transparent_run",
    "Optyx.Props.C14.lru_policy_sound",
    "Optyx.Props.C14.respects_degree",
    "Optyx.Props.C14.respects_gradient",
    "Optyx.Props.C14.respects_compile",
    "Optyx.Props.C14.compile_cache_param_collision",
    "Optyx.Props.C14.gradient_cached_transparent",
    "Optyx.Props.C14.compile_cached_transparent",
    "Optyx.Props.StateTie.edits_are_source",
    "Optyx.Props.BuildTie.compile_step",
    "Optyx.Props.BuildTie.compileVec_step",
    "Optyx.Props.VarsStepTie.exprVars_step",
    "Optyx.Props.VarsStepTie.step_unique",
    "Optyx.Props.VarsStepTie.matrixVariableGetVariables_text",
    "Optyx.Props.DegreeEntryTie.isLinear_eq",
    "Optyx.Props.DegreeEntryTie.isQuadratic_eq",
    "Optyx.Props.DegreeEntryTie.computeDegree_eq",
    "Optyx.Props.DegreeEntryTie.encodeDeg_eq",
    "Optyx.Props.DegreeEntryTie.readDegree_int",
    "Optyx.Props.DegreeEntryTie.slot_roundtrip",
    "Optyx.Props.SpineTie.depthC_step",
    "Optyx.Props.SpineTie.depthE_step",
    "Optyx.Props.SpineTie.spineBU_step",
    "Optyx.Props.SpineTie.depthG_eq",
    "Optyx.Props.SpineTie.compileSwitch_eq",
    "Optyx.Props.SpineTie.getAllVariables_eq",
    "Optyx.Props.CompileEntryTie.compileExpression_eq",
    "Optyx.Props.CompileEntryTie.dictFn_eq",
    "Optyx.Props.CompileEntryTie.param_run",
    "Optyx.Props.CompileEntryTie.compiledExpression_value",
    "Optyx.Props.ParamTie.paramSet_raises_iff",
    "Optyx.Props.ParamTie.paramSet_stores_converted",
    "Optyx.Props.ParamTie.scalar_set_stores",
    "Optyx.Props.ParamTie.reads_slot",
    "Optyx.Props.ParamTie.asParameterValue_spec",
    "Optyx.Props.ParamTie.read_after_set",
    "Optyx.Props.ScaledTie.scaledEntry_eq",
    "Optyx.Props.ScaledTie.scaledLoop_step",
    "Optyx.Props.ScaledTie.scaledPattern_frame",
    "Optyx.Props.ConstraintTie.getVariables_text",
    "Optyx.Props.StateTie.accessors_text",
    "Optyx.Props.PinsC14.anchors",
]
ASSUMPTIONS = [
    "object identity is modelled by structural equality including object ids (coarser than `is`: the theorems hold for "
    "every key equality at least as fine), name equality for Variable / Parameter",
    "cached values are compared up to meaning (`denote` over ℝ for gradients, extensional equality for compiled closures)",
    "expressions are immutable after construction (no attribute of a node is reassigned)",
]


def run_lean_unit(lines):
    return core.run_lean(lines)


# ----------------------------------------------------------------------------- model recipes (deterministic)

DY = [-2.0, -1.5, -1.0, -0.5, 0.25, 0.5, 0.75, 1.0, 1.5, 2.0, 2.5, 3.0]


def build_model(ms: int):
    """a model over the *same names* in every recipe: x0 x1 x2, u[0..2], parameters p q"""
    from optyx import Variable, VectorVariable, Parameter, Problem, sin, exp, cos
    from optyx.core.expressions import Constant

    r = random.Random(ms * 7919 + 13)
    lbs = [r.choice([0.0, 0.25, 0.5, 1.0]) for _ in range(3)]
    ubs = [lb + r.choice([1.0, 2.0, 3.5, 5.0]) for lb in lbs]
    x = [Variable(f"x{i}", lb=lbs[i], ub=ubs[i]) for i in range(3)]
    ul = r.choice([0.0, 0.5])
    u = VectorVariable("u", 3, lb=ul, ub=ul + r.choice([2.0, 4.0]))
    p = Parameter("p", r.choice(DY))
    q = Parameter("q", r.choice(DY))
    a, b, c = (r.choice(DY) for _ in range(3))
    fam = ms % 8
    if fam == 0:
        obj = a * x[0] + b * x[1] + c * x[2]
        cons = [x[0] + x[1] >= lbs[0] + lbs[1] + 0.5, x[1] + 2.0 * x[2] <= ubs[1] + 2.0 * ubs[2] - 0.25]
        vs = list(x)
    elif fam == 1:
        obj = (x[0] - p) ** 2 + (x[1] - q) ** 2 + x[2] ** 2 + a * x[0] * x[1]
        cons = [x[0] + x[1] + x[2] >= lbs[0] + lbs[1] + lbs[2] + 0.5]
        vs = list(x)
    elif fam == 2:
        obj = sin(x[0]) * x[1] + exp(q * x[2] * 0.25) + p * x[0]
        cons = [x[0] * x[1] <= ubs[0] * ubs[1] - 0.125 + abs(a)]
        vs = list(x)
    elif fam == 3:
        obj = u.dot(u) + p * u.sum() + (u[0] - q) ** 2
        cons = [u.sum() >= 3 * ul + 0.5]
        vs = list(u)
    elif fam == 4:
        obj = (x[0] + 1.0) ** p + q * x[1] + x[1] * x[1]
        cons = []
        vs = [x[0], x[1]]
    elif fam == 5:
        obj = p * x[0] + q * x[1]                     # linear in x but parametric: never an LP
        cons = [x[0] + x[1] >= lbs[0] + lbs[1] + 0.25]
        vs = [x[0], x[1]]
    elif fam == 6:
        obj = (a * u).sum() + cos(x[0]) * c + Constant(b)
        cons = [u[0] + x[0] <= ul + 2.0 + ubs[0]]
        vs = list(u) + [x[0]]
    else:
        obj = b * x[2] - a * x[0] + 1.5
        cons = []
        vs = [x[0], x[2]]
    sense = "max" if (ms // 8) % 3 == 2 and fam in (0, 7) else "min"
    prob = Problem()
    (prob.maximize if sense == "max" else prob.minimize)(obj)
    if cons:
        prob.subject_to(cons)
    return {"x": x, "u": u, "p": p, "q": q, "obj": obj, "cons": cons, "vars": vs, "prob": prob, "fam": fam,
            "point": [r.choice([0.75, 1.25, 1.5, 2.25]) for _ in vs], "p_new": r.choice(DY), "seed": ms}


def _f(v):
    v = float(v)
    return v if math.isfinite(v) else repr(v)


SCRIBBLE = [False]   # a hostile consumer: overwrite, in place, every array a callable / extractor handed out


def _arr(a):
    out = [_f(z) for z in np.asarray(a, dtype=float).ravel()]
    if SCRIBBLE[0] and isinstance(a, np.ndarray) and a.flags.writeable and a.size:
        try:
            a[...] = 777.0
        except Exception:  # noqa: BLE001
            pass
    return out


def observe(M, scribble: bool = False) -> dict:
    """every observable C14 talks about, as JSON-able data.  With `scribble` the caller behaves like a consumer that owns
    what it was handed: every returned array is overwritten in place afterwards (harmless unless the library shares it)"""
    SCRIBBLE[0] = bool(scribble)
    try:
        return _observe(M)
    finally:
        SCRIBBLE[0] = False


def _observe(M) -> dict:
    from optyx.core.compiler import compile_expression, compile_gradient, compile_to_dict_function
    from optyx.core.autodiff import compile_jacobian, compile_hessian, gradient
    from optyx.analysis import compute_degree, is_linear, LinearProgramExtractor
    from ser import ser, Unsupported

    out = {}
    vs, obj = M["vars"], M["obj"]
    xs = np.array(M["point"], dtype=float)
    env = {v.name: float(t) for v, t in zip(vs, xs)}

    def block(tag):
        with warnings.catch_warnings(), np.errstate(all="ignore"):
            warnings.simplefilter("ignore")
            out[tag + "eval"] = _f(np.asarray(obj.evaluate(env)))
            out[tag + "fn"] = _f(np.asarray(compile_expression(obj, vs)(xs)))
            exprs = [obj] + [c.expr for c in M["cons"]]
            jf = compile_jacobian(exprs, vs)
            out[tag + "jac"] = [jf.__name__] + _arr(jf(xs))
            jf1 = compile_jacobian([obj], vs)
            out[tag + "jac1"] = [jf1.__name__] + _arr(jf1(xs))
            hf = compile_hessian(obj, vs)
            out[tag + "hess"] = [hf.__name__] + _arr(hf(xs))
            out[tag + "hess_again"] = _arr(hf(xs + 0.125))
            gf = compile_gradient(obj, vs)
            out[tag + "grad"] = [gf.__name__] + _arr(gf(xs))
            out[tag + "dict_fn"] = _f(np.asarray(compile_to_dict_function(obj, vs)(env)))
            out[tag + "grad_sym_value"] = [_f(np.asarray(gradient(obj, v).evaluate(env))) for v in vs]
            out[tag + "cons_hess"] = [_arr(compile_hessian(c.expr, vs)(xs)) for c in M["cons"]]
            out[tag + "violation"] = [[_f(c.violation(env)), bool(c.is_satisfied(env))] for c in M["cons"]]
            # bare leaves: the only keys that are shared *by name* across models
            out[tag + "leaf_var"] = [_f(compile_expression(v, vs)(xs)) for v in vs]
            out[tag + "leaf_par"] = [_f(compile_expression(M["p"], vs)(xs)), _f(compile_expression(M["q"], vs)(xs))]
            z = vs[0]
            out[tag + "leaf_jac"] = _arr(compile_jacobian([M["p"] * z], [z])(xs[:1])) + \
                _arr(compile_jacobian([M["q"]], [z])(xs[:1])) + _arr(compile_jacobian([z], [z])(xs[:1]))
            out[tag + "solve"] = []
            methods = ("auto", "SLSQP") + (("trust-constr",) if M["fam"] in (1, 3) and not tag else ())
            for m in methods:
                try:
                    s = M["prob"].solve(method=m)
                    nd = 7 if m != "trust-constr" else 4
                    vals = {k: round(float(v), nd) for k, v in sorted(s.values.items())} if s.values else {}
                    ov = None if s.objective_value is None else round(float(s.objective_value), nd)
                    out[tag + "solve"].append([m, s.status.name, vals, ov] + ([s.iterations] if m == "trust-constr" else []))
                except Exception as ex:  # noqa: BLE001
                    out[tag + "solve"].append([m, "raise:" + type(ex).__name__])

    block("")
    g = []
    for v in vs:
        try:
            g.append(ser(gradient(obj, v), with_ids=False))
        except Unsupported as ex:
            g.append("unsupported:" + str(ex))
    out["grad_sym"] = g
    out["degree"] = [compute_degree(obj)] + [compute_degree(c.expr) for c in M["cons"]]
    out["is_linear"] = [bool(is_linear(obj))] + [bool(is_linear(c.expr)) for c in M["cons"]]
    if all(out["is_linear"]):
        d = LinearProgramExtractor().extract(M["prob"])
        out["lp"] = [_arr(d.c), None if d.A_ub is None else _arr(d.A_ub), None if d.b_ub is None else _arr(d.b_ub),
                     None if d.A_eq is None else _arr(d.A_eq), None if d.b_eq is None else _arr(d.b_eq),
                     [[None if t is None else _f(t) for t in bd] for bd in d.bounds], list(d.variables), _f(d.c0)]
    out["bounds"] = [[None if t is None else _f(t) for t in bd] for bd in M["prob"].get_bounds()]
    out["varnames"] = [v.name for v in M["prob"].variables]
    M["p"].set(M["p_new"])
    block("after_set_")
    return out


# ----------------------------------------------------------------------------- artefact probes: prefix × target pairs

PROBE_KINDS = ["lin", "vsum", "pow1", "pow2", "pow3", "usum", "sep", "cross", "cubic", "dotself", "quadform", "l2", "mixed"]
PROBE_DIMS = [1, 2, 3, 5]


def probe_build(kind: str, n: int, nm: str = "s"):
    """a small model over n variables whose artefacts (value, gradient, Jacobian, Hessian) have a characteristic structure:
    all-zero / constant / structurally sparse / dense Hessians, constant / scaled / general Jacobians, every vectorised
    fast path.  `nm` is the base name (prefix and target may or may not share names)."""
    from optyx import Variable, VectorVariable, Problem, exp
    from optyx.core import vectors as V
    from optyx.core import matrices as Mx

    if kind in ("vsum", "pow1", "pow2", "pow3", "usum", "dotself", "quadform", "l2"):
        x = VectorVariable(nm, n, lb=-4.0, ub=4.0)
        vs = list(x)
        obj = {
            "vsum": lambda: x.sum(), "pow1": lambda: V.VectorPowerSum(x, 1), "pow2": lambda: V.VectorPowerSum(x, 2),
            "pow3": lambda: V.VectorPowerSum(x, 3), "usum": lambda: V.VectorUnarySum(x, "exp"),
            "dotself": lambda: x.dot(x),
            "quadform": lambda: Mx.QuadraticForm(x, np.array([[2.0 + i if i == j else 0.25 * ((i + j) % 3) for j in range(n)]
                                                             for i in range(n)])),
            "l2": lambda: V.L2Norm(x),
        }[kind]()
    else:
        vs = [Variable(f"{nm}{i}", lb=-4.0, ub=4.0) for i in range(n)]
        if kind == "lin":
            obj = sum(((i + 1.5) * v for i, v in enumerate(vs)), start=0.0 * vs[0]) + 2.0
        elif kind == "sep":
            obj = sum(((v - float(i)) ** 2 for i, v in enumerate(vs)), start=exp(vs[0] * 0.5))
        elif kind == "cross":
            obj = sum((v * v for v in vs), start=0.0 * vs[0])
            for i in range(n):
                for j in range(i + 1, n):
                    obj = obj + (0.5 + i + 2 * j) * vs[i] * vs[j] * 0.125
        elif kind == "cubic":
            obj = sum((v ** 3 for v in vs), start=vs[0] * vs[-1] * 3.0)
        else:  # mixed: constants, structural zeros and x-dependent entries in one Hessian
            obj = 3.0 * vs[0] ** 2 + exp(vs[-1] * 0.25) + (vs[0] * vs[-1] if n > 1 else vs[0])
    prob = Problem()
    prob.minimize(obj)
    return {"vars": vs, "obj": obj, "prob": prob, "kind": kind, "n": n}


def probe_observe(M, full: bool = False) -> dict:
    """all first- and second-order artefacts of a probe, each callable called at two points"""
    from optyx.core.compiler import compile_expression, compile_gradient, compile_to_dict_function
    from optyx.core.autodiff import compile_jacobian, compile_hessian, gradient
    from optyx.analysis import compute_degree

    obj, vs = M["obj"], M["vars"]
    n = len(vs)
    pts = [np.array([0.75 + 0.5 * i for i in range(n)]), np.array([-1.25 + 0.375 * i for i in range(n)])]
    out = {"degree": compute_degree(obj)}
    with warnings.catch_warnings(), np.errstate(all="ignore"):
        warnings.simplefilter("ignore")
        fn, jf, gf, hf = (compile_expression(obj, vs), compile_jacobian([obj], vs), compile_gradient(obj, vs),
                          compile_hessian(obj, vs))
        df = compile_to_dict_function(obj, vs)
        out["paths"] = [jf.__name__, gf.__name__, hf.__name__]
        for k, x in enumerate(pts):
            env = {v.name: float(t) for v, t in zip(vs, x)}
            out[f"eval{k}"] = _f(np.asarray(obj.evaluate(env)))
            out[f"fn{k}"] = _f(np.asarray(fn(x)))
            out[f"dict{k}"] = _f(np.asarray(df(env)))
            out[f"jac{k}"] = _arr(jf(x))
            out[f"grad{k}"] = _arr(gf(x))
            out[f"hess{k}"] = _arr(hf(x))
            out[f"symgrad{k}"] = [_f(np.asarray(gradient(obj, v).evaluate(env))) for v in vs]
        if full:
            out["solve"] = []
            for m in ("trust-constr", "L-BFGS-B"):
                try:
                    s = M["prob"].solve(method=m)
                    out["solve"].append([m, s.status.name, {k: round(float(v), 4) for k, v in sorted((s.values or {}).items())},
                                         None if s.objective_value is None else round(float(s.objective_value), 4), s.iterations])
                except Exception as ex:  # noqa: BLE001
                    out["solve"].append([m, "raise:" + type(ex).__name__])
    return out


PROBE_SOLVED = {"pow2", "sep", "dotself", "quadform", "cross"}


def probe_full(kind, n):
    return kind in PROBE_SOLVED and n in (2, 3)


def probe_raw(M):
    """the arrays the public callables of a model hand out (kept by the caller), with copies taken at that moment"""
    from optyx.core.compiler import compile_gradient
    from optyx.core.autodiff import compile_jacobian, compile_hessian
    from optyx.analysis import LinearProgramExtractor, is_linear

    obj, vs = M["obj"], M["vars"]
    x = np.array([0.75 + 0.5 * i for i in range(len(vs))])
    kept = []
    with warnings.catch_warnings(), np.errstate(all="ignore"):
        warnings.simplefilter("ignore")
        for f in (compile_jacobian([obj], vs), compile_gradient(obj, vs), compile_hessian(obj, vs)):
            r = f(x)
            if isinstance(r, np.ndarray):
                kept.append((f.__name__, r, r.copy()))
        if is_linear(obj):
            d = LinearProgramExtractor().extract(M["prob"])
            kept.append(("LPData.c", d.c, d.c.copy()))
        bl = M["prob"].get_bounds(); vl = M["prob"].variables
        kept.append(("get_bounds", bl, list(bl)))
        kept.append(("variables", vl, list(vl)))
    return kept


def changed_results(kept):
    out = []
    for name, obj, cp in kept:
        same_now = np.array_equal(obj, cp, equal_nan=True) if isinstance(obj, np.ndarray) else list(obj) == cp
        if not same_now:
            out.append(name)
    return out


def probe_pairs(rep, rng, ref, thorough):
    """every target probe after prefixes of other probes: same and different dimension, same and different names; the
    prefix is consumed by a hostile consumer (returned arrays overwritten in place); nothing is cleared in between"""
    targets = [(k, n) for n in PROBE_DIMS for k in PROBE_KINDS]
    for (tk, tn) in targets:
        want = ref[json.dumps(["probe", tk, tn])]
        same_n = [(k, tn) for k in PROBE_KINDS if k != tk]
        other_n = [(k, n) for n in PROBE_DIMS if n != tn for k in ("cross", "mixed", "pow2", "lin")]
        prefixes = same_n + other_n if thorough else rng.sample(same_n, 5) + rng.sample(other_n, 2)
        holder = probe_build(tk, tn, "s")
        kept = probe_raw(holder)          # results of earlier calls, held by the user while other models come and go
        for i, (pk, pn) in enumerate(prefixes):
            N = probe_build(pk, pn, "s" if i % 2 == 0 else "t")
            SCRIBBLE[0] = True
            try:
                probe_observe(N, full=probe_full(pk, pn) and i % 3 == 0)
            finally:
                SCRIBBLE[0] = False
            got = probe_observe(probe_build(tk, tn, "s"), full=probe_full(tk, tn))
            rep.evaluations += 1
            rep.nontrivial.add(("pair", pk, pn, tk, tn))
            key = f"pair:n{pn}->n{tn}"
            rep.histogram[key] = rep.histogram.get(key, 0) + 1
            ch = changed_results(kept)
            if ch:
                rep.oracle_failures.append({
                    "what": "an array / list returned earlier by a public call of one model changed while other models were used",
                    "pair": [[pk, pn], [tk, tn]], "where": "/" + ch[0], "got": str(ch), "fresh": "unchanged"})
                break
            d = same(got, want)
            if d:
                k0 = d.split("/")[1].split("[")[0]
                rep.oracle_failures.append({
                    "what": "artefact of a model differs from a fresh process after an unrelated model was compiled / consumed",
                    "pair": [[pk, pn], [tk, tn]], "where": d, "got": str(got.get(k0))[:300], "fresh": str(want.get(k0))[:300]})
                break


# ----------------------------------------------------------------------------- small nodes over bare same-named leaves

UNARY_OPS = ["neg", "abs", "sin", "cos", "tan", "exp", "log", "log2", "log10", "sqrt", "tanh", "sinh", "cosh", "asin", "acos",
             "atan", "asinh", "acosh", "atanh"]
BIN_OPS = ["+", "-", "*", "/", "**"]
LEAF_KINDS = ["P", "Q", "X", "Y", "C"]          # Parameter p, Parameter q, Variable x, Variable y, Constant


def small_specs():
    """every node kind over every kind of bare leaf: a bare leaf, a unary function of a leaf, a binary operation of two
    leaves, the vector reductions over vectors of bare leaves"""
    specs = [("leaf", k) for k in ("P", "X", "C")]
    specs += [("un", op, k) for op in UNARY_OPS for k in ("P", "X", "C")]
    pairs = [("P", "Q"), ("P", "X"), ("X", "P"), ("P", "C"), ("C", "P"), ("X", "C"), ("P", "P"), ("X", "Y")]
    specs += [("bin", op, a, b) for op in BIN_OPS for a, b in pairs]
    specs += [("vec", kind, a, b) for kind in ("sum", "l2", "l1", "dot", "lincomb") for a, b in (("P", "Q"), ("P", "X"), ("P", "C"))]
    return specs


def small_build(spec, role: str):
    """the model of `role` ("N" or "M"): same names (p, q, x, y), own objects, own values / bounds"""
    from optyx import Variable, Parameter, Problem
    from optyx.core.expressions import Constant, BinaryOp, UnaryOp
    from optyx.core import vectors as V

    shift = 1.0 if (spec[0] == "un" and spec[1] == "acosh") else 0.0
    pv, qv, cv = ((0.5, 0.25, 0.375) if role == "N" else (0.75, 0.625, 0.875))
    lo = 0.0 if role == "N" else 2.0
    L = {"P": Parameter("p", pv + shift), "Q": Parameter("q", qv + shift), "X": Variable("x", lb=lo, ub=lo + 1.0),
         "Y": Variable("y", lb=lo, ub=lo + 1.0), "C": Constant(cv + shift)}

    def node():
        if spec[0] == "leaf":
            return L[spec[1]]
        if spec[0] == "un":
            return UnaryOp(L[spec[2]], spec[1])
        if spec[0] == "bin":
            return BinaryOp(L[spec[2]], L[spec[3]], spec[1])
        ve = V.VectorExpression([L[spec[2]], L[spec[3]]])
        return {"sum": lambda: ve.sum(), "l2": lambda: V.L2Norm(ve), "l1": lambda: V.L1Norm(ve), "dot": lambda: V.DotProduct(ve, ve),
                "lincomb": lambda: V.LinearCombination(np.array([2.0, -1.0]), ve)}[spec[1]]()

    nd = node()
    x, y = L["X"], L["Y"]
    return {"spec": spec, "role": role, "node": nd, "twin": node() if spec[0] != "leaf" else None, "x": x, "y": y, "L": L,
            "vars": [x, y]}


def small_compile(M):
    """all artefacts in which the small node is the complete compiled expression / derivative entry / Hessian entry"""
    from optyx import Problem
    from optyx.core.compiler import compile_expression, compile_gradient, compile_to_dict_function
    from optyx.core.autodiff import compile_jacobian, compile_hessian, gradient

    nd, x, y, vs = M["node"], M["x"], M["y"], M["vars"]
    e1 = x * x + nd * y                 # d/dy = node
    e2 = nd * x * y + x * x             # d2/dxdy = node
    e3 = x * nd - 1.0                   # constraint whose x-coefficient is the node
    with warnings.catch_warnings(), np.errstate(all="ignore"):
        warnings.simplefilter("ignore")
        art = {"whole": compile_expression(nd, vs), "dict": compile_to_dict_function(nd, vs),
               "jac1": compile_jacobian([e1], vs), "grad1": compile_gradient(e1, vs),
               "dy": compile_expression(gradient(e1, y), vs), "hess2": compile_hessian(e2, vs),
               "jac3": compile_jacobian([e3, e1], vs), "jac_node": compile_jacobian([nd], vs), "hess_node": compile_hessian(nd, vs)}
    prob = Problem()
    prob.maximize(nd * x - x * x - y * y)        # the negated objective has -node as the x-coefficient
    prob.subject_to(e3 <= 5.0)
    art["prob"] = prob
    art["exprs"] = (e1, e2, e3)
    return art


def small_call(M, art) -> dict:
    from optyx.analysis import compute_degree

    nd, vs = M["node"], M["vars"]
    lo = 0.0 if M["role"] == "N" else 2.0
    pt = np.array([lo + 0.25, lo + 0.75])
    env = {"x": float(pt[0]), "y": float(pt[1])}
    out = {}
    with warnings.catch_warnings(), np.errstate(all="ignore"):
        warnings.simplefilter("ignore")
        out["eval"] = _f(np.asarray(nd.evaluate(env)))
        out["whole"] = _f(np.asarray(art["whole"](pt)))
        out["dict"] = _f(np.asarray(art["dict"](env)))
        for k in ("jac1", "grad1", "hess2", "jac3", "jac_node", "hess_node"):
            out[k] = [art[k].__name__] + _arr(art[k](pt))
        out["dy"] = _f(np.asarray(art["dy"](pt)))
        out["degree"] = [compute_degree(e) for e in art["exprs"]] + [compute_degree(nd)]
        try:
            s = art["prob"].solve(method="SLSQP")
            out["solve"] = [s.status.name, {k: round(float(v), 6) for k, v in sorted((s.values or {}).items())},
                            None if s.objective_value is None else round(float(s.objective_value), 6)]
        except Exception as ex:  # noqa: BLE001
            out["solve"] = ["raise:" + type(ex).__name__]
        # expressions as keys of hash / equality based containers: two distinct objects of equal structure are two keys
        if M["twin"] is not None:
            tw = M["twin"]
            out["containers"] = [len({nd, tw}), tw in {nd: 1}, (nd == tw) is True, len({nd: 1, tw: 2}), [nd].count(tw)]
    return out


def small_observe(M) -> dict:
    return small_call(M, small_compile(M))


def small_family(rep, rng, ref, thorough, only=None):
    """two independently built models with the same names whose small nodes have the same structure: compiled,
    differentiated, evaluated and solved in every interleaving; each must see its own leaves"""
    specs = small_specs()
    orders = ["N-then-M", "compile-both-call-both", "M-first", "set-in-between"]
    for i, spec in enumerate(specs):
        if only is not None and i != only:
            continue
        want = {r: ref[json.dumps(["small", i, r])] for r in ("N", "M")}
        for order in (orders if thorough else [orders[(i + (rng.randint(0, 3) if rng is not None else 0)) % 4]]):
            N, M = small_build(spec, "N"), small_build(spec, "M")
            if order == "N-then-M":
                got = {"N": small_observe(N), "M": small_observe(M)}
            elif order == "compile-both-call-both":
                aN, aM = small_compile(N), small_compile(M)
                gM = small_call(M, aM)
                got = {"N": small_call(N, aN), "M": gM}
            elif order == "M-first":
                aM = small_compile(M)
                aN = small_compile(N)
                got = {"N": small_call(N, aN), "M": small_call(M, aM)}
            else:
                aN = small_compile(N)
                small_call(N, aN)
                N["L"]["P"].set(0.125 + (1.0 if spec[:2] == ("un", "acosh") else 0.0))    # the other model's parameter moves
                aM = small_compile(M)
                got = {"M": small_call(M, aM)}
            rep.evaluations += 1
            rep.nontrivial.add(("small", i, order))
            key = "small:" + spec[0]
            rep.histogram[key] = rep.histogram.get(key, 0) + 1
            bad = None
            for r, g in got.items():
                d = same(g, want[r])
                if d:
                    k0 = d.split("/")[1].split("[")[0]
                    bad = {"what": "a model whose node over bare leaves has the same structure and names as another model's sees "
                                   "the other model's leaf",
                           "small": [i, list(spec)], "order": order, "role": r, "where": d, "got": str(g.get(k0))[:200],
                           "fresh": str(want[r].get(k0))[:200]}
                    break
            cont = got["M"].get("containers")
            if bad is None and cont is not None and cont != [2, False, False, 2, 0] and spec[0] != "leaf":
                bad = {"what": "two distinct expression objects of equal structure collide as keys of a set / dict / list search",
                       "small": [i, list(spec)], "order": order, "got": cont, "fresh": [2, False, False, 2, 0]}
            if bad:
                rep.oracle_failures.append(bad)


# ----------------------------------------------------------------------------- bare-leaf constraints and slack variables


def slack_specs(thorough):
    """a constraint whose expression is (or normalises to) a bare variable: leaf kind × sense × right-hand side × where the
    variable occurs first × linear / quadratic objective"""
    rhss = ["0", "0.0", "Constant0", "1.5"] + (["-0.0", "np0", "False"] if thorough else [])
    return [(leaf, sense, rhs, place, obj)
            for leaf in ("scalar", "vecelem")
            for sense in (">=", "<=", "==")
            for rhs in rhss
            for place in ("slack-first", "slack-only", "in-objective", "after-use")
            for obj in ("lin", "quad")]


def slack_build(spec, role: str):
    """model of `role` over the same names x, s (or v[1]): own objects, own bounds / domains"""
    from optyx import Variable, VectorVariable, Problem
    from optyx.core.expressions import Constant

    leaf, sense, rhs, place, objk = spec
    x = Variable("x", lb=0.0, ub=4.0)
    # both ranges contain 0 and 1.5, so every bare constraint is feasible in both models (no slow infeasibility retries)
    if role == "N":
        lb, ub, dom = -2.0, 2.0, "continuous"
    else:
        lb, ub, dom = -1.0, 3.0, ("integer" if sense == "==" else "continuous")
    if leaf == "scalar":
        s_ = Variable("s", lb=lb, ub=ub, domain=dom)
        own = [x, s_]
    else:
        v = VectorVariable("v", 3, lb=lb, ub=ub)
        s_ = v[1]
        own = [x, s_]
    r = {"0": 0, "0.0": 0.0, "Constant0": Constant(0.0), "1.5": 1.5, "-0.0": -0.0, "np0": np.float64(0.0), "False": False}[rhs]
    bare = {">=": lambda: s_ >= r, "<=": lambda: s_ <= r, "==": lambda: s_.eq(r)}[sense]()
    use = x + s_ >= 1.0 if role == "N" else x + s_ >= 2.0
    obj = (x * 2.0 + 1.0) if objk == "lin" else (x - 3.0) ** 2
    if place == "in-objective":
        obj = obj + (0.5 * s_ if objk == "lin" else (s_ - 1.0) ** 2)
    prob = Problem()
    prob.minimize(obj)
    if place == "slack-first":
        prob.subject_to(bare); prob.subject_to(use)
    elif place == "after-use":
        prob.subject_to(use); prob.subject_to(bare)
    else:
        prob.subject_to(bare)
    return {"prob": prob, "own": own, "x": x, "s": s_, "spec": spec, "role": role}


def slack_observe(M) -> dict:
    """what the problem believes its variables are — objects, bounds, domains — through every channel"""
    from optyx.analysis import LinearProgramExtractor
    from optyx.solvers.scipy_solver import _compute_initial_point

    prob = M["prob"]
    out = {}
    with warnings.catch_warnings(), np.errstate(all="ignore"):
        warnings.simplefilter("ignore")
        vs = prob.variables
        out["names"] = [v.name for v in vs]
        # independent of any reference: every variable the problem lists is one of the objects this model was built from
        out["own_objects"] = [any(v is o for o in M["own"]) for v in vs]
        out["bounds_via_objects"] = [[_f(v.lb) if v.lb is not None else None, _f(v.ub) if v.ub is not None else None, v.domain]
                                     for v in vs]
        out["get_bounds"] = [[None if a is None else _f(a), None if b is None else _f(b)] for a, b in prob.get_bounds()]
        out["n_variables"] = prob.n_variables
        out["x0"] = _arr(_compute_initial_point(vs))
        lin = prob._is_linear_problem()
        out["linear"] = bool(lin)
        if lin:
            d = LinearProgramExtractor().extract(prob)
            out["lp"] = [_arr(d.c), None if d.A_ub is None else _arr(d.A_ub), None if d.b_ub is None else _arr(d.b_ub),
                         None if d.A_eq is None else _arr(d.A_eq), None if d.b_eq is None else _arr(d.b_eq),
                         [[None if t is None else _f(t) for t in bd] for bd in d.bounds], list(d.variables)]
        out["solve"] = []
        for m in ("auto", "SLSQP"):
            try:
                sol = prob.solve(method=m)
                out["solve"].append([m, sol.status.name, {k: round(float(v), 6) for k, v in sorted((sol.values or {}).items())},
                                     None if sol.objective_value is None else round(float(sol.objective_value), 6)])
            except Exception as ex:  # noqa: BLE001
                out["solve"].append([m, "raise:" + type(ex).__name__])
        sc = prob._solver_cache
        out["nlp_bounds"] = None if sc is None else [[_f(a), _f(b)] for a, b in sc["bounds"]]
        out["strict"] = []
        for m in ("auto", "SLSQP"):
            try:
                prob.solve(method=m, strict=True)
                out["strict"].append("ok")
            except Exception as ex:  # noqa: BLE001
                out["strict"].append(type(ex).__name__)
    return out


def slack_family(rep, rng, ref, thorough, only=None):
    specs = slack_specs(thorough)
    orders = ["N-then-M", "build-both-observe-M-first", "M-then-N", "N-variables-only-then-M"]
    for i, spec in enumerate(specs):
        if only is not None and i != only:
            continue
        want = {r: ref[json.dumps(["slack", i, r, bool(thorough)])] for r in ("N", "M")}
        for order in (orders if thorough else [orders[i % 4], orders[(i + 2) % 4]]):
            if order == "N-then-M":
                got = {"N": slack_observe(slack_build(spec, "N"))}
                got["M"] = slack_observe(slack_build(spec, "M"))
            elif order == "build-both-observe-M-first":
                N, M = slack_build(spec, "N"), slack_build(spec, "M")
                got = {"M": slack_observe(M)}
                got["N"] = slack_observe(N)
            elif order == "M-then-N":
                got = {"M": slack_observe(slack_build(spec, "M"))}
                got["N"] = slack_observe(slack_build(spec, "N"))
            else:
                N = slack_build(spec, "N")
                N["prob"].n_variables; N["prob"].summary()
                got = {"M": slack_observe(slack_build(spec, "M"))}
            rep.evaluations += 1
            rep.nontrivial.add(("slack", i, order))
            key = f"slack:{spec[0]}:{spec[3]}"
            rep.histogram[key] = rep.histogram.get(key, 0) + 1
            bad = None
            for r, g in got.items():
                if not all(g["own_objects"]):
                    bad = {"what": "Problem.variables of a model holds a Variable object that belongs to another model",
                           "slack": [i, list(spec), bool(thorough)], "order": order, "role": r, "where": "/own_objects",
                           "got": str(list(zip(g["names"], g["own_objects"], g["bounds_via_objects"])))[:300], "fresh": "all own"}
                    break
                d = same(g, want[r])
                if d:
                    k0 = d.split("/")[1].split("[")[0]
                    bad = {"what": "a model with a bare-variable constraint differs from a fresh process after a same-named model",
                           "slack": [i, list(spec), bool(thorough)], "order": order, "role": r, "where": d,
                           "got": str(g.get(k0))[:300], "fresh": str(want[r].get(k0))[:300]}
                    break
            if bad:
                rep.oracle_failures.append(bad)


# ----------------------------------------------------------------------------- distinct views with equal label and size
#
# The label of a vector / matrix view is NOT injective: `x[a:b:s]` is called "x[a:b]" whatever the stride (and a start / stop of
# 0 or None is printed as 0 / len), a row view is called "A[i,:]" whatever the column slice and whether the matrix is
# symmetric (row i of a symmetric matrix holds A[0,i] … A[i,i] … A[i,n-1]), views of a transpose of a transpose, of strided
# blocks, of containers of another length, constructor-made containers whose name looks like a view …  Two independent
# models can therefore hold vector nodes with the SAME label and size over DIFFERENT element lists.  The family below
# enumerates the ways the public API derives views, discovers the colliding labels by building them, and runs sequences of
# models over colliding views through every consumer (values, symbolic / compiled first and second derivatives, root-level
# fast paths, LP extraction, real solves).  Each model is judged by a hand-written NumPy model of the same function (the
# element names of the view are derived independently by slicing a table of names) and against a fresh process.


def _slice_grid(n):
    starts = (None, 0, 1, 2, -1, -2, -3)
    stops = (None, 0, 1, 2, 3, 4, 5, 6, -1, -2)
    steps = (None, 2, 3, -1, -2)
    return [[a, b, c] for a in starts for b in stops for c in steps]


def view_ops(obj, names, ops):
    """apply view operations through the public API to `obj` and, independently, to the table of element names"""
    for op in ops:
        if op[0] == "s":                      # slice of a vector
            sl = slice(*op[1:])
            obj, names = obj[sl], list(names)[sl]
        elif op[0] == "T":
            obj, names = obj.T, names.T
        elif op[0] == "k":                    # matrix key (row, column): int or slice each
            rk, ck = (t if isinstance(t, int) else slice(*t) for t in op[1:])
            obj, names = obj[rk, ck], names[rk, ck]
            if names.ndim == 1:
                names = list(names)
        elif op[0] == "diag":
            obj, names = obj.diagonal(), [names[i, i] for i in range(names.shape[0])]
        else:
            raise ValueError(op)
    return obj, names


def view_container(recipe, lb=None, ub=None):
    """the container of a recipe, its table of element names and the names of its distinct variables (row-major)"""
    from optyx import VectorVariable, MatrixVariable

    if recipe[0] == "vec":
        _, name, n, _ops = recipe
        return VectorVariable(name, n, lb=lb, ub=ub), [f"{name}[{i}]" for i in range(n)], [f"{name}[{i}]" for i in range(n)]
    _, name, r, c, sym, _ops = recipe
    names = np.empty((r, c), dtype=object)
    for i in range(r):
        for j in range(c):
            names[i, j] = f"{name}[{min(i, j)},{max(i, j)}]" if sym else f"{name}[{i},{j}]"
    distinct = []
    for t in names.ravel():
        if t not in distinct:
            distinct.append(t)
    return MatrixVariable(name, r, c, lb=lb, ub=ub, symmetric=bool(sym)), names, distinct


def view_pool(thorough):
    """recipes for every way the API derives a vector view: slices (unit / strided / reversed / clipped / negative indices /
    a start or stop of 0), slices of slices, rows / columns of matrices with every column / row slice, of symmetric
    matrices, of transposes (once, twice), of blocks and strided blocks and their transposes, diagonals, and
    constructor-made containers whose name looks like the label of a view"""
    out = []
    for n in ((3, 4, 5, 6, 8) if thorough else (3, 4, 5, 6)):
        grid = _slice_grid(n)
        out.append(["vec", "x", n, []])
        for s in grid:
            out.append(["vec", "x", n, [["s"] + s]])
        for s in ([None, None, None], [None, None, 2], [1, None, None], [None, None, -1], [0, 4, None], [1, 5, 2]):
            for s2 in ([None, None, 2], [None, None, -1], [None, 2, None], [1, None, None], [1, None, 2], [None, -1, None],
                       [0, 2, None], [-2, None, None]):
                out.append(["vec", "x", n, [["s"] + s, ["s"] + s2]])
    full = [None, None, None]
    part = [full, [0, 2, None], [1, 3, None], [2, 4, None], [None, None, 2], [None, None, -1], [1, None, None], [None, -1, None],
            [1, None, 2], [0, 3, 2]]
    shapes = [(2, 2), (3, 3), (4, 4), (2, 3), (3, 2), (2, 4), (4, 2), (3, 4), (4, 3)] + ([(5, 5), (2, 6)] if thorough else [])
    for (r, c) in shapes:
        for sym in ((0, 1) if r == c else (0,)):
            pres = [[], [["T"]], [["T"], ["T"]],
                    [["k", [0, 2, None], [0, 2, None]]], [["k", [0, 4, 2], [0, 4, 2]]], [["k", [1, 3, None], [0, 2, None]]],
                    [["k", [0, 4, 3], [0, 2, None]]], [["k", [0, 4, 2], [0, 4, 2]], ["T"]], [["k", [0, 2, None], [0, 2, None]], ["T"]],
                    [["T"], ["k", [0, 2, None], [0, 2, None]]]]
            for pre in pres:
                for i in range(max(r, c)):
                    for p in part:
                        out.append(["mat", "A", r, c, sym, pre + [["k", i, p]]])
                        out.append(["mat", "A", r, c, sym, pre + [["k", p, i]]])
                out.append(["mat", "A", r, c, sym, pre + [["diag"]]])
    for nm in ("x[0:3]", "x[1:3]", "x[0:4]", "A[1,:]", "A[0,:]", "A[:,1]", "A.T[0,:]", "diag(A)", "x[0:4][0:2]"):
        for n in (2, 3, 4):
            out.append(["vec", nm, n, []])
    return out


def view_groups(thorough):
    """build every recipe of the pool, group the views by (label, size) as the library reports them and keep the labels that
    are carried by at least two different element lists: {(label, size): [recipe, ...]} with one recipe per element list"""
    groups = {}
    cache = {}
    for rc in view_pool(thorough):
        key = json.dumps(rc[:-1])
        if key not in cache:
            cache[key] = view_container(rc)
        cont, names, _ = cache[key]
        try:
            v, el = view_ops(cont, names, rc[-1])
        except (IndexError, ValueError, TypeError, AttributeError):
            continue                        # empty slice / key outside this shape / diagonal of a non-square block
        except Exception as ex:  # noqa: BLE001
            if type(ex).__name__ in ("SquareMatrixError", "InvalidOperationError", "InvalidSizeError"):
                continue
            raise
        if not hasattr(v, "get_variables") or not hasattr(v, "dot") or len(el) > 6:
            continue
        groups.setdefault((v.name, v.size), {}).setdefault(tuple(el), rc)
    return {k: list(d.values()) for k, d in groups.items() if len(d) >= 2}


VIEW_CANON = [   # always run (both directions over the rounds): one group per way of producing equal labels
    [["mat", "A", 3, 3, 1, [["k", 1, [None, None, None]]]], ["mat", "A", 3, 3, 0, [["k", 1, [None, None, None]]]]],
    [["mat", "A", 2, 4, 0, [["k", 0, [0, 2, None]]]], ["mat", "A", 2, 4, 0, [["k", 0, [2, 4, None]]]]],
    [["vec", "x", 4, [["s", None, None, 2]]], ["vec", "x", 4, [["s", 0, 4, 3]]]],
    [["vec", "x", 4, [["s", None, None, -1]]], ["vec", "x", 4, [["s", None, None, None]]]],
    [["mat", "A", 3, 3, 0, [["k", [None, None, -1], 2]]], ["mat", "A", 3, 3, 1, [["k", [None, None, None], 2]]]],
    [["mat", "A", 3, 3, 0, [["T"], ["T"], ["k", 0, [None, None, None]]]], ["mat", "A", 3, 3, 1, [["T"], ["T"], ["k", 0, [None, None, -1]]]]],
    [["vec", "x", 5, [["s", 0, 3, None]]], ["vec", "x[0:3]", 3, []]],
]

# (terms over the view, constraint over the view, how the remaining variables of the container enter)
VIEW_TERMSETS = [
    (["res"], None, "rows"),
    (["sum", "res"], "eq", "scalar"),
    (["quad", "dot"], "ge", "rows"),
    (["l2", "res"], None, "scalar"),
    (["l1", "sum", "res"], None, "rows"),
    (["cross", "res"], None, "scalar"),
    (["mvp"], "eq", "rows"),
    (["lin"], "ge", None),
]
VIEW_NO_SOLVE = {4}        # |.|_1 is not differentiable at its minimiser


def _nat_key(name):
    import re

    return [int(p) if p.isdigit() else p for p in re.split(r"(\d+)", name)]


def view_build(recipe, tset):
    """a model whose vector nodes are taken over the view of `recipe`: squared residuals / sums of several vector terms (the
    nodes sit inside a general tree, so the registered derivative rules are used), root-level forms in the constraints.
    Returns the optyx objects and `spec`, the same function as plain data for the NumPy model"""
    from optyx import Problem, VectorVariable
    from optyx.core.matrices import quadratic_form

    terms, cons_kind, ridge = VIEW_TERMSETS[tset]
    lin = terms == ["lin"]
    lb, ub = (0.0, 4.0) if lin else (-40.0, 40.0)
    cont, names, distinct = view_container(recipe, lb, ub)
    v, E = view_ops(cont, names, recipe[-1])
    E = list(E)
    k = len(E)
    c = np.array([(1.5 + 0.75 * j) * (1.0 if lin or j % 2 == 0 else -1.0) for j in range(k)])
    spec, obj = [], None

    def add(e):
        nonlocal obj
        obj = e if obj is None else obj + e

    extra = []
    for t in terms:
        if t == "res":
            add((c @ v - 1.25) ** 2); spec.append(("res", E, c, 1.25))
        elif t == "sum":
            add((v.sum() + 0.5) ** 2); spec.append(("res", E, np.ones(k), -0.5))
        elif t == "dot":
            add(0.75 * v.dot(v)); spec.append(("sq", E, 0.75))
        elif t == "l2":
            add(1.5 * v.norm()); spec.append(("l2", E, 1.5))
        elif t == "l1":
            add(0.5 * v.norm(1)); spec.append(("l1", E, 0.5))
        elif t == "quad":
            Q = np.array([[2.0 + i if i == j else 0.125 * ((i + 2 * j) % 3) for j in range(k)] for i in range(k)])
            add(quadratic_form(v, Q) * 0.5); spec.append(("quad", E, Q * 0.5))
        elif t == "cross":
            u = VectorVariable("u", k, lb=lb, ub=ub)
            U = [f"u[{i}]" for i in range(k)]
            extra += U
            add(0.5 * v.dot(u) + u.dot(u) - (c @ u)); spec += [("bil", E, U, 0.5), ("sq", U, 1.0), ("lin", U, -c)]
        elif t == "mvp":
            B = np.array([[1.0 + 0.5 * ((i + j) % 4) * (-1.0) ** j for j in range(k)] for i in range(2)])
            r = B @ v
            add((r[0] - 0.5) ** 2 + (r[1] + 0.25) ** 2); spec += [("res", E, B[0], 0.5), ("res", E, B[1], -0.25)]
        elif t == "lin":
            add(c @ v); spec.append(("lin", E, c))
    # the rest of the container: every variable of it is part of the model (and the model is strictly convex)
    if recipe[0] == "vec":
        rows, rows_n, scalars = [cont], [list(names)], list(cont)
    else:
        rows = [cont[i, :] for i in range(cont.rows)]
        rows_n = [list(names[i, :]) for i in range(cont.rows)]
        seen, scalars = set(), []
        for i in range(cont.rows):
            for j in range(cont.cols):
                if names[i, j] not in seen:
                    seen.add(names[i, j]); scalars.append(cont[i, j])
    if lin:
        for rw, rn in zip(rows, rows_n):
            add(0.25 * rw.sum()); spec.append(("lin", rn, 0.25 * np.ones(len(rn))))
    elif ridge == "rows":
        for rw, rn in zip(rows, rows_n):
            add(0.5 * rw.dot(rw)); spec.append(("sq", rn, 0.5))
    else:
        for sv in scalars:
            add(0.5 * sv ** 2)
        spec.append(("sq", distinct, 0.5))
    cons, cspec = [], []
    if cons_kind == "eq":
        c2 = np.arange(1.0, k + 1.0)
        cons.append((c2 @ v).eq(1.5)); cspec.append(("==", E, c2, 1.5))
    elif cons_kind == "ge":
        cons.append(v.sum() >= 2.0); cspec.append((">=", E, np.ones(k), 2.0))
    prob = Problem()
    prob.minimize(obj)
    if cons:
        prob.subject_to(cons)
    order = sorted(distinct + extra, key=_nat_key)
    return {"recipe": recipe, "tset": tset, "view": v, "E": E, "obj": obj, "cons": cons, "prob": prob, "spec": spec,
            "cspec": cspec, "order": order, "c": c, "lin": lin, "bounds": (lb, ub), "cont": cont}


def view_points(n):
    return [np.array([(0.75 + 0.25 * i) * (1.0 if i % 2 == 0 else -1.0) for i in range(n)]),
            np.array([-1.25 + 0.375 * i for i in range(n)])]


def view_observe(M) -> dict:
    """the model through every channel, as data"""
    from optyx.core.compiler import compile_expression, compile_gradient, compile_to_dict_function
    from optyx.core.autodiff import compile_jacobian, compile_hessian, gradient
    from optyx.analysis import compute_degree, LinearProgramExtractor

    obj, prob, v = M["obj"], M["prob"], M["view"]
    out = {"label": [v.name, v.size], "elements": [t.name for t in v.get_variables()]}
    with warnings.catch_warnings(), np.errstate(all="ignore"):
        warnings.simplefilter("ignore")
        vs = prob.variables
        out["varnames"] = [t.name for t in vs]
        out["degree"] = [compute_degree(obj)] + [compute_degree(cn.expr) for cn in M["cons"]]
        root = [M["c"] @ v, v.sum()]                       # root-level vector nodes (per-node Jacobian rows)
        exprs = [obj] + [cn.expr for cn in M["cons"]] + root
        fn, df, gf, hf = compile_expression(obj, vs), compile_to_dict_function(obj, vs), compile_gradient(obj, vs), compile_hessian(obj, vs)
        jf = compile_jacobian(exprs, vs)
        jr = compile_jacobian(root, vs)
        sym = [gradient(obj, t) for t in vs]
        out["paths"] = [gf.__name__, hf.__name__, jf.__name__, jr.__name__]
        for i, x in enumerate(view_points(len(vs))):
            env = {t.name: float(z) for t, z in zip(vs, x)}
            out[f"eval{i}"] = _f(np.asarray(obj.evaluate(env)))
            out[f"fn{i}"] = _f(np.asarray(fn(x)))
            out[f"dict{i}"] = _f(np.asarray(df(env)))
            out[f"symgrad{i}"] = [_f(np.asarray(g.evaluate(env))) for g in sym]
            out[f"grad{i}"] = _arr(gf(x))
            out[f"jac{i}"] = _arr(jf(x))
            out[f"jacroot{i}"] = _arr(jr(x))
            out[f"hess{i}"] = _arr(hf(x))
            out[f"consval{i}"] = [_f(np.asarray(cn.expr.evaluate(env))) for cn in M["cons"]]
        if M["lin"]:
            d = LinearProgramExtractor().extract(prob)
            out["lp"] = [list(d.variables), _arr(d.c), None if d.A_ub is None else _arr(d.A_ub), None if d.b_ub is None else _arr(d.b_ub),
                         [[None if t is None else _f(t) for t in bd] for bd in d.bounds]]
        out["solve"] = []
        if M["tset"] not in VIEW_NO_SOLVE:
            methods = ("auto",) if M["lin"] else (("SLSQP",) if M["cons"] else ("SLSQP", "L-BFGS-B"))
            for m in methods:
                try:
                    s = prob.solve(method=m)
                    out["solve"].append([m, s.status.name, {k: round(float(z), 6) for k, z in sorted((s.values or {}).items())},
                                         None if s.objective_value is None else round(float(s.objective_value), 6)])
                except Exception as ex:  # noqa: BLE001
                    out["solve"].append([m, "raise:" + type(ex).__name__])
    return out


def view_numpy(spec, order):
    """the function described by `spec` as plain NumPy: value and gradient callables over the variables `order`"""
    pos = {nm: i for i, nm in enumerate(order)}
    items = [(t[0], np.array([pos[nm] for nm in t[1]], dtype=int)) + tuple(t[2:]) for t in spec]
    items = [it if it[0] != "bil" else (it[0], it[1], np.array([pos[nm] for nm in it[2]], dtype=int), it[3]) for it in items]

    def f(x):
        tot = 0.0
        for it in items:
            xe = x[it[1]]
            if it[0] == "res":
                tot += (it[2] @ xe - it[3]) ** 2
            elif it[0] == "sq":
                tot += it[2] * float(xe @ xe)
            elif it[0] == "l2":
                tot += it[2] * math.sqrt(float(xe @ xe))
            elif it[0] == "l1":
                tot += it[2] * float(np.abs(xe).sum())
            elif it[0] == "quad":
                tot += float(xe @ it[2] @ xe)
            elif it[0] == "bil":
                tot += it[3] * float(xe @ x[it[2]])
            elif it[0] == "lin":
                tot += float(it[2] @ xe)
        return float(tot)

    def g(x):
        out = np.zeros(len(order))
        for it in items:
            xe = x[it[1]]
            if it[0] == "res":
                np.add.at(out, it[1], 2.0 * (it[2] @ xe - it[3]) * it[2])
            elif it[0] == "sq":
                np.add.at(out, it[1], 2.0 * it[2] * xe)
            elif it[0] == "l2":
                nrm = math.sqrt(float(xe @ xe))
                if nrm > 0.0:          # (the kink itself is never a point of comparison; a line search may touch it)
                    np.add.at(out, it[1], it[2] * xe / nrm)
            elif it[0] == "l1":
                np.add.at(out, it[1], it[2] * np.sign(xe))
            elif it[0] == "quad":
                np.add.at(out, it[1], (it[2] + it[2].T) @ xe)
            elif it[0] == "bil":
                np.add.at(out, it[1], it[3] * x[it[2]])
                np.add.at(out, it[2], it[3] * xe)
            elif it[0] == "lin":
                np.add.at(out, it[1], it[2])
        return out

    return f, g


def _close(a, b, rel, abs_):
    a, b = np.asarray(a, dtype=float).ravel(), np.asarray(b, dtype=float).ravel()
    return a.shape == b.shape and bool(np.all(np.abs(a - b) <= abs_ + rel * np.maximum(np.abs(a), np.abs(b))))


def _num(lst):
    return np.array([z if isinstance(z, (int, float)) else float("nan") for z in lst], dtype=float)


def view_judge(M, got):
    """independent verdict on the observations `got` of model M: element list of the view (names derived by slicing a table),
    variable list, values / gradients / Jacobian rows / Hessians against the NumPy model (Hessian: central differences of the
    NumPy gradient; the functions are smooth at the points used), LP data, and the reported optimum against the optimum of
    the NumPy model (linear algebra for the quadratic models, SciPy on the NumPy function otherwise).
    Returns (where, got, expected) of the first disagreement or None"""
    from scipy.optimize import linprog, minimize

    order = M["order"]
    if got["elements"] != M["E"]:
        return "/elements", got["elements"], M["E"]
    if got["varnames"] != order:
        return "/varnames", got["varnames"], order
    f, g = view_numpy(M["spec"], order)
    n = len(order)
    pos = {nm: i for i, nm in enumerate(order)}
    rows = []
    for (_sense, E, cc, rhs) in M["cspec"]:
        a = np.zeros(n)
        np.add.at(a, [pos[t] for t in E], cc)
        rows.append((a, rhs))
    rc, rs = np.zeros(n), np.zeros(n)
    np.add.at(rc, [pos[t] for t in M["E"]], M["c"])
    np.add.at(rs, [pos[t] for t in M["E"]], 1.0)
    for i, x in enumerate(view_points(n)):
        fx, gx = f(x), g(x)
        for key in (f"eval{i}", f"fn{i}", f"dict{i}"):
            if not _close([got[key]] if isinstance(got[key], float) else [float("nan")], [fx], 1e-9, 1e-9):
                return "/" + key, got[key], fx
        for key in (f"symgrad{i}", f"grad{i}"):
            if not _close(_num(got[key]), gx, 1e-8, 1e-8):
                return "/" + key, got[key], gx.tolist()
        jac = np.vstack([gx] + [a for a, _ in rows] + [rc, rs])
        if not _close(_num(got[f"jac{i}"]), jac, 1e-8, 1e-8):
            return f"/jac{i}", got[f"jac{i}"], jac.ravel().tolist()
        if not _close(_num(got[f"jacroot{i}"]), np.vstack([rc, rs]), 1e-8, 1e-8):
            return f"/jacroot{i}", got[f"jacroot{i}"], np.vstack([rc, rs]).ravel().tolist()
        cv = [float(a @ x - rhs) for a, rhs in rows]
        if not _close(_num(got[f"consval{i}"]), cv, 1e-9, 1e-9):
            return f"/consval{i}", got[f"consval{i}"], cv
        h = 1e-5
        H = np.array([(g(x + h * e) - g(x - h * e)) / (2 * h) for e in np.eye(n)])
        if not _close(_num(got[f"hess{i}"]), H, 1e-5, 1e-5):
            return f"/hess{i}", got[f"hess{i}"], np.round(H, 6).ravel().tolist()
    lb, ub = M["bounds"]
    if M["lin"]:
        cvec = g(np.zeros(n))
        A_ub = np.array([-a for a, _ in rows]); b_ub = np.array([-rhs for _, rhs in rows])
        lp = got["lp"]
        if lp[0] != order:
            return "/lp/variables", lp[0], order
        if not _close(_num(lp[1]), cvec, 1e-12, 1e-12):
            return "/lp/c", lp[1], cvec.tolist()
        if lp[2] is None or lp[3] is None or not _close(_num(lp[2]), A_ub, 1e-12, 1e-12) or not _close(_num(lp[3]), b_ub, 1e-12, 1e-12):
            return "/lp/A_ub,b_ub", [lp[2], lp[3]], [A_ub.ravel().tolist(), b_ub.tolist()]
        res = linprog(cvec, A_ub=A_ub, b_ub=b_ub, bounds=[(lb, ub)] * n, method="highs")
        xstar, fstar = res.x, float(res.fun)
    else:
        quadratic = all(t[0] in ("res", "sq", "quad", "bil", "lin") for t in M["spec"])
        if quadratic:
            g0 = g(np.zeros(n))
            H = np.array([g(e) - g0 for e in np.eye(n)])
            xstar = np.linalg.solve(H, -g0)
            for a, rhs in rows:         # one constraint at most: equality, or an inequality that is active iff violated at xstar
                if M["cspec"][0][0] == "==" or a @ xstar < rhs:
                    K = np.block([[H, -a[:, None]], [a[None, :], np.zeros((1, 1))]])
                    xstar = np.linalg.solve(K, np.concatenate([-g0, [rhs]]))[:n]
        else:
            r0 = minimize(f, view_points(n)[0], jac=g, method="BFGS", options={"gtol": 1e-10})
            xstar = r0.x
        fstar = f(xstar)
    for ent in got["solve"]:
        if len(ent) < 4 or ent[1] != "OPTIMAL" or ent[3] is None:
            return "/solve", ent, ["OPTIMAL", dict(zip(order, np.round(xstar, 6).tolist())), round(fstar, 6)]
        xs = np.array([ent[2].get(nm, float("nan")) for nm in order])
        okx = _close(xs, xstar, 2e-3, 2e-3)
        if sorted(ent[2]) != sorted(order) or not okx or not _close([ent[3]], [fstar], 1e-4, 1e-4):
            return "/solve", ent, ["OPTIMAL", dict(zip(order, np.round(xstar, 6).tolist())), round(fstar, 6)]
    return None


def view_plan(rng, thorough, n_sampled=None):
    """sequences of 2–3 recipes with equal label and size and pairwise different element lists, each with a term set: the
    fixed canonical groups plus groups sampled from everything the pool produced (stratified: vectors, matrices, symmetric
    against plain, look-alike containers)"""
    groups = view_groups(thorough)
    keys = sorted(groups, key=lambda kk: (kk[0], kk[1]))
    strata = {"vec": [], "mat": [], "sym": [], "mixed": []}
    for kk in keys:
        rcs = groups[kk]
        kinds = {rc[0] for rc in rcs}
        names = {rc[1] for rc in rcs}
        if len(names) > 1:
            strata["mixed"].append(kk)
        elif kinds == {"vec"}:
            strata["vec"].append(kk)
        elif len({rc[4] for rc in rcs}) > 1:
            strata["sym"].append(kk)
        else:
            strata["mat"].append(kk)
    quota = {"vec": 8, "mat": 7, "sym": 7, "mixed": 4} if not thorough else {"vec": 30, "mat": 30, "sym": 20, "mixed": 10}
    if n_sampled is not None:
        quota = {k: n_sampled for k in quota}
    plan = []
    off = rng.randint(0, 7)
    for i, seq in enumerate(VIEW_CANON):
        seq = list(seq)
        if rng.random() < 0.5:
            seq.reverse()
        plan.append((seq, (off + i) % len(VIEW_TERMSETS) if i else 0))
        if thorough:
            plan.append((seq[::-1], (off + i + 3) % len(VIEW_TERMSETS)))
    j = len(plan)
    for st in ("vec", "mat", "sym", "mixed"):
        ks = strata[st]
        for kk in (rng.sample(ks, min(quota[st], len(ks))) if ks else []):
            rcs = groups[kk]
            if st == "sym":       # one symmetric and one plain recipe
                a = rng.choice([rc for rc in rcs if rc[4]]); b = rng.choice([rc for rc in rcs if not rc[4]])
                seq = [a, b]
            elif st == "mixed":
                a = rng.choice(rcs); b = rng.choice([rc for rc in rcs if rc[1] != a[1]])
                seq = [a, b]
            else:
                seq = rng.sample(rcs, min(len(rcs), 3 if rng.random() < 0.3 else 2))
            rng.shuffle(seq)
            plan.append((seq, (off + j) % len(VIEW_TERMSETS)))
            j += 1
    return plan, {k: len(v) for k, v in strata.items()}


def view_family(rep, ref, plan, stop_at_first=False):
    """each sequence: the models are built, observed through every channel and dropped one after the other in one process
    (nothing cleared in between), so each one follows models whose views carry its labels over other elements"""
    import gc

    for (seq, tset) in plan:
        for j, rc in enumerate(seq):
            M = view_build(rc, tset)
            got = view_observe(M)
            rep.evaluations += 1
            if j:
                rep.nontrivial.add(("view", json.dumps(seq), tset, j))
            key = f"views:{'+'.join(VIEW_TERMSETS[tset][0])}"
            rep.histogram[key] = rep.histogram.get(key, 0) + 1
            bad = None
            verdict = view_judge(M, got)
            if verdict:
                bad = {"what": "a model over a view that shares its label and size with a view of an earlier, independent model (other "
                               "elements) disagrees with the NumPy model of the same function",
                       "view": [seq, tset, j], "label": got["label"], "elements": got["elements"],
                       "earlier": [view_build(o, tset)["E"] for o in seq[:j]],
                       "where": verdict[0], "got": str(verdict[1])[:300], "expected": str(verdict[2])[:300]}
            elif ref is not None:
                d = same(got, ref[json.dumps(["view", rc, tset])])
                if d:
                    k0 = d.split("/")[1].split("[")[0]
                    bad = {"what": "a model over a view that shares its label and size with a view of an earlier model differs from a "
                                   "fresh process", "view": [seq, tset, j], "label": got["label"], "where": d,
                           "got": str(got.get(k0))[:300], "fresh": str(ref[json.dumps(["view", rc, tset])].get(k0))[:300]}
            del M
            if bad:
                rep.oracle_failures.append(bad)
                if stop_at_first:
                    return bad
                break
        gc.collect()
    return None


# ----------------------------------------------------------------------------- faulting prefixes and interpreter state


def interpreter_state():
    import sys as _sys

    return {"recursionlimit": _sys.getrecursionlimit(), "showwarning": warnings.showwarning,
            "filters": len(warnings.filters), "errstate": dict(np.geterr())}


def faulting_prefix():
    """calls of other models that end in an exception (every class the library raises on purpose, plus a back end that
    is interrupted): none of them may leave process-wide state behind"""
    from optyx import Variable, Problem, sin
    import optyx.solvers.scipy_solver as SS
    from optyx.core.autodiff import increased_recursion_limit

    z = Variable("s0", lb=0.0, ub=3.0)
    k = Variable("s1", domain="integer", lb=0, ub=5)
    outcomes = []

    def attempt(f):
        try:
            with warnings.catch_warnings():
                warnings.simplefilter("ignore")
                f()
            outcomes.append("ok")
        except BaseException as ex:  # noqa: BLE001
            outcomes.append(type(ex).__name__)

    attempt(lambda: Problem().solve())
    attempt(lambda: Problem().minimize(sin(z) + z * z).solve(method="linprog"))
    attempt(lambda: Problem().minimize(z + k).solve(strict=True))
    attempt(lambda: Problem().minimize(z * z + k).solve(method="SLSQP", strict=True))
    attempt(lambda: Problem().minimize(z).subject_to([z >= 1, z + 1]))
    attempt(lambda: Problem().minimize("not an expression"))

    def interrupted(exc):
        old = SS.minimize

        def boom(*a, **kw):
            kw.get("jac", lambda x: 0)(np.asarray(kw.get("x0", a[1] if len(a) > 1 else [0.0]), dtype=float))
            raise exc
        SS.minimize = boom
        try:
            Problem().minimize((z - 1.0) ** 2 + (k - 2.0) ** 2).solve(method="trust-constr")
        finally:
            SS.minimize = old

    attempt(lambda: interrupted(KeyboardInterrupt()))
    attempt(lambda: interrupted(RuntimeError("back end failed")))

    def recursion_ctx():
        with increased_recursion_limit(3000):
            raise ValueError("inside")
    attempt(recursion_ctx)
    return outcomes


# ----------------------------------------------------------------------------- aborted operations on other models
#
# A prefix history does not only consist of operations that SUCCEED.  An interactive user / a service catches the exception of
# a call that went wrong and carries on with the next, unrelated model.  The family below builds histories of 1–3 operations on
# other models N that END IN AN EXCEPTION HALF WAY — every public compile / gradient / degree / evaluate / variables / solve
# entry point × every way of making it raise after part of the work was done:
#   missing     a variable of the expression is absent from the variable list handed to the compile function (KeyError);
#   deep-right  a right-deep chain longer than the interpreter's recursion limit (the depth estimates follow the left spine);
#   bad-op      an operator the library does not know, somewhere inside a valid tree;
#   foreign     a user-defined Expression subclass somewhere inside a valid tree;
#   seam        a perfectly valid model, the k-th call of an internal helper of one library module raises (RuntimeError,
#               MemoryError, KeyboardInterrupt, FloatingPointError) — k anywhere between the first and the last call;
#   call-fault  the compiled callables themselves raise (array too short, np.errstate(all="raise") at a singular point);
#   ok          (for contrast, inside longer histories) the same entry point on a valid model.
# N is built over the NAMES of the measured model M, at SHIFTED POSITIONS of the variable list (first name dropped, a name put
# in front, rotated, reversed …).  Then M (new objects) is built and observed through every channel — the channel used first
# rotates, because only the operation immediately after the abort may be the one that is hurt — and judged by the formula the
# recipe wrote down, in NumPy (values, analytic monomial gradients, central differences of them for the Hessian, the
# hand-computed optimum of the separable quadratic that is solved), and against a fresh process.

ABORT_NAMES = ["alpha", "at", "b", "c", "fee", "load", "p0", "q0", "q1", "w", "x2", "x10"]
ABORT_CHANNELS = ["fn", "dict", "grad", "jac", "hess", "leaf", "symgrad", "solve", "solve_auto", "lp"]
ABORT_ENTRIES = ["compile_expression", "compile_to_dict_function", "compile_gradient", "compile_jacobian", "compile_hessian",
                 "gradient", "compute_degree", "evaluate", "variables", "solve_objective", "solve_constraint", "solve_auto",
                 "solve_lp"]
ABORT_MISSING_ENTRIES = ABORT_ENTRIES[:5] + ["evaluate"]
ABORT_SEAMS = {
    "optyx.core.compiler": ["compile_expression", "compile_to_dict_function", "compile_gradient", "compile_jacobian",
                            "compile_hessian", "solve_objective", "solve_constraint", "solve_auto"],
    "optyx.core.autodiff": ["gradient", "compile_gradient", "compile_jacobian", "compile_hessian", "solve_objective",
                            "solve_constraint"],
    "optyx.analysis": ["compute_degree", "solve_auto", "solve_lp"],
    "optyx.solvers.scipy_solver": ["solve_objective", "solve_constraint", "solve_auto"],
    "optyx.solvers.lp_solver": ["solve_lp"],
    "optyx.problem": ["variables", "solve_objective", "solve_constraint", "solve_auto", "solve_lp"],
}
ABORT_EXC = ["RuntimeError", "MemoryError", "KeyboardInterrupt", "FloatingPointError"]
ABORT_CALL_FAULTS = 4


def abort_combos():
    """every (kind, entry) of an operation that is meant to end in an exception half way"""
    out = [("missing", e) for e in ABORT_MISSING_ENTRIES]
    out += [(k, e) for k in ("deep-right", "bad-op", "foreign") for e in ABORT_ENTRIES]
    out += [("seam:" + m, e) for m, es in ABORT_SEAMS.items() for e in es]
    out += [("call-fault", str(i)) for i in range(ABORT_CALL_FAULTS)]
    return out


def abort_n_expr(vs, variant, bad=None, pos=0, linear=False):
    """a valid expression over the variables `vs` (each occurs; a left-leaning sum of products — of multiples if `linear` — in
    list order); `bad`, if given, becomes term number `pos` of the sum, so that 0 … all of the valid leaves are visited before it"""
    n = len(vs)
    if linear:
        terms = [(1.5 + 0.25 * ((i + variant) % 4)) * vs[i] for i in range(n)] + [vs[variant % n] * 0.5]
    else:
        terms = [(1.5 + 0.25 * ((i + variant) % 4)) * vs[i] * vs[(i + 1) % n] for i in range(n)] + [vs[variant % n] ** 2]
    if bad is not None:
        terms.insert(pos % (len(terms) + 1), bad)
    e = terms[0]
    for t in terms[1:]:
        e = e + t
    return e


def abort_entry(entry, e, vs, handed, env):
    """one public entry point on the expression `e` of a model over `vs` (`handed` = the variable list given to compile_*)"""
    from optyx import Problem
    from optyx.core.compiler import compile_expression, compile_gradient, compile_to_dict_function
    from optyx.core.autodiff import compile_jacobian, compile_hessian, gradient
    from optyx.analysis import compute_degree, is_linear, is_quadratic

    x = np.array([env.get(v.name, 0.5) for v in handed], dtype=float)
    if entry == "compile_expression":
        compile_expression(e, handed)(x)
    elif entry == "compile_to_dict_function":
        compile_to_dict_function(e, handed)(env)
    elif entry == "compile_gradient":
        compile_gradient(e, handed)(x)
    elif entry == "compile_jacobian":
        compile_jacobian([handed[0] * 2.0 + 1.0, e], handed)(x)
    elif entry == "compile_hessian":
        compile_hessian(e, handed)(x)
    elif entry == "gradient":
        [gradient(e, v) for v in vs]
    elif entry == "compute_degree":
        compute_degree(e); is_linear(e); is_quadratic(e)
    elif entry == "evaluate":
        e.evaluate(env)
    elif entry == "variables":
        P = Problem().minimize(e)
        P.variables; P.n_variables; P.get_bounds(); P.summary()
    elif entry == "solve_objective":
        Problem().minimize(e).solve(method="SLSQP")
    elif entry == "solve_constraint":
        ridge = sum(((v - 1.0) ** 2 for v in vs[1:]), start=(vs[0] - 1.0) ** 2)
        Problem().minimize(ridge).subject_to([vs[0] + vs[-1] >= -100.0, e >= -1000.0]).solve(method="SLSQP")
    elif entry == "solve_auto":
        lin = sum(((1.0 + i) * v for i, v in enumerate(vs[1:])), start=0.5 * vs[0])
        Problem().minimize(lin).subject_to([e >= -1000.0]).solve()
    elif entry == "solve_lp":                 # the LP route (extraction, HiGHS) whenever `e` is linear
        lin = sum(((1.0 + i) * v for i, v in enumerate(vs[1:])), start=0.5 * vs[0])
        Problem().minimize(lin).subject_to([vs[0] + vs[-1] >= -2.0, e >= -1000.0]).solve()
    else:
        raise ValueError(entry)


def abort_seam(modname, k, excname, thunk):
    """run `thunk` while every function (and every plain method of a class) DEFINED in the library module `modname` counts its
    calls; the k-th call raises `excname` instead of running (k = None: count only).  Returns the number of calls seen.
    The originals are put back on every exit path."""
    import builtins
    import functools
    import importlib
    import types

    mod = importlib.import_module(modname)
    exc = getattr(builtins, excname) if excname else None
    state = {"n": 0}

    def wrap(fn):
        @functools.wraps(fn)
        def w(*a, **kw):
            state["n"] += 1
            if k is not None and state["n"] == k:
                raise exc(f"fault injected at call {k} of the helpers of {modname} ({fn.__name__})")
            return fn(*a, **kw)
        return w

    patched = []
    try:
        for name, obj in list(vars(mod).items()):
            if isinstance(obj, types.FunctionType) and obj.__module__ == modname:
                patched.append((mod, name, obj)); setattr(mod, name, wrap(obj))
            elif isinstance(obj, type) and obj.__module__ == modname:
                for an, ao in list(vars(obj).items()):
                    if isinstance(ao, types.FunctionType) and not an.startswith("__"):
                        patched.append((obj, an, ao)); setattr(obj, an, wrap(ao))
        thunk()
    finally:
        for o, nm, f in reversed(patched):
            setattr(o, nm, f)
    return state["n"]


def abort_op(op):
    """one operation of a prefix history, on a model N of its own (fresh objects).  op = [kind, entry, names of N in the order
    of its variable list, variant, arg].  Returns the class name of the exception the caller caught, or "ok"."""
    from optyx import Variable, log
    from optyx.core.expressions import BinaryOp, Expression
    from optyx.core.compiler import compile_expression, compile_gradient
    from optyx.core.autodiff import compile_jacobian, compile_hessian

    kind, entry, nnames, variant, arg = op
    n = len(nnames)
    lin = entry == "solve_lp"

    def fresh():
        vs = [Variable(nm, lb=-3.0 - variant % 3, ub=4.0 + variant % 2) for nm in nnames]
        return vs, {v.name: 0.5 + 0.25 * i for i, v in enumerate(vs)}

    def call():
        vs, env = fresh()
        handed = list(vs)
        if kind == "missing":
            m = arg % n
            handed = vs[:m] + vs[m + 1:]
            env.pop(vs[m].name)
            e = abort_n_expr(vs, variant)
        elif kind == "deep-right":
            e = abort_n_expr(vs, variant, linear=lin)
            for i in range(arg):
                e = (vs[i % n] + e) if i % 5 else (vs[i % n] * 0.5 - e)
        elif kind == "bad-op":
            e = abort_n_expr(vs, variant, BinaryOp(vs[arg % n], vs[(arg + 1) % n], "%"), arg, linear=lin)
        elif kind == "foreign":
            class Opaque(Expression):                      # a user-defined node the library has no rule for
                __slots__ = ()

                def __init__(self):
                    self._hash = None
                    self._degree = None

                def evaluate(self, values):
                    return 1.0

                def get_variables(self):
                    return set()

            e = abort_n_expr(vs, variant, vs[arg % n] * Opaque(), arg, linear=lin)
        elif kind == "call-fault":
            cf = int(entry)
            e = abort_n_expr(vs, variant) + 1.0 / (vs[0] - vs[1]) + log(vs[0])
            f = [lambda: compile_expression(e, vs), lambda: compile_gradient(e, vs), lambda: compile_jacobian([e, vs[0] * vs[1]], vs),
                 lambda: compile_hessian(e, vs)][cf % 4]()
            if arg % 2:
                f(np.zeros(max(0, n - 1 - arg % 3)))         # array shorter than the variable list
            else:
                with np.errstate(all="raise"):
                    f(np.zeros(n))                           # 1/0 and log(0) inside the compiled callable
            return
        else:
            e = abort_n_expr(vs, variant, linear=lin)
        abort_entry(entry, e, vs, handed, env)

    try:
        with warnings.catch_warnings(), np.errstate(all="ignore"):
            warnings.simplefilter("ignore")
            if kind.startswith("seam:"):
                modname = kind.split(":", 1)[1]
                total = abort_seam(modname, None, None, call)            # a valid run on a twin model: counts the helper calls
                if total == 0:
                    return "ok"
                k = max(1, min(total, int(math.ceil(arg[0] * total))))
                abort_seam(modname, k, arg[1], call)
            else:
                call()
        return "ok"
    except BaseException as ex:  # noqa: BLE001
        return type(ex).__name__


def abort_mspec(rng):
    """recipe of a measured model M: [names in the order of the explicit variable list, monomials [coef, exponents], [s, j] for
    s·sin(x_j), [p, l] for Parameter('p', p)·x_l, weights and targets of the separable quadratic that is solved, offset of its
    constraint x_0 + x_1 >= t_0 + t_1 + d (None: unconstrained), the channel observed first]"""
    k = rng.choice([2, 3, 3, 4])
    names = rng.sample(ABORT_NAMES, k)
    if rng.random() < 0.5:
        names = sorted(names, key=_nat_key)               # the explicit list is also the problem's own order
    terms = []
    for _ in range(rng.randint(2, 4)):
        exps = [rng.choice([0, 0, 1, 1, 2, 3]) for _ in names]
        if sum(exps) == 0:
            exps[rng.randrange(k)] = 1
        terms.append([rng.choice(DY), exps])
    for i in range(k):
        if all(t[1][i] == 0 for t in terms):
            terms.append([rng.choice(DY), [int(j == i) for j in range(k)]])
    return [names, terms, [rng.choice(DY), rng.randrange(k)], [rng.choice(DY), rng.randrange(k)],
            [rng.choice([0.5, 1.0, 2.0, 3.0]) for _ in names], [rng.choice(DY) for _ in names], rng.choice([None, -3.0, 1.0, 2.0]),
            rng.choice(ABORT_CHANNELS)]


def abort_m_build(ms):
    from optyx import Variable, Parameter, Problem, sin

    names, terms, trig, par, w, t, d, first = ms
    vs = [Variable(nm, lb=-50.0, ub=50.0) for nm in names]
    p = Parameter("p", par[0])
    obj = None
    for coef, exps in terms:
        mono = None
        for v, e in zip(vs, exps):
            if e:
                f = v if e == 1 else v ** e
                mono = f if mono is None else mono * f
        obj = coef * mono if obj is None else obj + coef * mono
    obj = obj + trig[0] * sin(vs[trig[1]]) + p * vs[par[1]]
    sobj = None
    for v, wi, ti in zip(vs, w, t):
        q = wi * (v - ti) ** 2
        sobj = q if sobj is None else sobj + q
    cons = [] if d is None else [vs[0] + vs[1] >= t[0] + t[1] + d]
    prob = Problem().minimize(sobj)
    if cons:
        prob.subject_to(cons)
    lobj = None
    for i, (v, wi) in enumerate(zip(vs, w)):
        lobj = (wi + 0.25 + 0.125 * i) * v if lobj is None else lobj + (wi + 0.25 + 0.125 * i) * v
    lprob = Problem().minimize(lobj + 2.0).subject_to(vs[0] + vs[1] >= 1.5)
    return {"ms": ms, "vars": vs, "obj": obj, "sobj": sobj, "cons": cons, "prob": prob, "p": p, "lprob": lprob}


def abort_points(k):
    return [np.array([(0.75 + 0.5 * i) * (1.0 if i % 2 == 0 else -1.0) for i in range(k)]),
            np.array([-1.25 + 0.375 * i for i in range(k)])]


def abort_m_observe(M) -> dict:
    """M through every channel, as data; the channel named in the recipe is used first"""
    from optyx.core.compiler import compile_expression, compile_gradient, compile_to_dict_function
    from optyx.core.autodiff import compile_jacobian, compile_hessian, gradient
    from optyx.analysis import compute_degree, LinearProgramExtractor

    vs, obj, sobj, prob = M["vars"], M["obj"], M["sobj"], M["prob"]
    pts = abort_points(len(vs))
    envs = [{v.name: float(z) for v, z in zip(vs, x)} for x in pts]
    out = {}

    def solve(m):
        try:
            s = prob.solve(**({} if m == "auto" else {"method": m}))
            return [m, s.status.name, {k: round(float(z), 6) for k, z in sorted((s.values or {}).items())},
                    None if s.objective_value is None else round(float(s.objective_value), 6)]
        except Exception as ex:  # noqa: BLE001
            return [m, "raise:" + type(ex).__name__]

    def chan(c):
        if c == "fn":
            f = compile_expression(obj, vs)
            out["fn"] = [_f(np.asarray(f(x))) for x in pts]
        elif c == "dict":
            f = compile_to_dict_function(obj, vs)
            out["dict"] = [_f(np.asarray(f(env))) for env in envs]
        elif c == "grad":
            f = compile_gradient(obj, vs)
            out["grad"] = [_arr(f(x)) for x in pts]
        elif c == "jac":
            f = compile_jacobian([obj, sobj] + [cn.expr for cn in M["cons"]], vs)
            out["jac"] = [_arr(f(x)) for x in pts]
        elif c == "hess":
            f = compile_hessian(obj, vs)
            out["hess"] = [_arr(f(x)) for x in pts]
        elif c == "leaf":
            out["leaf"] = [[_f(np.asarray(compile_expression(v, vs)(x))) for v in vs] for x in pts]
        elif c == "symgrad":
            gs = [gradient(obj, v) for v in vs]
            out["symgrad"] = [[_f(np.asarray(g.evaluate(env))) for g in gs] for env in envs]
        elif c == "solve":
            out["solve"] = solve("SLSQP")
        elif c == "solve_auto":
            out["solve_auto"] = solve("auto")
        elif c == "lp":
            dd = LinearProgramExtractor().extract(M["lprob"])
            s = M["lprob"].solve()
            out["lp"] = [list(dd.variables), _arr(dd.c), None if dd.A_ub is None else _arr(dd.A_ub),
                         None if dd.b_ub is None else _arr(dd.b_ub), [[None if z is None else _f(z) for z in bd] for bd in dd.bounds],
                         s.status.name, {k: round(float(z), 6) for k, z in sorted((s.values or {}).items())},
                         None if s.objective_value is None else round(float(s.objective_value), 6)]

    first = M["ms"][7]
    with warnings.catch_warnings(), np.errstate(all="ignore"):
        warnings.simplefilter("ignore")
        for c in [first] + [c for c in ABORT_CHANNELS if c != first]:
            try:
                chan(c)
            except Exception as ex:  # noqa: BLE001
                out[c] = "raise:" + type(ex).__name__
        always = {
            "eval": lambda: [_f(np.asarray(obj.evaluate(env))) for env in envs],
            "seval": lambda: [_f(np.asarray(sobj.evaluate(env))) for env in envs],
            "sfn": lambda: [_f(np.asarray(compile_expression(sobj, prob.variables)(
                np.array([env[v.name] for v in prob.variables])))) for env in envs],
            "degree": lambda: [compute_degree(obj), compute_degree(sobj)],
            "varnames": lambda: [v.name for v in prob.variables],
        }
        for c, th in always.items():
            try:
                out[c] = th()
            except Exception as ex:  # noqa: BLE001
                out[c] = "raise:" + type(ex).__name__
    return out


def abort_m_numpy(ms):
    """the function the recipe wrote down, as plain NumPy: value, analytic gradient; the quadratic that is solved"""
    names, terms, trig, par, w, t, d, _first = ms
    C = np.array([c for c, _ in terms], dtype=float)
    E = np.array([e for _, e in terms], dtype=int)
    w, t = np.array(w, dtype=float), np.array(t, dtype=float)

    def f(x):
        return float(C @ np.prod(x[None, :] ** E, axis=1)) + trig[0] * math.sin(x[trig[1]]) + par[0] * x[par[1]]

    def g(x):
        out = np.zeros(len(names))
        for m in range(len(names)):
            for c, e in zip(C, E):
                if e[m]:
                    e2 = e.copy(); e2[m] -= 1
                    out[m] += c * e[m] * float(np.prod(x ** e2))
        out[trig[1]] += trig[0] * math.cos(x[trig[1]])
        out[par[1]] += par[0]
        return out

    def q(x):
        return float(w @ (x - t) ** 2)

    def qg(x):
        return 2.0 * w * (x - t)

    return f, g, q, qg


def abort_m_judge(ms, got):
    """independent verdict on the observations of M: (where, got, expected) of the first disagreement or None"""
    names, terms, trig, par, w, t, d, _first = ms
    k = len(names)
    f, g, q, qg = abort_m_numpy(ms)
    for c in ABORT_CHANNELS + ["eval", "seval", "sfn", "degree", "varnames"]:
        if isinstance(got.get(c), str):
            return "/" + c, got[c], "no exception: the model is valid"
    if got["varnames"] != sorted(names, key=_nat_key):
        return "/varnames", got["varnames"], sorted(names, key=_nat_key)
    if got["degree"] != [None, 2]:         # the sine term (coefficient never 0) makes the first one non-polynomial
        return "/degree", got["degree"], [None, 2]
    crow = np.zeros(k); crow[0] = crow[1] = 1.0
    for i, x in enumerate(abort_points(k)):
        fx, gx = f(x), g(x)
        for key in ("eval", "fn", "dict"):
            if not _close(_num([got[key][i]]), [fx], 1e-9, 1e-9):
                return f"/{key}[{i}]", got[key][i], fx
        for key in ("seval", "sfn"):
            if not _close(_num([got[key][i]]), [q(x)], 1e-9, 1e-9):
                return f"/{key}[{i}]", got[key][i], q(x)
        if not _close(_num(got["leaf"][i]), x, 0.0, 0.0):
            return f"/leaf[{i}]", got["leaf"][i], x.tolist()
        for key in ("grad", "symgrad"):
            if not _close(_num(got[key][i]), gx, 1e-8, 1e-8):
                return f"/{key}[{i}]", got[key][i], gx.tolist()
        jac = np.vstack([gx, qg(x)] + ([] if d is None else [crow]))
        if not _close(_num(got["jac"][i]), jac, 1e-8, 1e-8):
            return f"/jac[{i}]", got["jac"][i], jac.ravel().tolist()
        h = 1e-5
        H = np.array([(g(x + h * e) - g(x - h * e)) / (2 * h) for e in np.eye(k)])
        if not _close(_num(got["hess"][i]), H, 1e-5, 1e-5):
            return f"/hess[{i}]", got["hess"][i], np.round(H, 6).ravel().tolist()
    # hand-computed optimum of  sum w_i (x_i - t_i)^2  s.t.  x_0 + x_1 >= t_0 + t_1 + d :  x = t if d <= 0, otherwise the
    # constraint is active and  x_0 - t_0 = d w_1 / (w_0 + w_1),  x_1 - t_1 = d w_0 / (w_0 + w_1)
    xstar = np.array(t, dtype=float)
    if d is not None and d > 0:
        xstar[0] += d * w[1] / (w[0] + w[1])
        xstar[1] += d * w[0] / (w[0] + w[1])
    fstar = q(xstar)
    want = ["OPTIMAL", dict(zip(names, np.round(xstar, 6).tolist())), round(fstar, 6)]
    for key in ("solve", "solve_auto"):
        ent = got[key]
        if len(ent) < 4 or ent[1] != "OPTIMAL" or ent[3] is None or sorted(ent[2]) != sorted(names):
            return "/" + key, ent, want
        xs = np.array([ent[2][nm] for nm in names])
        if not _close(xs, xstar, 0.0, 5e-3) or not _close([ent[3]], [fstar], 1e-4, 1e-4):
            return "/" + key, ent, want
    # the linear model: minimise sum (w_i + 0.25 + 0.125 i) x_i + 2  s.t.  x_0 + x_1 >= 1.5,  -50 <= x <= 50 — its data
    # written down here in the problem's own (natural) order of the names, the optimum from SciPy on that data
    from scipy.optimize import linprog

    order = sorted(names, key=_nat_key)
    cvec = np.array([w[names.index(nm)] + 0.25 + 0.125 * names.index(nm) for nm in order])
    arow = np.array([-1.0 if nm in names[:2] else 0.0 for nm in order])
    lp = got["lp"]
    if lp[0] != order:
        return "/lp/variables", lp[0], order
    if not _close(_num(lp[1]), cvec, 1e-12, 1e-12):
        return "/lp/c", lp[1], cvec.tolist()
    if lp[2] is None or lp[3] is None or not _close(_num(lp[2]), arow, 1e-12, 1e-12) or not _close(_num(lp[3]), [-1.5], 1e-12, 1e-12):
        return "/lp/A_ub,b_ub", [lp[2], lp[3]], [arow.tolist(), [-1.5]]
    if not _close(_num([t for bd in lp[4] for t in bd]), [-50.0, 50.0] * k, 0.0, 0.0):
        return "/lp/bounds", lp[4], [[-50.0, 50.0]] * k
    res = linprog(cvec, A_ub=arow[None, :], b_ub=[-1.5], bounds=[(-50.0, 50.0)] * k, method="highs")
    wantlp = ["OPTIMAL", dict(zip(order, np.round(res.x, 6).tolist())), round(float(res.fun) + 2.0, 6)]
    xs = np.array([lp[6].get(nm, float("nan")) for nm in order])
    if lp[5] != "OPTIMAL" or lp[7] is None or not _close(xs, res.x, 1e-7, 1e-7) or not _close([lp[7]], [res.fun + 2.0], 1e-7, 1e-7):
        return "/lp/solve", lp[5:], wantlp
    return None


def abort_n_names(rng, mnames):
    """names of a model N over the names of M at SHIFTED positions of the variable list (relative to M's explicit list and,
    whenever possible, to the problem's own sorted order as well), at least three variables"""
    extra = [nm for nm in ABORT_NAMES if nm not in mnames]
    msorted = sorted(mnames, key=_nat_key)

    def shifted(nn, order):
        return any(nm in nn and nn.index(nm) != i for i, nm in enumerate(order))

    best = None
    for _ in range(12):
        base = list(rng.choice([mnames, msorted]))
        mode = rng.choice(["drop-first", "prepend", "rotate", "reverse", "insert", "shuffle"])
        if mode == "drop-first":
            nn = base[1:]
        elif mode == "prepend":
            nn = [rng.choice(extra)] + base
        elif mode == "rotate":
            nn = base[1:] + base[:1]
        elif mode == "reverse":
            nn = base[::-1]
        elif mode == "insert":
            nn = base[:1] + [rng.choice(extra)] + base[1:]
        else:
            nn = list(base); rng.shuffle(nn)
        while len(nn) < 3:
            nn.append(rng.choice([nm for nm in extra if nm not in nn]))
        if shifted(nn, mnames):
            best = best or nn
            if shifted(nn, msorted):
                return nn
    return best or (list(mnames[1:]) + list(mnames[:1]) + [extra[0]])


def abort_make_op(rng, combo, mnames):
    kind, entry = combo
    nn = abort_n_names(rng, mnames)
    variant = rng.randint(0, 7)
    if kind == "deep-right":
        arg = rng.choice([sys.getrecursionlimit() + 200, 3000])
    elif kind.startswith("seam:"):
        arg = [rng.choice([0.0, 0.2, 0.35, 0.5, 0.65, 0.8, 0.95, 1.0]), rng.choice(ABORT_EXC)]
    else:
        arg = rng.randint(0, 11)
    return [kind, entry, nn, variant, arg]


def abort_plan(rng, n_models, rounds):
    """histories: every aborting (kind, entry) is, `rounds` times, the operation immediately before a measured model; in front
    of it 0–2 further operations (aborting or valid) on other models.  Returns [(history, recipe of M)] and the recipes"""
    specs = [abort_mspec(rng) for _ in range(n_models)]
    combos = abort_combos()
    plan = []
    for r in range(rounds):
        order = list(combos)
        rng.shuffle(order)
        for i, last in enumerate(order):
            ms = specs[(i + r * 7) % n_models]
            hist = []
            for _ in range(rng.choice([0, 0, 1, 1, 2])):
                c = rng.choice(combos) if rng.random() < 0.7 else ("ok", rng.choice(ABORT_ENTRIES))
                hist.append(abort_make_op(rng, c, ms[0]))
            hist.append(abort_make_op(rng, last, ms[0]))
            plan.append((hist, ms))
    return plan, specs


def abort_family(rep, ref, plan, stop_at_first=False, max_failures=3):
    """each history: the operations on the other models are run (exceptions caught, as a caller would), then M is built,
    observed and judged; nothing is cleared in between"""
    n_bad = 0
    for hist, ms in plan:
        before = interpreter_state()
        outcomes = [abort_op(op) for op in hist]
        after = interpreter_state()
        got = abort_m_observe(abort_m_build(ms))
        rep.evaluations += 1
        last = hist[-1]
        if any(o != "ok" for o in outcomes):
            rep.nontrivial.add(("abort", json.dumps(hist), json.dumps(ms)))
        key, sub = f"abort:{last[0]}", f"{last[1] if last[0] != 'call-fault' else 'call'}:{outcomes[-1]}"
        rep.histogram.setdefault(key, {})
        rep.histogram[key][sub] = rep.histogram[key].get(sub, 0) + 1
        bad = None
        head = {"abort": [hist, ms], "outcomes": outcomes, "model": {"variables": ms[0], "first_channel": ms[7]},
                "last_operation": f"{last[0]} × {last[1]} on a model over {last[2]}: {outcomes[-1]}"}
        if before != after:
            bad = dict(head, what="process-wide interpreter state changed by operations on other models that ended in an exception",
                       where="/interpreter_state", got=str(after)[:300], expected=str(before)[:300])
        if bad is None:
            verdict = abort_m_judge(ms, got)
            if verdict:
                bad = dict(head, what="a model measured after operations on OTHER models that were aborted by an exception (shared "
                                      "variable names at other positions of the variable list) disagrees with the NumPy model of "
                                      "the formula it was built from",
                           where=verdict[0], got=str(verdict[1])[:300], expected=str(verdict[2])[:300])
        if bad is None and ref is not None:
            want = ref[json.dumps(["abort", ms])]
            dd = same(got, want)
            if dd:
                k0 = dd.split("/")[1].split("[")[0]
                bad = dict(head, what="a model measured after aborted operations on other models differs from a fresh process",
                           where=dd, got=str(got.get(k0))[:300], fresh=str(want.get(k0))[:300])
        if bad:
            rep.oracle_failures.append(bad)
            n_bad += 1
            if stop_at_first:
                return bad
            if n_bad >= max_failures:
                break
    return None


# ----------------------------------------------------------------------------- per-call solver options of EARLIER solves
#
# The solver glue (Problem.solve -> solve_scipy / solve_lp) is process-wide code as well: whatever it keeps at module level
# (default-option tables, "last" tolerances / starting points / methods, keyword dictionaries that are re-used) survives from
# the solve of one model to the solve of the next.  A model's solve result must not depend on which OTHER models were solved
# earlier and WITH WHICH PER-CALL OPTIONS.  Sessions: a measured model B (strictly convex QP over a polytope, QP over a box,
# separable exp-plus-quadratic over a box, LP; min / max; some with an integer variable that is relaxed) × every `method=` that
# can solve it (plain solve(), SLSQP, COBYLA, trust-constr, L-BFGS-B, TNC, linprog, highs, highs-ds, highs-ipm):
#   1. a twin of B (fresh objects) is solved FIRST — once with defaults, once (another twin) with B's own explicit options;
#   2. rounds: 1–2 unrelated models A (same or other names, other bounds / structure) are solved with explicit per-call
#      options — iteration caps (maxiter 0..3, options={"maxiter": …}), loose tolerances, starting points, use_hessian=False,
#      callbacks (one that stops the run), strict=True on a model with an integer variable (raises), keywords the back end
#      rejects, for LPs options={...} / overriding bounds= / integrality= — the A immediately before B with B's method (the
#      route of `auto` included) or with another one; exceptions are caught as a caller would;
#   3. B is rebuilt from fresh objects and solved with defaults and with its own options.
# Verdicts: (a) the default solve is OPTIMAL at the optimum computed in NumPy from the recipe (KKT systems of all active sets
# for the QPs, clipped stationary point for the separable model, vertex enumeration for the LP) — recipes whose optimum is
# degenerate or nearly so are not generated; (b) both solves (status, x, objective, iterations) equal the twin solved before the
# other models; (c) and equal the same observation in a fresh process.

OPT_NAME_POOLS = [["x", "y", "z"], ["x0", "x1", "x2"], ["load", "fee", "w"]]
OPT_LP_METHODS = ["auto", "linprog", "highs", "highs-ds", "highs-ipm"]
OPT_NLP_METHODS = ["auto", "SLSQP", "COBYLA", "trust-constr", "L-BFGS-B", "TNC"]
OPT_TARGETS = [("qp", "auto"), ("qp", "SLSQP"), ("qpw", "COBYLA"), ("qp", "trust-constr"), ("box", "L-BFGS-B"), ("box", "auto"),
               ("sepexp", "auto"), ("lp", "auto"), ("lp", "linprog"), ("lp", "highs"), ("lp", "highs-ds"), ("lp", "highs-ipm")]
OPT_TARGETS_MORE = [("box", "TNC"), ("box", "SLSQP"), ("qpw", "SLSQP"), ("qpw", "trust-constr"), ("sepexp", "SLSQP"),
                    ("box", "trust-constr")]
OPT_ROUTE = {"qp": "SLSQP", "qpw": "SLSQP", "box": "L-BFGS-B", "sepexp": "trust-constr", "lp": "linprog"}   # what `auto` means
OPT_KIND_FOR = {"SLSQP": ["qp", "qp", "qpw", "sepexp"], "trust-constr": ["qp", "sepexp", "qpw"], "COBYLA": ["qpw"],
                "L-BFGS-B": ["box"], "TNC": ["box"], "auto": ["qp", "qpw", "box", "sepexp", "lp"]}
OPT_XTOL = {"SLSQP": 5e-3, "L-BFGS-B": 5e-3, "TNC": 5e-3, "trust-constr": 5e-3, "COBYLA": 5e-3, "linprog": 1e-7}   # × (1 + max|x*|)
OPT_CAPS = [{"maxiter": 1}, {"maxiter": 2}, {"maxiter": 3}]
OPT_NLP_DESCS = OPT_CAPS + [
    {"maxiter": 0}, {"tol": 0.5}, {"tol": 0.125, "maxiter": 2}, {"x0": "ub"}, {"x0": "mid", "maxiter": 1},
    {"use_hessian": False}, {"use_hessian": False, "maxiter": 1}, {"options": {"maxiter": 1}},
    {"options": {"maxiter": 1, "ftol": 0.5}}, {"callback": "noop"}, {"callback": "stop"}, {"strict": True},
    {"strict": True, "maxiter": 1}, {"bogus_option": 1}, {"jac": "2-point"}, {"maxiter": 2, "callback": "noop"}]
OPT_LP_CAPS = [{"options": {"maxiter": 0}}, {"options": {"maxiter": 1}}, {"options": {"maxiter": 1, "presolve": False}}]
OPT_LP_DESCS = OPT_LP_CAPS + [
    {"options": {"time_limit": 0.0}}, {"options": {"presolve": False, "disp": False}},
    {"options": {"primal_feasibility_tolerance": 0.01, "dual_feasibility_tolerance": 0.01}}, {"bounds": "zero"},
    {"bounds": "zero", "options": {"maxiter": 0}}, {"maxiter": 1}, {"tol": 0.01}, {"x0": "ub"}, {"integrality": 1},
    {"callback": "noop"}, {"strict": True}, {"bogus_option": 1}]
OPT_OWN_NLP = [{"maxiter": 2}, {"maxiter": 3}, {"tol": 0.01}, {"x0": "ub"}, {"maxiter": 60, "tol": 1e-10}]
OPT_OWN_LP = [{"options": {"presolve": False}}, {"options": {"maxiter": 1}}, {"options": {"maxiter": 0}},
              {"options": {"presolve": False, "maxiter": 2}}]


def _opts_rows(sp):
    """all restrictions of a recipe as rows G x <= h: its constraints, then upper and lower bounds"""
    n = len(sp["names"])
    G, h = [], []
    for a, sense, b in sp["cons"]:
        sg = 1.0 if sense == "<=" else -1.0
        G.append([sg * t for t in a]); h.append(sg * b)
    for i in range(n):
        e = [0.0] * n; e[i] = 1.0
        G.append(e); h.append(sp["ub"][i])
        G.append([-t for t in e]); h.append(-sp["lb"][i])
    return np.array(G, dtype=float), np.array(h, dtype=float)


def opts_value(sp, x):
    """the objective the recipe wrote down (as the user states it: the maximised function for sense = max), plain NumPy"""
    x = np.asarray(x, dtype=float)
    if sp["kind"] == "lp":
        return float(np.dot(sp["c"], x) + sp["c0"])
    if sp["kind"] == "sepexp":
        f = float(sum(math.exp(a * z) - b * z + 0.5 * d * (z - t) ** 2 for a, b, d, t, z in zip(sp["a"], sp["b"], sp["d"], sp["t"], x)))
    else:
        d = x - np.array(sp["c"])
        f = float(0.5 * d @ np.array(sp["H"]) @ d)
    return -f if sp["sense"] == "max" else f


def opts_optimum(sp):
    """(x*, f*) of a recipe, from NumPy alone; None if the optimum is not unique / degenerate / nearly so (such recipes are not used)"""
    import itertools

    n = len(sp["names"])
    G, h = _opts_rows(sp)
    m = len(h)
    x = None
    if sp["kind"] == "sepexp":
        x = np.clip(np.array(sp["t"], dtype=float), sp["lb"], sp["ub"])
        if np.any(np.abs(np.array(sp["t"]) - np.array(sp["lb"])) < 0.5) or np.any(np.abs(np.array(sp["t"]) - np.array(sp["ub"])) < 0.5):
            return None
        if np.any(h[:len(sp["cons"])] - G[:len(sp["cons"])] @ x < 0.5):        # its constraint is inactive, with a margin
            return None
        return x, opts_value(sp, x)
    if sp["kind"] == "lp":
        sg = -1.0 if sp["sense"] == "max" else 1.0
        c = sg * np.array(sp["c"], dtype=float)
        verts = []
        for S in itertools.combinations(range(m), n):
            Gs = G[list(S)]
            if abs(np.linalg.det(Gs)) < 1e-9:
                continue
            v = np.linalg.solve(Gs, h[list(S)])
            if np.all(G @ v <= h + 1e-9):
                verts.append(v)
        if not verts:
            return None
        best = min(verts, key=lambda v: float(c @ v))
        for v in verts:
            if np.linalg.norm(v - best) > 1e-7 and float(c @ v) < float(c @ best) + 0.05:
                return None                                                     # second-best vertex too close: not unique enough
        return best, opts_value(sp, best)
    H = np.array(sp["H"], dtype=float)
    g = -H @ np.array(sp["c"], dtype=float)
    for k in range(0, n + 1):
        for S in itertools.combinations(range(m), k):
            S = list(S)
            if S:
                Gs = G[S]
                if np.linalg.matrix_rank(Gs) < k:
                    continue
                K = np.block([[H, Gs.T], [Gs, np.zeros((k, k))]])
                sol = np.linalg.solve(K, np.concatenate([-g, h[S]]))
                v, lam = sol[:n], sol[n:]
                if np.any(lam < -1e-12):
                    continue
            else:
                v, lam = np.linalg.solve(H, -g), np.zeros(0)
            slack = h - G @ v
            if np.any(slack < -1e-10):
                continue
            # KKT point of a strictly convex program: the optimum.  Conditioning: strictly complementary, nothing nearly active,
            # something active (otherwise the model is an unconstrained quadratic)
            others = np.delete(slack, S)
            # and not a vertex (a direction of curvature is left: the solvers need several iterations, so that option leaks show)
            if not S or len(S) >= n or np.any(lam < 0.05) or np.any(others < 0.05):
                return None
            if sp["kind"] == "qpw" and any(i >= len(sp["cons"]) for i in S):
                return None                         # methods that never see the bounds: no bound may be active
            return v, opts_value(sp, v)
    return None


def _opts_draw(rng, kind, names):
    n = rng.choice([2, 3])
    names = list(names or rng.choice(OPT_NAME_POOLS))[:n]
    n = len(names)
    if kind == "qpw":
        lb, ub = [-10.0] * n, [10.0] * n
        p0 = [rng.choice([-2.0, -1.0, -0.5, 0.5, 1.0, 2.0]) for _ in range(n)]
    else:
        lb = [rng.choice([-1.0, 0.0, 0.5]) for _ in range(n)]
        ub = [l + rng.choice([4.0, 5.0, 6.0]) for l in lb]
        p0 = [l + (u - l) * rng.choice([0.25, 0.375, 0.5, 0.625]) for l, u in zip(lb, ub)]
    sp = {"kind": kind, "names": names, "lb": lb, "ub": ub, "sense": rng.choice(["min", "min", "max"]),
          "integer": rng.choice([None, None, rng.randrange(n)])}
    if kind == "sepexp":
        # sum_i exp(a_i x_i) - b_i x_i + d_i/2 (x_i - t_i)^2  with  b_i = a_i exp(a_i t_i): strictly convex (curvatures between 1 and
        # about 7), separable, stationary exactly at t
        a = [rng.choice([-0.5, -0.25, 0.25, 0.5]) for _ in range(n)]
        t = [rng.choice([l + 1.0, l + 1.5, l + 2.0, l + 2.5, u - 1.5, u - 1.0]) for l, u in zip(lb, ub)]   # interior stationary point
        sp.update(a=a, t=t, b=[ai * math.exp(ai * ti) for ai, ti in zip(a, t)], d=[rng.choice([1.0, 2.0]) for _ in range(n)])
        p0 = [min(max(ti, l), u) for ti, l, u in zip(t, lb, ub)]
    elif kind == "lp":
        sp.update(c=[rng.choice([-3.0, -2.0, -1.5, -1.0, -0.5, 0.5, 1.0, 1.5, 2.0, 3.0]) for _ in range(n)],
                  c0=rng.choice([0.0, 1.5, -2.0]))
    else:
        H = [[0.0] * n for _ in range(n)]
        for i in range(n):
            H[i][i] = rng.choice([1.5, 2.0, 3.0, 4.0])
            for j in range(i + 1, n):
                H[i][j] = H[j][i] = rng.choice([-0.5, 0.0, 0.0, 0.25, 0.5])
        off = [-5.0, -4.0, -3.0, 3.0, 4.0, 5.0] if kind == "qpw" else [-6.0, -4.0, -3.0, 3.0, 4.0, 6.0]
        sp.update(H=H, c=[p + rng.choice(off) for p in p0])
    cons = []
    for _ in range(0 if kind == "box" else 1 if kind == "sepexp" else rng.choice([1, 2, 2, 3])):
        a = [rng.choice([-2.0, -1.0, -0.5, 0.0, 0.5, 1.0, 2.0]) for _ in range(n)]
        while sum(1 for t in a if t) < 2:
            a[rng.randrange(n)] = rng.choice([-1.0, 1.0])
        sense = rng.choice(["<=", ">="])
        at = sum(ai * pi for ai, pi in zip(a, p0))
        margin = rng.choice([0.5, 1.0, 1.5])
        cons.append([a, sense, at + margin if sense == "<=" else at - margin])
    sp["cons"] = cons
    return sp


def opts_spec(rng, kind, names=None):
    """a recipe (JSON data) whose optimum is unique and well separated from every degenerate situation"""
    for _ in range(400):
        sp = _opts_draw(rng, kind, names)
        if opts_optimum(sp) is not None:
            return sp
    raise RuntimeError("no well-conditioned recipe of kind " + kind)


def opts_build(sp):
    from optyx import Variable, Problem, exp

    n = len(sp["names"])
    vs = [Variable(nm, lb=sp["lb"][i], ub=sp["ub"][i], **({"domain": "integer"} if sp["integer"] == i else {}))
          for i, nm in enumerate(sp["names"])]
    obj = None
    if sp["kind"] == "lp":
        for ci, v in zip(sp["c"], vs):
            obj = ci * v if obj is None else obj + ci * v
        obj = obj + sp["c0"]
    elif sp["kind"] == "sepexp":
        for ai, bi, di, ti, v in zip(sp["a"], sp["b"], sp["d"], sp["t"], vs):
            t = exp(ai * v) - bi * v + (0.5 * di) * (v - ti) ** 2
            obj = t if obj is None else obj + t
    else:
        for i in range(n):
            t = (0.5 * sp["H"][i][i]) * (vs[i] - sp["c"][i]) ** 2
            obj = t if obj is None else obj + t
            for j in range(i + 1, n):
                if sp["H"][i][j]:
                    obj = obj + sp["H"][i][j] * ((vs[i] - sp["c"][i]) * (vs[j] - sp["c"][j]))
    prob = Problem()
    if sp["sense"] == "max":
        prob.maximize(-obj if sp["kind"] != "lp" else obj)
    else:
        prob.minimize(obj)
    for a, sense, b in sp["cons"]:
        lhs = None
        for ai, v in zip(a, vs):
            if ai:
                lhs = ai * v if lhs is None else lhs + ai * v
        prob.subject_to(lhs <= b if sense == "<=" else lhs >= b)
    return {"sp": sp, "vars": vs, "prob": prob}


def _opts_stop(*_a, **_k):
    raise StopIteration


def opts_kwargs(desc, sp):
    n = len(sp["names"])
    kw = {}
    for k, v in desc.items():
        if k == "x0":
            kw[k] = np.array(sp["ub"] if v == "ub" else [(l + u) / 2.0 for l, u in zip(sp["lb"], sp["ub"])], dtype=float)
        elif k == "bounds":
            kw[k] = [(0.0, 0.0)] * n
        elif k == "callback":
            kw[k] = _opts_stop if v == "stop" else (lambda *_a, **_k: None)
        elif k == "integrality":
            kw[k] = [int(v)] * n
        elif k == "options":
            kw[k] = dict(v)
        else:
            kw[k] = v
    return kw


def opts_solve(M, method, desc):
    """[status, values, objective, iterations] of one Problem.solve call ("auto" = the plain solve()), or the exception class"""
    try:
        with warnings.catch_warnings(), np.errstate(all="ignore"):
            warnings.simplefilter("ignore")
            s = M["prob"].solve(**({} if method == "auto" else {"method": method}), **opts_kwargs(desc, M["sp"]))
        return [s.status.name, {k: float(v) for k, v in sorted((s.values or {}).items())},
                None if s.objective_value is None else _f(s.objective_value), None if s.iterations is None else int(s.iterations)]
    except Exception as ex:  # noqa: BLE001
        return ["raise:" + type(ex).__name__]


def opts_observe(sp, method, own) -> dict:
    """the measured model, built from fresh objects each time: the default solve, then its own explicit options"""
    return {"default": opts_solve(opts_build(sp), method, {}), "own": opts_solve(opts_build(sp), method, own)}


def opts_xtol(sp, method):
    if sp["kind"] == "lp":
        return OPT_XTOL["linprog"]
    return OPT_XTOL[OPT_ROUTE[sp["kind"]] if method == "auto" else method]


def opts_judge(sp, method, got):
    """independent verdict: (where, got, expected) or None"""
    xstar, fstar = opts_optimum(sp)
    tol = opts_xtol(sp, method)
    ent = got["default"]
    want = ["OPTIMAL", dict(zip(sp["names"], np.round(xstar, 7).tolist())), round(fstar, 7)]
    if len(ent) < 4 or ent[0] != "OPTIMAL" or ent[2] is None or isinstance(ent[2], str) or sorted(ent[1]) != sorted(sp["names"]):
        return "/default", ent, want
    xs = np.array([ent[1][nm] for nm in sp["names"]])
    scale = 1.0 + float(np.max(np.abs(xstar)))
    if not _close(xs, xstar, 0.0, tol * scale) or abs(ent[2] - fstar) > 0.2 * tol * (1.0 + abs(fstar)):
        return "/default", ent, want
    return None


def opts_diff(a, b, xtol=1e-8):
    """first difference between two observations of the same model (status, iterations exact; floats to xtol)"""
    for key in ("default", "own"):
        p, q = a[key], b[key]
        if len(p) != len(q) or p[0] != q[0]:
            return "/" + key + "/status"
        if len(p) == 4:
            if p[3] != q[3]:
                return "/" + key + "/iterations"
            if sorted(p[1]) != sorted(q[1]):
                return "/" + key + "/values"
            for nm in p[1]:
                if not _close([p[1][nm]], [q[1][nm]], xtol, xtol):
                    return "/" + key + "/values/" + nm
            if (p[2] is None) != (q[2] is None) or (p[2] is not None and not isinstance(p[2], str) and not isinstance(q[2], str)
                                                    and not _close([p[2]], [q[2]], xtol, xtol)):
                return "/" + key + "/objective"
    return None


def opts_a_op(rng, method, desc, bnames):
    """one solve of an unrelated model with explicit options: [recipe, method, options]"""
    kind = "lp" if method in OPT_LP_METHODS[1:] else rng.choice(OPT_KIND_FOR[method])
    sp = opts_spec(rng, kind, names=bnames if rng.random() < 0.5 else None)
    if "strict" in desc:
        sp["integer"] = 0
    return [sp, method, desc]


def opts_plan(rng, thorough, reps=None):
    """sessions [recipe of B, method, B's own options, rounds]; a round = the solves of other models in front of B"""
    targets = list(OPT_TARGETS) + (OPT_TARGETS_MORE if thorough else [rng.choice(OPT_TARGETS_MORE)])
    sessions = []
    for rep_i in range(reps or (3 if thorough else 1)):
        for kind, method in targets:
            lp = kind == "lp"
            sp = opts_spec(rng, kind)
            own = rng.choice(OPT_OWN_LP if lp else OPT_OWN_NLP)
            descs, caps = (OPT_LP_DESCS, OPT_LP_CAPS) if lp else (OPT_NLP_DESCS, OPT_CAPS)
            route = OPT_ROUTE[kind] if method == "auto" else method
            slow = route == "trust-constr"
            n_rounds = (len(descs) if not slow else 6) if thorough else (2 if slow else 3)
            order = list(descs); rng.shuffle(order)
            rounds = []
            for r in range(n_rounds):
                if r % 3 == 0:          # the same method (for `auto`: its route, by name or through auto) with an iteration cap
                    last = (method if rng.random() < 0.5 else route, rng.choice(caps))
                elif r % 3 == 1:        # the same method, any options
                    last = (method if rng.random() < 0.5 else route, order[r % len(order)])
                else:                   # any other method of the same back end or of the other one
                    m2 = rng.choice(OPT_LP_METHODS + OPT_NLP_METHODS)
                    last = (m2, rng.choice(OPT_LP_DESCS if m2 in OPT_LP_METHODS[1:] else OPT_NLP_DESCS))
                ops = []
                if rng.random() < 0.4:
                    m1 = rng.choice(OPT_LP_METHODS[1:] if lp else OPT_NLP_METHODS[1:])
                    ops.append(opts_a_op(rng, m1, rng.choice(OPT_LP_DESCS if lp else OPT_NLP_DESCS), sp["names"]))
                am, ad = last
                if am == "linprog" and not lp:
                    am = "auto"
                if am == "auto" and lp is False and kind != "lp":
                    a = opts_a_op(rng, "auto", ad, sp["names"])
                    if r % 3 != 2:
                        a[0] = opts_spec(rng, kind, names=a[0]["names"])      # same route as B
                        if "strict" in ad:
                            a[0]["integer"] = 0
                    ops.append(a)
                elif am == "auto":
                    a = opts_a_op(rng, "highs", ad, sp["names"]); a[1] = "auto"
                    ops.append(a)
                else:
                    ops.append(opts_a_op(rng, am, ad, sp["names"]))
                rounds.append(ops)
            sessions.append([sp, method, own, rounds])
    return sessions


def opts_family(rep, ref, plan, stop_at_first=False, max_failures=3):
    n_bad = 0
    trail = []       # every solve with explicit options so far in this process (other models; own options of measured models)
    for si, (sp, method, own, rounds) in enumerate(plan):
        key = json.dumps(["opts", sp, method, own])
        want = None if ref is None else ref[key]
        before = list(trail[-8:])
        twin = opts_observe(sp, method, own)          # fresh objects, solved BEFORE the other models of this session
        trail.append(["measured model, own options", sp["kind"], method, own, twin["own"][0]])
        for r in range(-1, len(rounds)):
            if r < 0:
                got = twin
            else:
                for a, m, d in rounds[r]:
                    trail.append(["other model", a["kind"], m, d, opts_solve(opts_build(a), m, d)[0]])
                before = list(trail[-8:])
                got = opts_observe(sp, method, own)
                trail.append(["measured model, own options", sp["kind"], method, own, got["own"][0]])
                rep.nontrivial.add(("opts", si, r))
                lastd = json.dumps(rounds[r][-1][2], sort_keys=True)
                rep.histogram.setdefault("opts:last-options", {})
                rep.histogram["opts:last-options"][lastd] = rep.histogram["opts:last-options"].get(lastd, 0) + 1
            rep.evaluations += 1
            hk = f"opts:{sp['kind']}:{method}"
            rep.histogram[hk] = rep.histogram.get(hk, 0) + 1
            head = {"opts": [s[:3] + [s[3] if i < si else s[3][:r + 1]] for i, s in enumerate(plan[:si + 1])],
                    "model": sp, "method": method, "own_options": own,
                    "solves_with_explicit_options_before": before, "sessions_before": si}
            bad = None
            verdict = opts_judge(sp, method, got)
            if verdict:
                bad = dict(head, what="default solve of a model after OTHER models were solved with explicit per-call options is not "
                                      "the optimum computed in NumPy from its recipe (KKT / vertex enumeration)",
                           where=verdict[0], got=str(verdict[1])[:300], expected=str(verdict[2])[:300])
            if bad is None and r >= 0:
                d = opts_diff(got, twin)
                if d:
                    k0 = d.split("/")[1]
                    bad = dict(head, what="solve result of a model differs from its twin (fresh objects) solved before the other "
                                          "models of the session were solved with explicit per-call options",
                               where=d, got=str(got[k0])[:300], twin=str(twin[k0])[:300])
            if bad is None and want is not None:
                d = opts_diff(got, want)
                if d:
                    k0 = d.split("/")[1]
                    bad = dict(head, what="solve result of a model after other models were solved with explicit per-call options "
                                          "differs from a fresh process",
                               where=d, got=str(got[k0])[:300], fresh=str(want[k0])[:300])
            if bad:
                rep.oracle_failures.append(bad)
                n_bad += 1
                if stop_at_first:
                    return bad
                break
        if n_bad >= max_failures:
            break
    return None


# ----------------------------------------------------------------------------- array data: lifetime / address reuse × size

ARR_KINDS = ["quadform", "qfclass", "qfbare", "lincomb", "matvec", "matparam"]
ARR_EDGE_DIMS = [1, 2, 3, 4, 7, 8, 9, 15, 16, 17, 31, 32, 33, 40]      # around the powers of two a size gate is likely to use
ARR_MAX_DIM = 40
ARR_MODES = ["drop", "drop_evict", "mutate", "mutate_drop"]
ARR_USES = ["grad", "jac", "hess", "sym", "all", "fn"]                 # what the earlier models went through (never a solve:
#                                                                        a solve pins the model in the LRU caches)


def arr_values(seed: int, n: int, spd: bool):
    """the numbers of one model: Q (n×n, plain — or symmetric positive definite and well conditioned if `spd`), b, c (n)"""
    r = np.random.default_rng(seed)
    if spd:
        G = r.uniform(-1.0, 1.0, size=(n, n))
        Q = G @ G.T / n + (1.0 + 0.5 * r.uniform()) * np.eye(n)
    else:
        Q = np.round(r.uniform(-2.0, 2.0, size=(n, n)), 3)
    return Q, np.round(r.uniform(-2.0, 2.0, size=n), 3), np.round(r.uniform(0.25, 2.0, size=n), 3)


def arr_alloc(kind: str, role: str, values):
    """the array OBJECT a model will hold for `values`: a fresh ndarray, or the copy a MatrixParameter keeps"""
    if kind == "matparam" and role == "Q":
        from optyx import MatrixParameter

        return MatrixParameter("S", values).values
    return np.array(values, dtype=float)


def arr_build(kind: str, n: int, arrays):
    """a model over x[0..n-1] whose nodes hold the arrays Q, b, c themselves.  Its function is always
    f(x) = x'Qx·[q] + (b·x)(c·x)·[bc] + l·x  with the NumPy description returned under "np" (read from the arrays at judge time)"""
    from optyx import VectorVariable, Problem
    from optyx.core.vectors import LinearCombination
    from optyx.core.matrices import QuadraticForm

    Q, b, c = arrays
    x = VectorVariable("x", n)
    roots = []
    if kind in ("quadform", "matparam"):
        qf = x.dot(Q @ x)
        obj, desc, roots = qf - b @ x, (1.0, 0.0, "b", -1.0), [qf]
    elif kind == "qfclass":
        qf = QuadraticForm(x, Q)
        obj, desc, roots = qf + b @ x, (1.0, 0.0, "b", 1.0), [qf]
    elif kind == "qfbare":
        obj, desc = x.dot(Q @ x), (1.0, 0.0, "b", 0.0)
    elif kind == "lincomb":
        lb_, lc_ = LinearCombination(b, x), LinearCombination(c, x)
        obj, desc, roots = lb_ * lc_ + b @ x, (0.0, 1.0, "b", 1.0), [lb_, lc_]
    else:       # matvec: (Q x)·x + c·x
        obj, desc = (Q @ x).dot(x) + c @ x, (1.0, 0.0, "c", 1.0)
        roots = [c @ x]
    prob = Problem()
    prob.minimize(obj)
    return {"kind": kind, "n": n, "x": x, "vars": list(x), "obj": obj, "roots": roots, "prob": prob, "arrays": arrays, "np": desc}


def arr_points(n):
    i = np.arange(n, dtype=float)
    return [np.cos(1.3 * i) * 2.0, np.sin(0.7 * i + 0.3) * 1.5 - 0.25]


def arr_hess_ok(kind, n):
    return n <= 12 if kind == "matvec" else True       # element-wise dot products: n² second derivatives of n² terms


def arr_use(M, use: str):
    """an earlier model goes through the derivative machinery (no solve)"""
    from optyx.core.compiler import compile_expression, compile_gradient
    from optyx.core.autodiff import compile_jacobian, compile_hessian, gradient

    obj, vs, p = M["obj"], M["vars"], arr_points(M["n"])[1]
    with warnings.catch_warnings(), np.errstate(all="ignore"):
        warnings.simplefilter("ignore")
        if use in ("fn", "all"):
            compile_expression(obj, vs)(p)
        if use in ("grad", "all"):
            compile_gradient(obj, vs)(p)
            for r in M["roots"]:
                compile_gradient(r, vs)(p)
        if use in ("jac", "all"):
            compile_jacobian([obj] + M["roots"], vs)(p)
        if use in ("hess", "all") and arr_hess_ok(M["kind"], M["n"]):
            compile_hessian(obj, vs)(p)
        if use in ("sym", "all"):
            env = {v.name: float(z) for v, z in zip(vs, p)}
            for v in (vs[0], vs[-1]):
                gradient(obj, v).evaluate(env)
            for r in M["roots"]:
                gradient(r, vs[len(vs) // 2]).evaluate(env)


def arr_observe(M, solve: bool) -> dict:
    from optyx.core.compiler import compile_expression, compile_gradient
    from optyx.core.autodiff import compile_jacobian, compile_hessian, gradient

    obj, vs, n = M["obj"], M["vars"], M["n"]
    out = {"varnames": [v.name for v in vs]}
    idx = sorted({0, n // 2, n - 1})
    with warnings.catch_warnings(), np.errstate(all="ignore"):
        warnings.simplefilter("ignore")
        fn, gf = compile_expression(obj, vs), compile_gradient(obj, vs)
        jf = compile_jacobian([obj] + M["roots"], vs)
        hf = compile_hessian(obj, vs) if arr_hess_ok(M["kind"], n) else None
        sym = [gradient(obj, vs[i]) for i in idx]
        rsym = [[gradient(r, vs[i]) for i in idx] for r in M["roots"]]
        rg = [compile_gradient(r, vs) for r in M["roots"]]
        for k, p in enumerate(arr_points(n)):
            env = {v.name: float(z) for v, z in zip(vs, p)}
            out[f"eval{k}"] = _f(np.asarray(obj.evaluate(env)))
            out[f"fn{k}"] = _f(np.asarray(fn(p)))
            out[f"grad{k}"] = _arr(gf(p))
            out[f"jac{k}"] = _arr(jf(p))
            out[f"symgrad{k}"] = [_f(np.asarray(g.evaluate(env))) for g in sym]
            out[f"rootgrad{k}"] = [_arr(g(p)) for g in rg]
            out[f"rootsym{k}"] = [[_f(np.asarray(g.evaluate(env))) for g in gs] for gs in rsym]
            if hf is not None:
                out[f"hess{k}"] = _arr(hf(p))
        if solve:
            try:
                s = M["prob"].solve(method="SLSQP")
                out["solve"] = [s.status.name, [float((s.values or {}).get(v.name, float("nan"))) for v in vs],
                                None if s.objective_value is None else float(s.objective_value)]
            except Exception as ex:  # noqa: BLE001
                out["solve"] = ["raise:" + type(ex).__name__]
    return out


def arr_judge(M, got, solve: bool):
    """every observation against plain NumPy on the arrays the model holds NOW; (where, got, expected) of the first disagreement"""
    Q, b, c = (np.array(a, dtype=float) for a in M["arrays"])
    n = M["n"]
    wq, wbc, lname, wl = M["np"]
    l = wl * (b if lname == "b" else c)
    H = wq * (Q + Q.T) + wbc * (np.outer(b, c) + np.outer(c, b))
    idx = sorted({0, n // 2, n - 1})
    kind = M["kind"]
    if kind in ("quadform", "matparam", "qfclass"):
        roots = [(Q + Q.T, np.zeros(n))]
    elif kind == "lincomb":
        roots = [(np.zeros((n, n)), b), (np.zeros((n, n)), c)]
    elif kind == "matvec":
        roots = [(np.zeros((n, n)), c)]
    else:
        roots = []
    if got["varnames"] != [f"x[{i}]" for i in range(n)]:
        return "/varnames", got["varnames"], "x[0..n-1]"
    for k, p in enumerate(arr_points(n)):
        ap = np.abs(p)
        f = wq * float(p @ Q @ p) + wbc * float(b @ p) * float(c @ p) + float(l @ p)
        fs = float(ap @ np.abs(Q) @ ap) + float(np.abs(b) @ ap) * float(np.abs(c) @ ap) + float(np.abs(l) @ ap)
        g = H @ p + l
        gs = float(np.max(np.abs(H) @ ap + np.abs(l)))
        for key in (f"eval{k}", f"fn{k}"):
            if not isinstance(got[key], float) or abs(got[key] - f) > 1e-10 * (1.0 + fs):
                return "/" + key, got[key], f
        if not _close(_num(got[f"grad{k}"]), g, 0.0, 1e-10 * (1.0 + gs)):
            return f"/grad{k}", got[f"grad{k}"], g.tolist()
        if not _close(_num(got[f"symgrad{k}"]), g[idx], 0.0, 1e-10 * (1.0 + gs)):
            return f"/symgrad{k}", got[f"symgrad{k}"], g[idx].tolist()
        rows = [g] + [A @ p + d for A, d in roots]
        if not _close(_num(got[f"jac{k}"]), np.vstack(rows), 0.0, 1e-10 * (1.0 + gs)):
            return f"/jac{k}", got[f"jac{k}"][:3 * n], np.vstack(rows).ravel().tolist()[:3 * n]
        for j, (A, d) in enumerate(roots):
            if not _close(_num(got[f"rootgrad{k}"][j]), A @ p + d, 0.0, 1e-10 * (1.0 + gs)):
                return f"/rootgrad{k}[{j}]", got[f"rootgrad{k}"][j], (A @ p + d).tolist()
            if not _close(_num(got[f"rootsym{k}"][j]), (A @ p + d)[idx], 0.0, 1e-10 * (1.0 + gs)):
                return f"/rootsym{k}[{j}]", got[f"rootsym{k}"][j], (A @ p + d)[idx].tolist()
        if f"hess{k}" in got and not _close(_num(got[f"hess{k}"]), H, 0.0, 1e-10 * (1.0 + float(np.max(np.abs(H))))):
            return f"/hess{k}", got[f"hess{k}"][:2 * n], H.ravel().tolist()[:2 * n]
    if solve:
        xstar = np.linalg.solve(H, -l)
        fstar = 0.5 * float(xstar @ H @ xstar) + float(l @ xstar)
        ent = got["solve"]
        want = ["OPTIMAL", np.round(xstar, 6).tolist(), round(fstar, 6)]
        if len(ent) < 3 or ent[0] != "OPTIMAL" or ent[2] is None:
            return "/solve", ent, want
        if not _close(_num(ent[1]), xstar, 2e-3, 2e-3) or not _close([ent[2]], [fstar], 1e-4, 1e-4):
            return "/solve", ent, want
    return None


def arr_plan(rng, thorough, per_combo=None):
    """cases [kind, n, mode, use, k earlier models, other-kind?, solve?, seed]: every kind × mode at an edge size, a size drawn
    from 1..40 and one from the upper half (so that size-gated code is reached by every kind in every mode)"""
    plan = []
    off = rng.randint(0, len(ARR_EDGE_DIMS) - 1)
    i = 0
    for kind in ARR_KINDS:
        for mode in ARR_MODES:
            dims = [ARR_EDGE_DIMS[(off + i) % len(ARR_EDGE_DIMS)], rng.randint(1, ARR_MAX_DIM), rng.randint(16, ARR_MAX_DIM)]
            dims += [rng.randint(1, ARR_MAX_DIM) for _ in range((per_combo or (6 if thorough else 3)) - 3)]
            for n in dims:
                use = ARR_USES[(off + i) % len(ARR_USES)] if rng.random() < 0.6 else rng.choice(ARR_USES[:5])
                solve = kind in ("quadform", "qfclass", "qfbare", "matparam") and n <= 20 and rng.random() < 0.4
                plan.append([kind, n, mode, use, rng.randint(1, 6), rng.random() < 0.3, bool(solve), rng.randint(0, 2**31 - 1)])
                i += 1
    return plan


def arr_case(case):
    """one history.  drop / drop_evict: k earlier models, each over arrays of its own, are built, differentiated and dropped
    (drop_evict: the LRU caches are emptied as a history beyond their capacity would), everything is collected; the arrays of
    the independent model M are then allocated until they sit at the address of a dead array of the same shape.
    mutate / mutate_drop: the earlier model is built over live arrays, which are overwritten in place with M's numbers before
    M is built over them (mutate_drop: the earlier model is dropped and collected first).
    Returns (M, observations, which of M's arrays (Q, b, c) sit on a recycled address / were overwritten in place, solve?)"""
    import gc

    kind, n, mode, use, k, other, solve, seed = case
    okinds = [kk for kk in ARR_KINDS if kk != kind]
    mvals = arr_values(seed, n, solve)
    recycled = ""
    if mode in ("drop", "drop_evict"):
        dead = set()
        for j in range(k):
            nk = okinds[(seed + j) % len(okinds)] if other and j % 2 == 0 else kind
            arrays = tuple(arr_alloc(nk, role, v) for role, v in zip("Qbc", arr_values(seed + 1 + j, n, solve and j % 2 == 1)))
            N = arr_build(nk, n, arrays)
            arr_use(N, use)
            dead.update(id(a) for a in arrays)
            del N, arrays
        if mode == "drop_evict":
            clear_lru()
        gc.collect()
        spare, arrays = [], []
        for role, v in zip("Qbc", mvals):
            a = None
            for _ in range(40):
                cand = arr_alloc(kind, role, v)
                if id(cand) in dead:
                    a = cand
                    dead.discard(id(cand))
                    recycled += role
                    break
                spare.append(cand)
            arrays.append(a if a is not None else arr_alloc(kind, role, v))
        arrays = tuple(arrays)
        del spare
    else:
        nk = okinds[seed % len(okinds)] if other else kind
        arrays = tuple(arr_alloc(kind, role, v) for role, v in zip("Qbc", arr_values(seed + 1, n, solve)))
        N = arr_build(nk, n, arrays)
        arr_use(N, use)
        if mode == "mutate_drop":
            del N
            clear_lru()
            gc.collect()
        for a, v in zip(arrays, mvals):
            a[...] = v
        recycled = "Qbc"
    M = arr_build(kind, n, arrays)
    return M, arr_observe(M, solve), recycled, solve


def arr_family(rep, plan, stop_at_first=False, max_failures=3):
    """independent models with array data after earlier models whose arrays died (address reuse) or were overwritten in place"""
    import gc

    fails = 0
    try:
        for case in plan:
            clear_lru()
            M, got, recycled, solve = arr_case(case)
            rep.evaluations += 1
            key = f"arrays:{case[0]}:{case[2]}"
            rep.histogram[key] = rep.histogram.get(key, 0) + 1
            rep.histogram["arrays:on_recycled_or_mutated_storage"] = rep.histogram.get("arrays:on_recycled_or_mutated_storage", 0) + int(bool(recycled))
            if case[1] >= 16:
                rep.histogram["arrays:n>=16"] = rep.histogram.get("arrays:n>=16", 0) + 1
            if recycled:
                rep.nontrivial.add(("arrays", json.dumps(case)))
            verdict = arr_judge(M, got, solve)
            del M
            gc.collect()
            if verdict:
                bad = {"what": "a model whose nodes hold NumPy arrays (quadratic-form matrix / coefficient vectors), built after earlier "
                               "independent models over same-shaped arrays were differentiated and then dropped or overwritten in place, "
                               "disagrees with NumPy evaluated on its own arrays",
                       "arrays": case, "n": case[1], "history": case[2], "earlier_use": case[3],
                       "arrays_on_recycled_or_mutated_storage": recycled,
                       "where": verdict[0], "got": str(verdict[1])[:300], "expected": str(verdict[2])[:300]}
                rep.oracle_failures.append(bad)
                fails += 1
                if stop_at_first:
                    return bad
                if fails >= max_failures:
                    break
    finally:
        clear_lru()
    return None


# ----------------------------------------------------------------------------- object lifetime: discard-and-rebuild

LIFE_KINDS = ["lin", "quad", "quart", "nonpoly", "param"]


def deep_threshold() -> int:
    import optyx.analysis as A
    import optyx.core.compiler as C
    import optyx.core.autodiff as D

    return max(A._RECURSION_THRESHOLD, C._RECURSION_THRESHOLD, D._RECURSION_THRESHOLD)


def life_build(kind: str, depth: int, variant: int = 0):
    """a model assembled term by term in a loop (left-leaning chain of `depth` additions) over the names a, b, c.
    Every kind allocates the same number of nodes per term, so a model built after another one was dropped lands on the
    same addresses.  `variant` changes bounds and targets (the discarded models), variant 0 is the observed target."""
    from optyx import Variable, Parameter, Problem, exp

    lo = -5.0 + variant % 3
    vs = [Variable(n, lb=lo, ub=5.0 + variant % 4) for n in ("a", "b", "c")]
    t = [1.0 + 0.25 * (variant % 5), -2.0, 3.0 - 0.5 * (variant % 2)]
    p = Parameter("p", 2.0 + variant)
    obj = None
    for i in range(depth + 1):
        k = i % 3
        d = vs[k] - t[k]
        if kind == "lin":
            term = d * 2.0
        elif kind == "quad":
            term = d ** 2.0
        elif kind == "quart":
            term = d ** 4.0
        elif kind == "nonpoly":
            term = exp(d * 0.125)
        else:
            term = d * p
        obj = term if obj is None else obj + term
    if kind in ("nonpoly", "param"):
        obj = obj + (vs[0] - t[0]) ** 2.0 + (vs[1] - t[1]) ** 2.0 + (vs[2] - t[2]) ** 2.0
    prob = Problem()
    prob.minimize(obj)
    cons = [vs[0] + vs[1] + vs[2] <= 9.0]
    prob.subject_to(cons)
    return {"vars": vs, "obj": obj, "prob": prob, "cons": cons, "p": p, "kind": kind, "depth": depth}


def life_observe(M, full: bool, compiled: bool = True) -> dict:
    """analysis observations (degrees, linearity verdicts, route — nothing that pins the tree in a cache); if `compiled`
    the compiled value; if `full` also the Jacobian and real solves (`auto` only where the route is not the expensive
    trust-constr)"""
    from optyx.analysis import compute_degree, is_linear, is_quadratic
    from optyx.core.compiler import compile_expression
    from optyx.core.autodiff import compile_jacobian

    obj, vs, prob = M["obj"], M["vars"], M["prob"]
    xs = np.array([0.75, -1.25, 1.5])
    out = {}
    with warnings.catch_warnings(), np.errstate(all="ignore"):
        warnings.simplefilter("ignore")
        out["degree"] = compute_degree(obj)
        out["slot_degree"] = obj.degree
        out["is_linear"] = bool(is_linear(obj))
        out["is_quadratic"] = bool(is_quadratic(obj))
        out["cons_degree"] = [compute_degree(c.expr) for c in M["cons"]]
        out["route_linear"] = bool(prob._is_linear_problem())
        out["route_method"] = "linprog" if out["route_linear"] else prob._auto_select_method()
        out["varnames"] = [v.name for v in prob.variables]
        out["bounds"] = [[_f(a), _f(b)] for a, b in prob.get_bounds()]
        if compiled or full:
            out["fn"] = _f(np.asarray(compile_expression(obj, vs)(xs)))
        if full:
            out["eval"] = _f(np.asarray(obj.evaluate({v.name: float(t) for v, t in zip(vs, xs)})))
            jf = compile_jacobian([obj], vs)
            out["jac"] = [jf.__name__] + _arr(jf(xs))
            out["solve"] = []
            for m in (("auto", "SLSQP") if out["route_method"] != "trust-constr" else ("SLSQP",)):
                try:
                    s = prob.solve(method=m)
                    vals = {k: round(float(v), 5) for k, v in sorted(s.values.items())} if s.values else {}
                    ov = None if s.objective_value is None else round(float(s.objective_value), 5)
                    out["solve"].append([m, s.status.name, vals, ov])
                except Exception as ex:  # noqa: BLE001
                    out["solve"].append([m, "raise:" + type(ex).__name__])
    return out


def life_analyse(M, solve: bool):
    """analysis-only use of a model (degree, linearity, route; an LP solve if it is one): nothing here hands the tree to a
    cache that keeps it alive, so dropping the model really frees its nodes"""
    from optyx.analysis import compute_degree, is_linear, is_quadratic

    with warnings.catch_warnings(), np.errstate(all="ignore"):
        warnings.simplefilter("ignore")
        is_linear(M["obj"]); is_quadratic(M["obj"]); compute_degree(M["obj"])
        for c in M["cons"]:
            compute_degree(c.expr)
        lin = M["prob"]._is_linear_problem()
        if not lin:
            M["prob"]._auto_select_method()
        elif solve:
            M["prob"].solve()


ANALYSIS_KEYS = ("degree", "slot_degree", "is_linear", "is_quadratic", "cons_degree", "route_linear", "route_method",
                 "varnames", "bounds")


def lifetime_soak(rep, rng, ref, depths, rounds, full_every, targets=None):
    """discard-and-rebuild rounds: a model of another kind is built, analysed (sometimes solved), dropped (and, every few
    rounds, garbage-collected); then the target is rebuilt from scratch — on recycled addresses — and observed"""
    import gc

    for depth in depths:
        for target in (targets or LIFE_KINDS):
            want_full = ref[json.dumps(["life", target, depth])]
            want_analysis = {k: want_full[k] for k in ANALYSIS_KEYS}
            want_compiled = dict(want_analysis, fn=want_full["fn"])
            others = [k for k in LIFE_KINDS if k != target]
            for r in range(rounds):
                N = life_build(others[r % len(others)], depth + ((r * 7) % 3 if r % 2 else 0), variant=1 + r)
                # how much of the library the discarded model went through decides whether its nodes stay pinned by the
                # process-wide LRU caches (compile / gradient / shallow degree keep strong references) or are really freed
                # phase A (first two thirds): nothing is compiled, every dropped model is really freed and its addresses
                # circulate; phase B: compiled / solved models in between (kept alive by the LRU caches), explicit collections
                phase_b = r >= (2 * rounds) // 3
                if phase_b and r % 3 == 2:
                    life_observe(N, full=(r % 23 == 11))
                else:
                    life_analyse(N, solve=(r % 10 == 0))
                del N
                if phase_b and r % 4 == 0:
                    gc.collect()
                # most rounds only *analyse* the rebuilt target (it is freed again afterwards, so addresses keep circulating
                # between the two families); some compile it (pinned by the compile cache), some solve it
                full = phase_b and r % full_every == full_every - 1
                compiled = phase_b and r % 5 == 3
                M = life_build(target, depth, 0)
                got = life_observe(M, full, compiled)
                rep.evaluations += 1
                key = f"lifetime:{target}:depth{depth}"
                rep.histogram[key] = rep.histogram.get(key, 0) + 1
                rep.nontrivial.add(("life", target, depth, r))
                d = same(got, want_full if full else (want_compiled if compiled else want_analysis))
                if d and not full:
                    got = life_observe(M, True)   # show the effect on Jacobian and solve as well
                    d = same(got, want_full) or d
                del M
                if d:
                    k0 = d.split("/")[1].split("[")[0]
                    rep.oracle_failures.append({
                        "what": "observation on a rebuilt model after discard-and-rebuild rounds differs from a fresh process",
                        "life": [target, depth], "rounds": r + 1, "where": d,
                        "got": str(got.get(k0))[:300], "fresh": str(want_full.get(k0))[:300]})
                    break
            gc.collect()


def soak_in_subprocesses(rep, jobs):
    """each job = (depths, rounds, targets, reference) runs `lifetime_soak` in a fresh interpreter; results are merged"""
    env = dict(os.environ)
    env["PYTHONDONTWRITEBYTECODE"] = "1"

    def one(job):
        depths, rounds, targets, ref = job
        payload = {"depths": depths, "rounds": rounds, "targets": targets,
                   "ref": {k: v for k, v in ref.items() if isinstance(k, str) and json.loads(k)[2] in depths}}
        p = subprocess.run([sys.executable, os.path.abspath(__file__), "--soak"], input=json.dumps(payload),
                           capture_output=True, text=True, env=env, timeout=3000)
        if p.returncode != 0:
            raise RuntimeError("soak subprocess failed: " + p.stderr[-1500:])
        return json.loads(p.stdout.splitlines()[-1])

    with ThreadPoolExecutor(6) as ex:
        for res in ex.map(one, jobs):
            rep.oracle_failures.extend(res["failures"])
            rep.evaluations += res["evaluations"]
            for k, v in res["histogram"].items():
                rep.histogram[k] = rep.histogram.get(k, 0) + v
            for t in res["nontrivial"]:
                rep.nontrivial.add(tuple(t))


def _soak_main():
    core.use_repo()
    job = json.loads(sys.stdin.read())
    rep = core.Report()
    lifetime_soak(rep, None, job["ref"], job["depths"], job["rounds"], 10, targets=job["targets"])
    print(json.dumps({"failures": rep.oracle_failures, "evaluations": rep.evaluations, "histogram": rep.histogram,
                      "nontrivial": [list(t) for t in rep.nontrivial]}))


def churn(n: int, seed: int):
    """push `n` distinct expressions over the shared names through all three caches"""
    from optyx import Variable, Parameter
    from optyx.core.compiler import compile_expression
    from optyx.core.autodiff import gradient, compile_jacobian
    from optyx.analysis import compute_degree

    r = random.Random(seed)
    keep = []
    for i in range(n):
        x0 = Variable("x0", lb=-5.0 - i, ub=-4.0)       # hostile bounds on a shared name
        x1 = Variable("x1")
        p = Parameter("p", 1000.0 + i)
        q = Parameter("q", -1000.0 - i)
        e = (x0 * float(i + 2) + p) * x1 + q
        compile_expression(e, [x1, x0])
        compile_expression(e, [x0, x1])
        gradient(e, x0); gradient(e, x1)
        compute_degree(e)
        if i % 16 == 0:
            compile_expression(x0, [x0, x1]); compile_expression(x0, [x1, x0]); compile_expression(p, [x0, x1])
            compile_jacobian([p * x0], [x0]); compile_jacobian([q], [x0]); gradient(x0, x0); gradient(p, x0)
            e.degree
        if r.random() < 0.05:
            keep.append(e)
    return keep


def cache_sizes():
    from optyx.core import compiler, autodiff
    from optyx import analysis

    return {"_compile_cached": compiler._compile_cached.cache_info(), "_gradient_cached": autodiff._gradient_cached.cache_info(),
            "_compute_degree_cached": analysis._compute_degree_cached.cache_info()}


def clear_lru():
    from optyx.core import compiler, autodiff
    from optyx import analysis

    compiler._compile_cached.cache_clear()
    autodiff._gradient_cached.cache_clear()
    analysis._compute_degree_cached.cache_clear()


# ----------------------------------------------------------------------------- fresh-process reference


def reference(seeds: list[int], own_process_each: bool = False) -> dict:
    """observations of the recipes in fresh subprocesses (parallel chunks)"""
    if not seeds:
        return {}
    env = dict(os.environ)
    env["PYTHONDONTWRITEBYTECODE"] = "1"
    chunks = [[s] for s in seeds] if own_process_each else [seeds[i::8] for i in range(8) if seeds[i::8]]

    def one(chunk):
        p = subprocess.run([sys.executable, os.path.abspath(__file__), "--ref"], input=json.dumps(chunk),
                           capture_output=True, text=True, env=env, timeout=1800)
        if p.returncode != 0:
            raise RuntimeError("reference subprocess failed: " + p.stderr[-1500:])
        return json.loads(p.stdout.splitlines()[-1])

    res = {}
    with ThreadPoolExecutor(8) as ex:
        for d in ex.map(one, chunks):
            res.update({(int(k) if k.lstrip("-").isdigit() else k): v for k, v in d.items()})
    return res


def _in_fork(thunk):
    """the JSON value of thunk() computed in a forked child of this process: the interpreter state the child starts from is the
    one right after `import optyx` — nothing any other item of the chunk did (solver glue, module globals) can be seen by it"""
    r, w = os.pipe()
    pid = os.fork()
    if pid == 0:
        code = 1
        try:
            os.close(r)
            data = json.dumps(thunk()).encode()
            while data:
                data = data[os.write(w, data):]
            code = 0
        finally:
            os._exit(code)
    os.close(w)
    buf = []
    while True:
        b = os.read(r, 1 << 16)
        if not b:
            break
        buf.append(b)
    os.close(r)
    _, status = os.waitpid(pid, 0)
    if status != 0:
        raise RuntimeError("forked reference child failed")
    return json.loads(b"".join(buf).decode())


def _ref_main():
    core.use_repo()
    seeds = json.loads(sys.stdin.read())
    out = {}
    # solver-option items first, each in a forked child of the still untouched interpreter
    for s in seeds:
        if isinstance(s, list) and s[0] == "opts":
            out[json.dumps(s)] = _in_fork(lambda s=s: opts_observe(s[1], s[2], s[3]))
    for s in seeds:
        if isinstance(s, list) and s[0] == "opts":
            continue
        clear_lru()
        if isinstance(s, list) and s[0] == "slack":
            out[json.dumps(s)] = slack_observe(slack_build(slack_specs(s[3])[s[1]], s[2]))
        elif isinstance(s, list) and s[0] == "small":
            out[json.dumps(s)] = small_observe(small_build(small_specs()[s[1]], s[2]))
        elif isinstance(s, list) and s[0] == "view":
            out[json.dumps(s)] = view_observe(view_build(s[1], s[2]))
        elif isinstance(s, list) and s[0] == "abort":
            out[json.dumps(s)] = abort_m_observe(abort_m_build(s[1]))
        elif isinstance(s, list) and s[0] == "probe":
            out[json.dumps(s)] = probe_observe(probe_build(s[1], s[2], "s"), full=probe_full(s[1], s[2]))
        elif isinstance(s, list):      # ["life", kind, depth]
            out[json.dumps(s)] = life_observe(life_build(s[1], s[2], 0), full=True)
        else:
            out[s] = observe(build_model(s))
    print(json.dumps(out))


def same(a, b, path=""):
    """None if equal (floats to 1e-9 relative), else the path of the first difference"""
    if isinstance(a, float) or isinstance(b, float):
        if isinstance(a, (int, float)) and isinstance(b, (int, float)):
            if math.isnan(float(a)) and math.isnan(float(b)):
                return None
            return None if math.isclose(float(a), float(b), rel_tol=1e-9, abs_tol=1e-11) else path
        return None if a == b else path
    if isinstance(a, dict) and isinstance(b, dict):
        if sorted(a) != sorted(b):
            return path + "/keys"
        for k in a:
            d = same(a[k], b[k], path + "/" + str(k))
            if d:
                return d
        return None
    if isinstance(a, (list, tuple)) and isinstance(b, (list, tuple)):
        if len(a) != len(b):
            return path + "/len"
        for i, (x, y) in enumerate(zip(a, b)):
            d = same(x, y, f"{path}[{i}]")
            if d:
                return d
        return None
    return None if a == b else path


# ----------------------------------------------------------------------------- key-equality facts assumed by the theorems


def key_facts(rep):
    from optyx import Variable, Parameter
    from optyx.core import compiler

    bad = []
    a, b = Variable("k", lb=0), Variable("k", lb=5, ub=9)
    pa, pb = Parameter("k", 1.0), Parameter("k", 2.0)
    e1, e2 = a + 1.0, a + 1.0
    facts = {
        "var_eq_by_name": a == b and hash(a) == hash(b),
        "var_ne_other_name": not (a == Variable("k2")),
        "par_eq_by_name": pa == pb and hash(pa) == hash(pb),
        "var_ne_par": not (a == pa) and not (pa == a),
        "interior_identity": (e1 == e1) is True and (e1 == e2) is False and hash(e1) != hash(e2),
    }
    # the bypass: a bare Parameter never becomes a key of the compile cache
    clear_lru()
    before = compiler._compile_cached.cache_info().currsize
    f1 = compiler.compile_expression(pa, [a])
    f2 = compiler.compile_expression(pb, [a])
    facts["bare_parameter_bypasses_compile_cache"] = compiler._compile_cached.cache_info().currsize == before
    facts["bare_parameter_closures_read_own_object"] = float(f1(np.array([0.0]))) == 1.0 and float(f2(np.array([0.0]))) == 2.0
    for k, v in facts.items():
        rep.histogram["fact:" + k] = int(bool(v))
        if not v:
            bad.append(k)
    return bad


# ----------------------------------------------------------------------------- entry points


def lru_correspondence(rng, rep, n):
    lines, want = [], []
    for _ in range(n):
        cap = rng.randint(0, 6)
        ks = [rng.randint(0, 8) for _ in range(rng.randint(1, 40))]

        @lru_cache(maxsize=cap)
        def f(k):
            return k

        s = ""
        for k in ks:
            h0 = f.cache_info().hits
            f(k)
            s += "h" if f.cache_info().hits > h0 else "m"
        lines.append(f"lru {cap} ({' '.join(map(str, ks))})")
        want.append(s)
    lines.append("lrusizes")
    want.append(" ".join(f"{k}={v.maxsize}" for k, v in sorted(cache_sizes().items())))
    outs = run_lean_unit(lines)
    for l, w, g in zip(lines, want, outs):
        rep.evaluations += 1
        if l == "lrusizes":
            g = " ".join(sorted(g.split()))
        if w != g:
            rep.corr_mismatches.append({"line": l[:200], "impl": w, "model": g})


def run(ctx) -> core.Report:
    rng = ctx["rng"]
    thorough = ctx["tier"] == "thorough" or ctx["escalate"]
    rep = core.Report(rule="seeded model recipes (8 structural families over the same variable / parameter names, bounds and "
                           "parameter values varied) × prefix k ∈ {0, 1, 5, capacity+50}; non-trivial = (recipe, k) with k ≥ 1 "
                           "whose prefix shares names with the model, and every discard-and-rebuild round (5 degree classes × shallow / deep "
                           "chains); every model of a sequence over distinct views with equal label and size that follows another one; every model "
                           "measured after a history in which an operation on another model (same names, shifted positions) ended in "
                           "an exception; every model solved after other models were solved with explicit per-call solver options "
                           "(12+ kind × method targets × rounds); "
                           "LRU policy: random request sequences, capacities 0–6")
    base = ctx["seed"] * 1000
    n_models = 64 if thorough else 24
    seeds = [base + i for i in range(n_models)]
    own = seeds[:: max(1, n_models // 6)][:6]

    bad = key_facts(rep)
    for k in bad:
        rep.corr_mismatches.append({"fact": k, "impl": False, "model": True})
    lru_correspondence(rng, rep, 600 if thorough else 200)

    # all fresh-process references of this run in one batch of subprocesses (each item is observed after cache_clear)
    probe_items = [["probe", k, n] for n in PROBE_DIMS for k in PROBE_KINDS]
    small_items = [["small", i, r] for i in range(len(small_specs())) for r in ("N", "M")]
    slack_items = [["slack", i, r, bool(thorough)] for i in range(len(slack_specs(thorough))) for r in ("N", "M")]
    views, view_strata = view_plan(rng, thorough)
    view_items = []
    for seq, tset in views:
        for rc in seq:
            if ["view", rc, tset] not in view_items:
                view_items.append(["view", rc, tset])
    rep.histogram["views:colliding_labels_found"] = view_strata
    aborts, abort_specs = abort_plan(rng, 48 if thorough else 24, 4 if thorough else 1)
    abort_items = [["abort", ms] for ms in abort_specs]
    opts = opts_plan(core.Rng(ctx["seed"] * 1000003 + 1414), thorough)
    opts_items = [["opts", s[0], s[1], s[2]] for s in opts]
    ref = reference(seeds + probe_items + small_items + slack_items + view_items + abort_items + opts_items)
    probe_ref = small_ref = slack_ref = ref
    ref_own = reference(own, own_process_each=True)
    for s in own:
        d = same(ref_own[s], ref[s])
        rep.evaluations += 1
        if d:
            rep.oracle_failures.append({"what": "observations in a process of their own differ from a cache-cleared process",
                                        "recipe": s, "k": "fresh-vs-cleared", "where": d})

    def check(s, k, label):
        got = observe(build_model(s))
        rep.evaluations += 1
        key = f"fam{s % 8}:k={label}"
        rep.histogram[key] = rep.histogram.get(key, 0) + 1
        if k:
            rep.nontrivial.add((s, label))
        d = same(got, ref[s])
        if d:
            a, b = got, ref[s]
            rep.oracle_failures.append({"what": "observation on M after a prefix of other models differs from a fresh process",
                                        "recipe": s, "k": label, "where": d,
                                        "got": str(got.get(d.split('/')[1].split('[')[0]))[:300],
                                        "fresh": str(ref[s].get(d.split('/')[1].split('[')[0]))[:300]})
        elif len(rep.samples) < 4 and k:
            rep.samples.append({"recipe": s, "k": label, "jac": got["jac"][:4], "solve": got["solve"][:1]})

    try:
        # k = 0
        for s in seeds:
            clear_lru()
            check(s, 0, "0")
        # k = 1 and k = 5: other recipes (same names) built, observed and solved first; nothing is cleared
        for k in (1, 5):
            clear_lru()
            for i, s in enumerate(seeds):
                for j in range(k):
                    other = base + 500 + (i * 7 + j * 3 + k) % 97
                    observe(build_model(other), scribble=(j % 2 == 0))
                check(s, k, str(k))
        # k = capacity + 50 for every cache
        cap = max(v.maxsize for v in cache_sizes().values())
        clear_lru()
        keep = churn(cap + 50, ctx["seed"])
        sizes = cache_sizes()
        rep.histogram["cache_fill_after_churn"] = {k: f"{v.currsize}/{v.maxsize}" for k, v in sizes.items()}
        if any(v.currsize < v.maxsize for v in sizes.values()):
            rep.notes.append("churn did not fill every cache to capacity")
        for s in seeds[: (24 if thorough else 10)]:
            check(s, cap + 50, "cap+50")
            churn(64, s)
        del keep
        # artefact probes: prefix × target pairs over all artefact kinds, same / different dimension and names
        clear_lru()
        probe_pairs(rep, rng, probe_ref, thorough)
        # small nodes over bare same-named leaves, two models interleaved
        clear_lru()
        small_family(rep, rng, small_ref, thorough)
        # bare-leaf constraints / slack variables in two same-named models
        clear_lru()
        slack_family(rep, rng, slack_ref, thorough)
        # distinct vector / matrix views with equal label and size in consecutive independent models
        clear_lru()
        view_family(rep, ref, views)
        # histories whose operations on other models are ABORTED half way by an exception (every entry point × every way of
        # failing), then a model over the same names at shifted positions: NumPy model of its formula + fresh process
        abort_family(rep, ref, aborts)
        # other models solved with explicit per-call options (every method, caps / tolerances / starting points / odd keywords),
        # then a model solved with defaults: NumPy optimum of its recipe, its twin solved before them, a fresh process
        opts_family(rep, ref, opts)
        # models holding NumPy arrays of dimension 1 … 40 after earlier models whose same-shaped arrays were differentiated and
        # then died (their addresses are handed out again) or were overwritten in place: NumPy on the model's own arrays
        arr_family(rep, arr_plan(core.Rng(ctx["seed"] * 1000003 + 141414), thorough))
        # prefixes that end in exceptions: interpreter-wide state untouched, later observations unaffected
        before = interpreter_state()
        outcomes = faulting_prefix()
        after = interpreter_state()
        rep.histogram["faulting_prefix_outcomes"] = outcomes
        rep.evaluations += len(outcomes)
        if before != after:
            rep.oracle_failures.append({"what": "process-wide interpreter state changed by calls that ended in an exception",
                                        "before": str(before)[:300], "after": str(after)[:300], "faults": outcomes})
        for s in seeds[:6]:
            check(s, 1, "after-faults")
        for (tk, tn) in (("cross", 2), ("sep", 3), ("pow2", 2)):
            got = probe_observe(probe_build(tk, tn, "s"), full=True)
            d = same(got, probe_ref[json.dumps(["probe", tk, tn])])
            rep.evaluations += 1
            if d:
                rep.oracle_failures.append({"what": "artefact differs from a fresh process after faulting calls of other models",
                                            "pair": [["faults", 0], [tk, tn]], "where": d})
        # object lifetime: shallow and deep (beyond the recursion threshold) chains, each target in a process of its own
        thr = deep_threshold()
        depths = [6, thr + 20]
        items = [["life", k, d] for d in depths for k in LIFE_KINDS]
        life_ref = reference(items, own_process_each=True)
        clear_lru()
        deep_targets = LIFE_KINDS if thorough else [LIFE_KINDS[(ctx["seed"] + i) % 5] for i in (0, 1, 3)]
        jobs = [([6], 600 if thorough else 120, LIFE_KINDS, life_ref)]
        # one process per deep target: whether a rebuilt tree lands on a recycled address depends on the state of the heap,
        # so each soak runs in an interpreter that does nothing else (and they run side by side)
        jobs += [([thr + 20], 450 if thorough else 90, [t], life_ref) for t in deep_targets]
        if thorough:
            # just below / at / just above the recursion threshold
            edge = [thr - 1, thr, thr + 1]
            edge_ref = reference([["life", k, d] for d in edge for k in LIFE_KINDS], own_process_each=True)
            jobs += [([d], 90, ["lin", "quad", "quart"], edge_ref) for d in edge]
        soak_in_subprocesses(rep, jobs)
    finally:
        clear_lru()
    return rep


def search(ctx, rep):
    rng = core.Rng(ctx["seed"] + 15485863)
    # array-holding models after earlier models whose arrays died / were overwritten (judged by NumPy: no reference needed)
    found = arr_family(core.Report(), arr_plan(rng, False, per_combo=6), stop_at_first=True)
    if found:
        return found
    # models solved after other models were solved with explicit per-call options (NumPy optimum + twin: no reference needed)
    found = opts_family(core.Report(), None, opts_plan(rng, False, reps=3), stop_at_first=True)
    if found:
        return found
    # models measured after aborted operations on other models (judged by the NumPy model of their formula: no reference needed)
    try:
        plan, _ = abort_plan(rng, 60, 3)
        found = abort_family(core.Report(), None, plan, stop_at_first=True)
        if found:
            return found
    finally:
        clear_lru()
    # vector nodes over colliding views (judged by the NumPy model of each function: no reference needed)
    try:
        clear_lru()
        plan, _ = view_plan(rng, True, n_sampled=12)
        found = view_family(core.Report(), None, plan, stop_at_first=True)
        if found:
            return found
    finally:
        clear_lru()
    seeds = [rng.randint(10**6, 10**7) for _ in range(60)]
    ref = reference(seeds)
    try:
        clear_lru()
        churn(300, 1)
        for i, s in enumerate(seeds):
            for j in range(rng.randint(0, 4)):
                observe(build_model(rng.randint(10**6, 10**7)))
            got = observe(build_model(s))
            d = same(got, ref[s])
            if d:
                return {"what": "observation on M after a prefix of other models differs from a fresh process",
                        "recipe": s, "k": "search", "where": d, "prefix": seeds[:i]}
    finally:
        clear_lru()
    return None


def replay(payload) -> bool:
    f = payload["failure"]
    if "slack" in f:
        i, th = int(f["slack"][0]), bool(f["slack"][2])
        ref = reference([["slack", i, r, th] for r in ("N", "M")], own_process_each=True)
        rep = core.Report()
        clear_lru()
        try:
            slack_family(rep, None, ref, th, only=i)
        finally:
            clear_lru()
        print("failures:", rep.oracle_failures[:1])
        return not rep.oracle_failures
    if "arrays" in f:
        rep = core.Report()
        arr_family(rep, [f["arrays"]] * 5)
        print("failures:", rep.oracle_failures[:1])
        return not rep.oracle_failures
    if "opts" in f:
        plan = f["opts"]
        ref = reference([["opts", sp, m, own] for sp, m, own, _ in plan], own_process_each=True)
        rep = core.Report()
        opts_family(rep, ref, plan)
        print("failures:", rep.oracle_failures[:1])
        return not rep.oracle_failures
    if "abort" in f:
        hist, ms = f["abort"]
        ref = reference([["abort", ms]], own_process_each=True)
        rep = core.Report()
        clear_lru()
        try:
            abort_family(rep, ref, [(hist, ms)])
        finally:
            clear_lru()
        print("failures:", rep.oracle_failures[:1])
        return not rep.oracle_failures
    if "view" in f:
        seq, tset, _j = f["view"]
        ref = reference([["view", rc, tset] for rc in seq], own_process_each=True)
        rep = core.Report()
        clear_lru()
        try:
            view_family(rep, ref, [(seq, int(tset))])
        finally:
            clear_lru()
        print("failures:", rep.oracle_failures[:1])
        return not rep.oracle_failures
    if "small" in f:
        i = int(f["small"][0])
        ref = reference([["small", i, r] for r in ("N", "M")], own_process_each=True)
        rep = core.Report()
        clear_lru()
        try:
            small_family(rep, None, ref, True, only=i)
        finally:
            clear_lru()
        print("failures:", rep.oracle_failures[:1])
        return not rep.oracle_failures
    if "life" in f:
        kind, depth = f["life"]
        ref = reference([["life", kind, depth]], own_process_each=True)
        rep = core.Report()
        clear_lru()
        try:
            lifetime_soak(rep, None, ref, [depth], max(300, 3 * int(f.get("rounds", 100))), 20, targets=[kind])
        finally:
            clear_lru()
        print("failures:", rep.oracle_failures[:1])
        return not rep.oracle_failures
    s = int(f["recipe"])
    ref = reference([s], own_process_each=True)
    clear_lru()
    try:
        churn(5000, 0)
        for o in f.get("prefix", [])[-20:]:
            observe(build_model(int(o)))
        for j in range(5):
            observe(build_model(s + 500 + j))
        got = observe(build_model(s))
    finally:
        clear_lru()
    d = same(got, ref[s])
    print("difference at:", d)
    return d is None


if __name__ == "__main__" and "--ref" in sys.argv:
    _ref_main()
if __name__ == "__main__" and "--soak" in sys.argv:
    _soak_main()
