"""C14 — independent models do not interfere through process-wide caches.

Tie:    (a) CPython's `functools.lru_cache` hit/miss behaviour on random request sequences and small
            capacities vs the Lean policy `Py.LRU.lru` (exact); the three `maxsize` values of the real
            caches vs the regenerated table `Optyx.Generated.lruSizes` (exact);
        (b) the key equality the theorems assume (`Variable` / `Parameter` equal-and-hash by name, every other
            node by identity; a bare `Parameter` never reaches `_compile_cached`) measured on real objects.
Oracle: for seeded model recipes M (same variable / parameter *names* in every model, different bounds, values,
        structure): observations on M — evaluate, compiled value, Jacobian (+ which fast path), Hessian, symbolic
        gradients, degrees, LP data, real solves with two methods, all again after `Parameter.set` — after an
        adversarial prefix of k ∈ {0, 1, 5, capacity + 50} other models in this process, and after *discard-and-rebuild*
        rounds (a model of another degree class over the same names is built, analysed, sometimes solved, dropped and
        garbage-collected, then the target is rebuilt on the recycled addresses — shallow chains and chains deeper than the
        recursion threshold), against the same observations computed in a **fresh subprocess** (one process per chunk with all caches cleared before each
        M, plus some M in a process of their own).
"""
from __future__ import annotations

import json
import math
import os
import random
import subprocess
import sys
import warnings
from concurrent.futures import ThreadPoolExecutor
from functools import lru_cache

if __name__ == "__main__":
    sys.path.insert(0, os.path.dirname(os.path.dirname(os.path.abspath(__file__))))

import numpy as np

import core

LEAN_MODULE = "Optyx.Props.C14"
EXTRA_MODULES = ["Optyx.Props.PinsC14", "Optyx.Props.StateTie", "Optyx.Props.BuildTie"]   # transcription anchors (harness/source_pins.py)
THEOREMS = [
    "Optyx.Props.C14.cache_transparent",
    "Optyx.Props.C14.cache_transparent_run",
    "Optyx.Props.C14.lru_policy_sound",
    "Optyx.Props.C14.respects_degree",
    "Optyx.Props.C14.respects_gradient",
    "Optyx.Props.C14.respects_compile",
    "Optyx.Props.C14.compile_cache_param_collision",
    "Optyx.Props.C14.gradient_cached_transparent",
    "Optyx.Props.C14.compile_cached_transparent",
    "Optyx.Props.StateTie.edits_are_source",
    "Optyx.Props.BuildTie.compile_step",
    "Optyx.Props.BuildTie.compileVec_step",
    "Optyx.Props.PinsC14.anchors",
]
ASSUMPTIONS = [
    "object identity is modelled by structural equality including object ids (coarser than `is`: the theorems hold for "
    "every key equality at least as fine), name equality for Variable / Parameter",
    "cached values are compared up to meaning (`denote` over ℝ for gradients, extensional equality for compiled closures)",
    "expressions are immutable after construction (no attribute of a node is reassigned)",
]


def run_lean_unit(lines):
    return core.run_lean(lines)


# ----------------------------------------------------------------------------- model recipes (deterministic)

DY = [-2.0, -1.5, -1.0, -0.5, 0.25, 0.5, 0.75, 1.0, 1.5, 2.0, 2.5, 3.0]


def build_model(ms: int):
    """a model over the *same names* in every recipe: x0 x1 x2, u[0..2], parameters p q"""
    from optyx import Variable, VectorVariable, Parameter, Problem, sin, exp, cos
    from optyx.core.expressions import Constant

    r = random.Random(ms * 7919 + 13)
    lbs = [r.choice([0.0, 0.25, 0.5, 1.0]) for _ in range(3)]
    ubs = [lb + r.choice([1.0, 2.0, 3.5, 5.0]) for lb in lbs]
    x = [Variable(f"x{i}", lb=lbs[i], ub=ubs[i]) for i in range(3)]
    ul = r.choice([0.0, 0.5])
    u = VectorVariable("u", 3, lb=ul, ub=ul + r.choice([2.0, 4.0]))
    p = Parameter("p", r.choice(DY))
    q = Parameter("q", r.choice(DY))
    a, b, c = (r.choice(DY) for _ in range(3))
    fam = ms % 8
    if fam == 0:
        obj = a * x[0] + b * x[1] + c * x[2]
        cons = [x[0] + x[1] >= lbs[0] + lbs[1] + 0.5, x[1] + 2.0 * x[2] <= ubs[1] + 2.0 * ubs[2] - 0.25]
        vs = list(x)
    elif fam == 1:
        obj = (x[0] - p) ** 2 + (x[1] - q) ** 2 + x[2] ** 2 + a * x[0] * x[1]
        cons = [x[0] + x[1] + x[2] >= lbs[0] + lbs[1] + lbs[2] + 0.5]
        vs = list(x)
    elif fam == 2:
        obj = sin(x[0]) * x[1] + exp(q * x[2] * 0.25) + p * x[0]
        cons = [x[0] * x[1] <= ubs[0] * ubs[1] - 0.125 + abs(a)]
        vs = list(x)
    elif fam == 3:
        obj = u.dot(u) + p * u.sum() + (u[0] - q) ** 2
        cons = [u.sum() >= 3 * ul + 0.5]
        vs = list(u)
    elif fam == 4:
        obj = (x[0] + 1.0) ** p + q * x[1] + x[1] * x[1]
        cons = []
        vs = [x[0], x[1]]
    elif fam == 5:
        obj = p * x[0] + q * x[1]                     # linear in x but parametric: never an LP
        cons = [x[0] + x[1] >= lbs[0] + lbs[1] + 0.25]
        vs = [x[0], x[1]]
    elif fam == 6:
        obj = (a * u).sum() + cos(x[0]) * c + Constant(b)
        cons = [u[0] + x[0] <= ul + 2.0 + ubs[0]]
        vs = list(u) + [x[0]]
    else:
        obj = b * x[2] - a * x[0] + 1.5
        cons = []
        vs = [x[0], x[2]]
    sense = "max" if (ms // 8) % 3 == 2 and fam in (0, 7) else "min"
    prob = Problem()
    (prob.maximize if sense == "max" else prob.minimize)(obj)
    if cons:
        prob.subject_to(cons)
    return {"x": x, "u": u, "p": p, "q": q, "obj": obj, "cons": cons, "vars": vs, "prob": prob, "fam": fam,
            "point": [r.choice([0.75, 1.25, 1.5, 2.25]) for _ in vs], "p_new": r.choice(DY), "seed": ms}


def _f(v):
    v = float(v)
    return v if math.isfinite(v) else repr(v)


SCRIBBLE = [False]   # a hostile consumer: overwrite, in place, every array a callable / extractor handed out


def _arr(a):
    out = [_f(z) for z in np.asarray(a, dtype=float).ravel()]
    if SCRIBBLE[0] and isinstance(a, np.ndarray) and a.flags.writeable and a.size:
        try:
            a[...] = 777.0
        except Exception:  # noqa: BLE001
            pass
    return out


def observe(M, scribble: bool = False) -> dict:
    """every observable C14 talks about, as JSON-able data.  With `scribble` the caller behaves like a consumer that owns
    what it was handed: every returned array is overwritten in place afterwards (harmless unless the library shares it)"""
    SCRIBBLE[0] = bool(scribble)
    try:
        return _observe(M)
    finally:
        SCRIBBLE[0] = False


def _observe(M) -> dict:
    from optyx.core.compiler import compile_expression, compile_gradient, compile_to_dict_function
    from optyx.core.autodiff import compile_jacobian, compile_hessian, gradient
    from optyx.analysis import compute_degree, is_linear, LinearProgramExtractor
    from ser import ser, Unsupported

    out = {}
    vs, obj = M["vars"], M["obj"]
    xs = np.array(M["point"], dtype=float)
    env = {v.name: float(t) for v, t in zip(vs, xs)}

    def block(tag):
        with warnings.catch_warnings(), np.errstate(all="ignore"):
            warnings.simplefilter("ignore")
            out[tag + "eval"] = _f(np.asarray(obj.evaluate(env)))
            out[tag + "fn"] = _f(np.asarray(compile_expression(obj, vs)(xs)))
            exprs = [obj] + [c.expr for c in M["cons"]]
            jf = compile_jacobian(exprs, vs)
            out[tag + "jac"] = [jf.__name__] + _arr(jf(xs))
            jf1 = compile_jacobian([obj], vs)
            out[tag + "jac1"] = [jf1.__name__] + _arr(jf1(xs))
            hf = compile_hessian(obj, vs)
            out[tag + "hess"] = [hf.__name__] + _arr(hf(xs))
            out[tag + "hess_again"] = _arr(hf(xs + 0.125))
            gf = compile_gradient(obj, vs)
            out[tag + "grad"] = [gf.__name__] + _arr(gf(xs))
            out[tag + "dict_fn"] = _f(np.asarray(compile_to_dict_function(obj, vs)(env)))
            out[tag + "grad_sym_value"] = [_f(np.asarray(gradient(obj, v).evaluate(env))) for v in vs]
            out[tag + "cons_hess"] = [_arr(compile_hessian(c.expr, vs)(xs)) for c in M["cons"]]
            out[tag + "violation"] = [[_f(c.violation(env)), bool(c.is_satisfied(env))] for c in M["cons"]]
            # bare leaves: the only keys that are shared *by name* across models
            out[tag + "leaf_var"] = [_f(compile_expression(v, vs)(xs)) for v in vs]
            out[tag + "leaf_par"] = [_f(compile_expression(M["p"], vs)(xs)), _f(compile_expression(M["q"], vs)(xs))]
            z = vs[0]
            out[tag + "leaf_jac"] = _arr(compile_jacobian([M["p"] * z], [z])(xs[:1])) + \
                _arr(compile_jacobian([M["q"]], [z])(xs[:1])) + _arr(compile_jacobian([z], [z])(xs[:1]))
            out[tag + "solve"] = []
            methods = ("auto", "SLSQP") + (("trust-constr",) if M["fam"] in (1, 3) and not tag else ())
            for m in methods:
                try:
                    s = M["prob"].solve(method=m)
                    nd = 7 if m != "trust-constr" else 4
                    vals = {k: round(float(v), nd) for k, v in sorted(s.values.items())} if s.values else {}
                    ov = None if s.objective_value is None else round(float(s.objective_value), nd)
                    out[tag + "solve"].append([m, s.status.name, vals, ov] + ([s.iterations] if m == "trust-constr" else []))
                except Exception as ex:  # noqa: BLE001
                    out[tag + "solve"].append([m, "raise:" + type(ex).__name__])

    block("")
    g = []
    for v in vs:
        try:
            g.append(ser(gradient(obj, v), with_ids=False))
        except Unsupported as ex:
            g.append("unsupported:" + str(ex))
    out["grad_sym"] = g
    out["degree"] = [compute_degree(obj)] + [compute_degree(c.expr) for c in M["cons"]]
    out["is_linear"] = [bool(is_linear(obj))] + [bool(is_linear(c.expr)) for c in M["cons"]]
    if all(out["is_linear"]):
        d = LinearProgramExtractor().extract(M["prob"])
        out["lp"] = [_arr(d.c), None if d.A_ub is None else _arr(d.A_ub), None if d.b_ub is None else _arr(d.b_ub),
                     None if d.A_eq is None else _arr(d.A_eq), None if d.b_eq is None else _arr(d.b_eq),
                     [[None if t is None else _f(t) for t in bd] for bd in d.bounds], list(d.variables), _f(d.c0)]
    out["bounds"] = [[None if t is None else _f(t) for t in bd] for bd in M["prob"].get_bounds()]
    out["varnames"] = [v.name for v in M["prob"].variables]
    M["p"].set(M["p_new"])
    block("after_set_")
    return out


# ----------------------------------------------------------------------------- artefact probes: prefix × target pairs

PROBE_KINDS = ["lin", "vsum", "pow1", "pow2", "pow3", "usum", "sep", "cross", "cubic", "dotself", "quadform", "l2", "mixed"]
PROBE_DIMS = [1, 2, 3, 5]


def probe_build(kind: str, n: int, nm: str = "s"):
    """a small model over n variables whose artefacts (value, gradient, Jacobian, Hessian) have a characteristic structure:
    all-zero / constant / structurally sparse / dense Hessians, constant / scaled / general Jacobians, every vectorised
    fast path.  `nm` is the base name (prefix and target may or may not share names)."""
    from optyx import Variable, VectorVariable, Problem, exp
    from optyx.core import vectors as V
    from optyx.core import matrices as Mx

    if kind in ("vsum", "pow1", "pow2", "pow3", "usum", "dotself", "quadform", "l2"):
        x = VectorVariable(nm, n, lb=-4.0, ub=4.0)
        vs = list(x)
        obj = {
            "vsum": lambda: x.sum(), "pow1": lambda: V.VectorPowerSum(x, 1), "pow2": lambda: V.VectorPowerSum(x, 2),
            "pow3": lambda: V.VectorPowerSum(x, 3), "usum": lambda: V.VectorUnarySum(x, "exp"),
            "dotself": lambda: x.dot(x),
            "quadform": lambda: Mx.QuadraticForm(x, np.array([[2.0 + i if i == j else 0.25 * ((i + j) % 3) for j in range(n)]
                                                             for i in range(n)])),
            "l2": lambda: V.L2Norm(x),
        }[kind]()
    else:
        vs = [Variable(f"{nm}{i}", lb=-4.0, ub=4.0) for i in range(n)]
        if kind == "lin":
            obj = sum(((i + 1.5) * v for i, v in enumerate(vs)), start=0.0 * vs[0]) + 2.0
        elif kind == "sep":
            obj = sum(((v - float(i)) ** 2 for i, v in enumerate(vs)), start=exp(vs[0] * 0.5))
        elif kind == "cross":
            obj = sum((v * v for v in vs), start=0.0 * vs[0])
            for i in range(n):
                for j in range(i + 1, n):
                    obj = obj + (0.5 + i + 2 * j) * vs[i] * vs[j] * 0.125
        elif kind == "cubic":
            obj = sum((v ** 3 for v in vs), start=vs[0] * vs[-1] * 3.0)
        else:  # mixed: constants, structural zeros and x-dependent entries in one Hessian
            obj = 3.0 * vs[0] ** 2 + exp(vs[-1] * 0.25) + (vs[0] * vs[-1] if n > 1 else vs[0])
    prob = Problem()
    prob.minimize(obj)
    return {"vars": vs, "obj": obj, "prob": prob, "kind": kind, "n": n}


def probe_observe(M, full: bool = False) -> dict:
    """all first- and second-order artefacts of a probe, each callable called at two points"""
    from optyx.core.compiler import compile_expression, compile_gradient, compile_to_dict_function
    from optyx.core.autodiff import compile_jacobian, compile_hessian, gradient
    from optyx.analysis import compute_degree

    obj, vs = M["obj"], M["vars"]
    n = len(vs)
    pts = [np.array([0.75 + 0.5 * i for i in range(n)]), np.array([-1.25 + 0.375 * i for i in range(n)])]
    out = {"degree": compute_degree(obj)}
    with warnings.catch_warnings(), np.errstate(all="ignore"):
        warnings.simplefilter("ignore")
        fn, jf, gf, hf = (compile_expression(obj, vs), compile_jacobian([obj], vs), compile_gradient(obj, vs),
                          compile_hessian(obj, vs))
        df = compile_to_dict_function(obj, vs)
        out["paths"] = [jf.__name__, gf.__name__, hf.__name__]
        for k, x in enumerate(pts):
            env = {v.name: float(t) for v, t in zip(vs, x)}
            out[f"eval{k}"] = _f(np.asarray(obj.evaluate(env)))
            out[f"fn{k}"] = _f(np.asarray(fn(x)))
            out[f"dict{k}"] = _f(np.asarray(df(env)))
            out[f"jac{k}"] = _arr(jf(x))
            out[f"grad{k}"] = _arr(gf(x))
            out[f"hess{k}"] = _arr(hf(x))
            out[f"symgrad{k}"] = [_f(np.asarray(gradient(obj, v).evaluate(env))) for v in vs]
        if full:
            out["solve"] = []
            for m in ("trust-constr", "L-BFGS-B"):
                try:
                    s = M["prob"].solve(method=m)
                    out["solve"].append([m, s.status.name, {k: round(float(v), 4) for k, v in sorted((s.values or {}).items())},
                                         None if s.objective_value is None else round(float(s.objective_value), 4), s.iterations])
                except Exception as ex:  # noqa: BLE001
                    out["solve"].append([m, "raise:" + type(ex).__name__])
    return out


PROBE_SOLVED = {"pow2", "sep", "dotself", "quadform", "cross"}


def probe_full(kind, n):
    return kind in PROBE_SOLVED and n in (2, 3)


def probe_raw(M):
    """the arrays the public callables of a model hand out (kept by the caller), with copies taken at that moment"""
    from optyx.core.compiler import compile_gradient
    from optyx.core.autodiff import compile_jacobian, compile_hessian
    from optyx.analysis import LinearProgramExtractor, is_linear

    obj, vs = M["obj"], M["vars"]
    x = np.array([0.75 + 0.5 * i for i in range(len(vs))])
    kept = []
    with warnings.catch_warnings(), np.errstate(all="ignore"):
        warnings.simplefilter("ignore")
        for f in (compile_jacobian([obj], vs), compile_gradient(obj, vs), compile_hessian(obj, vs)):
            r = f(x)
            if isinstance(r, np.ndarray):
                kept.append((f.__name__, r, r.copy()))
        if is_linear(obj):
            d = LinearProgramExtractor().extract(M["prob"])
            kept.append(("LPData.c", d.c, d.c.copy()))
        bl = M["prob"].get_bounds(); vl = M["prob"].variables
        kept.append(("get_bounds", bl, list(bl)))
        kept.append(("variables", vl, list(vl)))
    return kept


def changed_results(kept):
    out = []
    for name, obj, cp in kept:
        same_now = np.array_equal(obj, cp, equal_nan=True) if isinstance(obj, np.ndarray) else list(obj) == cp
        if not same_now:
            out.append(name)
    return out


def probe_pairs(rep, rng, ref, thorough):
    """every target probe after prefixes of other probes: same and different dimension, same and different names; the
    prefix is consumed by a hostile consumer (returned arrays overwritten in place); nothing is cleared in between"""
    targets = [(k, n) for n in PROBE_DIMS for k in PROBE_KINDS]
    for (tk, tn) in targets:
        want = ref[json.dumps(["probe", tk, tn])]
        same_n = [(k, tn) for k in PROBE_KINDS if k != tk]
        other_n = [(k, n) for n in PROBE_DIMS if n != tn for k in ("cross", "mixed", "pow2", "lin")]
        prefixes = same_n + other_n if thorough else rng.sample(same_n, 5) + rng.sample(other_n, 2)
        holder = probe_build(tk, tn, "s")
        kept = probe_raw(holder)          # results of earlier calls, held by the user while other models come and go
        for i, (pk, pn) in enumerate(prefixes):
            N = probe_build(pk, pn, "s" if i % 2 == 0 else "t")
            SCRIBBLE[0] = True
            try:
                probe_observe(N, full=probe_full(pk, pn) and i % 3 == 0)
            finally:
                SCRIBBLE[0] = False
            got = probe_observe(probe_build(tk, tn, "s"), full=probe_full(tk, tn))
            rep.evaluations += 1
            rep.nontrivial.add(("pair", pk, pn, tk, tn))
            key = f"pair:n{pn}->n{tn}"
            rep.histogram[key] = rep.histogram.get(key, 0) + 1
            ch = changed_results(kept)
            if ch:
                rep.oracle_failures.append({
                    "what": "an array / list returned earlier by a public call of one model changed while other models were used",
                    "pair": [[pk, pn], [tk, tn]], "where": "/" + ch[0], "got": str(ch), "fresh": "unchanged"})
                break
            d = same(got, want)
            if d:
                k0 = d.split("/")[1].split("[")[0]
                rep.oracle_failures.append({
                    "what": "artefact of a model differs from a fresh process after an unrelated model was compiled / consumed",
                    "pair": [[pk, pn], [tk, tn]], "where": d, "got": str(got.get(k0))[:300], "fresh": str(want.get(k0))[:300]})
                break


# ----------------------------------------------------------------------------- small nodes over bare same-named leaves

UNARY_OPS = ["neg", "abs", "sin", "cos", "tan", "exp", "log", "log2", "log10", "sqrt", "tanh", "sinh", "cosh", "asin", "acos",
             "atan", "asinh", "acosh", "atanh"]
BIN_OPS = ["+", "-", "*", "/", "**"]
LEAF_KINDS = ["P", "Q", "X", "Y", "C"]          # Parameter p, Parameter q, Variable x, Variable y, Constant


def small_specs():
    """every node kind over every kind of bare leaf: a bare leaf, a unary function of a leaf, a binary operation of two
    leaves, the vector reductions over vectors of bare leaves"""
    specs = [("leaf", k) for k in ("P", "X", "C")]
    specs += [("un", op, k) for op in UNARY_OPS for k in ("P", "X", "C")]
    pairs = [("P", "Q"), ("P", "X"), ("X", "P"), ("P", "C"), ("C", "P"), ("X", "C"), ("P", "P"), ("X", "Y")]
    specs += [("bin", op, a, b) for op in BIN_OPS for a, b in pairs]
    specs += [("vec", kind, a, b) for kind in ("sum", "l2", "l1", "dot", "lincomb") for a, b in (("P", "Q"), ("P", "X"), ("P", "C"))]
    return specs


def small_build(spec, role: str):
    """the model of `role` ("N" or "M"): same names (p, q, x, y), own objects, own values / bounds"""
    from optyx import Variable, Parameter, Problem
    from optyx.core.expressions import Constant, BinaryOp, UnaryOp
    from optyx.core import vectors as V

    shift = 1.0 if (spec[0] == "un" and spec[1] == "acosh") else 0.0
    pv, qv, cv = ((0.5, 0.25, 0.375) if role == "N" else (0.75, 0.625, 0.875))
    lo = 0.0 if role == "N" else 2.0
    L = {"P": Parameter("p", pv + shift), "Q": Parameter("q", qv + shift), "X": Variable("x", lb=lo, ub=lo + 1.0),
         "Y": Variable("y", lb=lo, ub=lo + 1.0), "C": Constant(cv + shift)}

    def node():
        if spec[0] == "leaf":
            return L[spec[1]]
        if spec[0] == "un":
            return UnaryOp(L[spec[2]], spec[1])
        if spec[0] == "bin":
            return BinaryOp(L[spec[2]], L[spec[3]], spec[1])
        ve = V.VectorExpression([L[spec[2]], L[spec[3]]])
        return {"sum": lambda: ve.sum(), "l2": lambda: V.L2Norm(ve), "l1": lambda: V.L1Norm(ve), "dot": lambda: V.DotProduct(ve, ve),
                "lincomb": lambda: V.LinearCombination(np.array([2.0, -1.0]), ve)}[spec[1]]()

    nd = node()
    x, y = L["X"], L["Y"]
    return {"spec": spec, "role": role, "node": nd, "twin": node() if spec[0] != "leaf" else None, "x": x, "y": y, "L": L,
            "vars": [x, y]}


def small_compile(M):
    """all artefacts in which the small node is the complete compiled expression / derivative entry / Hessian entry"""
    from optyx import Problem
    from optyx.core.compiler import compile_expression, compile_gradient, compile_to_dict_function
    from optyx.core.autodiff import compile_jacobian, compile_hessian, gradient

    nd, x, y, vs = M["node"], M["x"], M["y"], M["vars"]
    e1 = x * x + nd * y                 # d/dy = node
    e2 = nd * x * y + x * x             # d2/dxdy = node
    e3 = x * nd - 1.0                   # constraint whose x-coefficient is the node
    with warnings.catch_warnings(), np.errstate(all="ignore"):
        warnings.simplefilter("ignore")
        art = {"whole": compile_expression(nd, vs), "dict": compile_to_dict_function(nd, vs),
               "jac1": compile_jacobian([e1], vs), "grad1": compile_gradient(e1, vs),
               "dy": compile_expression(gradient(e1, y), vs), "hess2": compile_hessian(e2, vs),
               "jac3": compile_jacobian([e3, e1], vs), "jac_node": compile_jacobian([nd], vs), "hess_node": compile_hessian(nd, vs)}
    prob = Problem()
    prob.maximize(nd * x - x * x - y * y)        # the negated objective has -node as the x-coefficient
    prob.subject_to(e3 <= 5.0)
    art["prob"] = prob
    art["exprs"] = (e1, e2, e3)
    return art


def small_call(M, art) -> dict:
    from optyx.analysis import compute_degree

    nd, vs = M["node"], M["vars"]
    lo = 0.0 if M["role"] == "N" else 2.0
    pt = np.array([lo + 0.25, lo + 0.75])
    env = {"x": float(pt[0]), "y": float(pt[1])}
    out = {}
    with warnings.catch_warnings(), np.errstate(all="ignore"):
        warnings.simplefilter("ignore")
        out["eval"] = _f(np.asarray(nd.evaluate(env)))
        out["whole"] = _f(np.asarray(art["whole"](pt)))
        out["dict"] = _f(np.asarray(art["dict"](env)))
        for k in ("jac1", "grad1", "hess2", "jac3", "jac_node", "hess_node"):
            out[k] = [art[k].__name__] + _arr(art[k](pt))
        out["dy"] = _f(np.asarray(art["dy"](pt)))
        out["degree"] = [compute_degree(e) for e in art["exprs"]] + [compute_degree(nd)]
        try:
            s = art["prob"].solve(method="SLSQP")
            out["solve"] = [s.status.name, {k: round(float(v), 6) for k, v in sorted((s.values or {}).items())},
                            None if s.objective_value is None else round(float(s.objective_value), 6)]
        except Exception as ex:  # noqa: BLE001
            out["solve"] = ["raise:" + type(ex).__name__]
        # expressions as keys of hash / equality based containers: two distinct objects of equal structure are two keys
        if M["twin"] is not None:
            tw = M["twin"]
            out["containers"] = [len({nd, tw}), tw in {nd: 1}, (nd == tw) is True, len({nd: 1, tw: 2}), [nd].count(tw)]
    return out


def small_observe(M) -> dict:
    return small_call(M, small_compile(M))


def small_family(rep, rng, ref, thorough, only=None):
    """two independently built models with the same names whose small nodes have the same structure: compiled,
    differentiated, evaluated and solved in every interleaving; each must see its own leaves"""
    specs = small_specs()
    orders = ["N-then-M", "compile-both-call-both", "M-first", "set-in-between"]
    for i, spec in enumerate(specs):
        if only is not None and i != only:
            continue
        want = {r: ref[json.dumps(["small", i, r])] for r in ("N", "M")}
        for order in (orders if thorough else [orders[(i + (rng.randint(0, 3) if rng is not None else 0)) % 4]]):
            N, M = small_build(spec, "N"), small_build(spec, "M")
            if order == "N-then-M":
                got = {"N": small_observe(N), "M": small_observe(M)}
            elif order == "compile-both-call-both":
                aN, aM = small_compile(N), small_compile(M)
                gM = small_call(M, aM)
                got = {"N": small_call(N, aN), "M": gM}
            elif order == "M-first":
                aM = small_compile(M)
                aN = small_compile(N)
                got = {"N": small_call(N, aN), "M": small_call(M, aM)}
            else:
                aN = small_compile(N)
                small_call(N, aN)
                N["L"]["P"].set(0.125 + (1.0 if spec[:2] == ("un", "acosh") else 0.0))    # the other model's parameter moves
                aM = small_compile(M)
                got = {"M": small_call(M, aM)}
            rep.evaluations += 1
            rep.nontrivial.add(("small", i, order))
            key = "small:" + spec[0]
            rep.histogram[key] = rep.histogram.get(key, 0) + 1
            bad = None
            for r, g in got.items():
                d = same(g, want[r])
                if d:
                    k0 = d.split("/")[1].split("[")[0]
                    bad = {"what": "a model whose node over bare leaves has the same structure and names as another model's sees "
                                   "the other model's leaf",
                           "small": [i, list(spec)], "order": order, "role": r, "where": d, "got": str(g.get(k0))[:200],
                           "fresh": str(want[r].get(k0))[:200]}
                    break
            cont = got["M"].get("containers")
            if bad is None and cont is not None and cont != [2, False, False, 2, 0] and spec[0] != "leaf":
                bad = {"what": "two distinct expression objects of equal structure collide as keys of a set / dict / list search",
                       "small": [i, list(spec)], "order": order, "got": cont, "fresh": [2, False, False, 2, 0]}
            if bad:
                rep.oracle_failures.append(bad)


# ----------------------------------------------------------------------------- bare-leaf constraints and slack variables


def slack_specs(thorough):
    """a constraint whose expression is (or normalises to) a bare variable: leaf kind × sense × right-hand side × where the
    variable occurs first × linear / quadratic objective"""
    rhss = ["0", "0.0", "Constant0", "1.5"] + (["-0.0", "np0", "False"] if thorough else [])
    return [(leaf, sense, rhs, place, obj)
            for leaf in ("scalar", "vecelem")
            for sense in (">=", "<=", "==")
            for rhs in rhss
            for place in ("slack-first", "slack-only", "in-objective", "after-use")
            for obj in ("lin", "quad")]


def slack_build(spec, role: str):
    """model of `role` over the same names x, s (or v[1]): own objects, own bounds / domains"""
    from optyx import Variable, VectorVariable, Problem
    from optyx.core.expressions import Constant

    leaf, sense, rhs, place, objk = spec
    x = Variable("x", lb=0.0, ub=4.0)
    # both ranges contain 0 and 1.5, so every bare constraint is feasible in both models (no slow infeasibility retries)
    if role == "N":
        lb, ub, dom = -2.0, 2.0, "continuous"
    else:
        lb, ub, dom = -1.0, 3.0, ("integer" if sense == "==" else "continuous")
    if leaf == "scalar":
        s_ = Variable("s", lb=lb, ub=ub, domain=dom)
        own = [x, s_]
    else:
        v = VectorVariable("v", 3, lb=lb, ub=ub)
        s_ = v[1]
        own = [x, s_]
    r = {"0": 0, "0.0": 0.0, "Constant0": Constant(0.0), "1.5": 1.5, "-0.0": -0.0, "np0": np.float64(0.0), "False": False}[rhs]
    bare = {">=": lambda: s_ >= r, "<=": lambda: s_ <= r, "==": lambda: s_.eq(r)}[sense]()
    use = x + s_ >= 1.0 if role == "N" else x + s_ >= 2.0
    obj = (x * 2.0 + 1.0) if objk == "lin" else (x - 3.0) ** 2
    if place == "in-objective":
        obj = obj + (0.5 * s_ if objk == "lin" else (s_ - 1.0) ** 2)
    prob = Problem()
    prob.minimize(obj)
    if place == "slack-first":
        prob.subject_to(bare); prob.subject_to(use)
    elif place == "after-use":
        prob.subject_to(use); prob.subject_to(bare)
    else:
        prob.subject_to(bare)
    return {"prob": prob, "own": own, "x": x, "s": s_, "spec": spec, "role": role}


def slack_observe(M) -> dict:
    """what the problem believes its variables are — objects, bounds, domains — through every channel"""
    from optyx.analysis import LinearProgramExtractor
    from optyx.solvers.scipy_solver import _compute_initial_point

    prob = M["prob"]
    out = {}
    with warnings.catch_warnings(), np.errstate(all="ignore"):
        warnings.simplefilter("ignore")
        vs = prob.variables
        out["names"] = [v.name for v in vs]
        # independent of any reference: every variable the problem lists is one of the objects this model was built from
        out["own_objects"] = [any(v is o for o in M["own"]) for v in vs]
        out["bounds_via_objects"] = [[_f(v.lb) if v.lb is not None else None, _f(v.ub) if v.ub is not None else None, v.domain]
                                     for v in vs]
        out["get_bounds"] = [[None if a is None else _f(a), None if b is None else _f(b)] for a, b in prob.get_bounds()]
        out["n_variables"] = prob.n_variables
        out["x0"] = _arr(_compute_initial_point(vs))
        lin = prob._is_linear_problem()
        out["linear"] = bool(lin)
        if lin:
            d = LinearProgramExtractor().extract(prob)
            out["lp"] = [_arr(d.c), None if d.A_ub is None else _arr(d.A_ub), None if d.b_ub is None else _arr(d.b_ub),
                         None if d.A_eq is None else _arr(d.A_eq), None if d.b_eq is None else _arr(d.b_eq),
                         [[None if t is None else _f(t) for t in bd] for bd in d.bounds], list(d.variables)]
        out["solve"] = []
        for m in ("auto", "SLSQP"):
            try:
                sol = prob.solve(method=m)
                out["solve"].append([m, sol.status.name, {k: round(float(v), 6) for k, v in sorted((sol.values or {}).items())},
                                     None if sol.objective_value is None else round(float(sol.objective_value), 6)])
            except Exception as ex:  # noqa: BLE001
                out["solve"].append([m, "raise:" + type(ex).__name__])
        sc = prob._solver_cache
        out["nlp_bounds"] = None if sc is None else [[_f(a), _f(b)] for a, b in sc["bounds"]]
        out["strict"] = []
        for m in ("auto", "SLSQP"):
            try:
                prob.solve(method=m, strict=True)
                out["strict"].append("ok")
            except Exception as ex:  # noqa: BLE001
                out["strict"].append(type(ex).__name__)
    return out


def slack_family(rep, rng, ref, thorough, only=None):
    specs = slack_specs(thorough)
    orders = ["N-then-M", "build-both-observe-M-first", "M-then-N", "N-variables-only-then-M"]
    for i, spec in enumerate(specs):
        if only is not None and i != only:
            continue
        want = {r: ref[json.dumps(["slack", i, r, bool(thorough)])] for r in ("N", "M")}
        for order in (orders if thorough else [orders[i % 4], orders[(i + 2) % 4]]):
            if order == "N-then-M":
                got = {"N": slack_observe(slack_build(spec, "N"))}
                got["M"] = slack_observe(slack_build(spec, "M"))
            elif order == "build-both-observe-M-first":
                N, M = slack_build(spec, "N"), slack_build(spec, "M")
                got = {"M": slack_observe(M)}
                got["N"] = slack_observe(N)
            elif order == "M-then-N":
                got = {"M": slack_observe(slack_build(spec, "M"))}
                got["N"] = slack_observe(slack_build(spec, "N"))
            else:
                N = slack_build(spec, "N")
                N["prob"].n_variables; N["prob"].summary()
                got = {"M": slack_observe(slack_build(spec, "M"))}
            rep.evaluations += 1
            rep.nontrivial.add(("slack", i, order))
            key = f"slack:{spec[0]}:{spec[3]}"
            rep.histogram[key] = rep.histogram.get(key, 0) + 1
            bad = None
            for r, g in got.items():
                if not all(g["own_objects"]):
                    bad = {"what": "Problem.variables of a model holds a Variable object that belongs to another model",
                           "slack": [i, list(spec), bool(thorough)], "order": order, "role": r, "where": "/own_objects",
                           "got": str(list(zip(g["names"], g["own_objects"], g["bounds_via_objects"])))[:300], "fresh": "all own"}
                    break
                d = same(g, want[r])
                if d:
                    k0 = d.split("/")[1].split("[")[0]
                    bad = {"what": "a model with a bare-variable constraint differs from a fresh process after a same-named model",
                           "slack": [i, list(spec), bool(thorough)], "order": order, "role": r, "where": d,
                           "got": str(g.get(k0))[:300], "fresh": str(want[r].get(k0))[:300]}
                    break
            if bad:
                rep.oracle_failures.append(bad)


# ----------------------------------------------------------------------------- faulting prefixes and interpreter state


def interpreter_state():
    import sys as _sys

    return {"recursionlimit": _sys.getrecursionlimit(), "showwarning": warnings.showwarning,
            "filters": len(warnings.filters), "errstate": dict(np.geterr())}


def faulting_prefix():
    """calls of other models that end in an exception (every class the library raises on purpose, plus a back end that
    is interrupted): none of them may leave process-wide state behind"""
    from optyx import Variable, Problem, sin
    import optyx.solvers.scipy_solver as SS
    from optyx.core.autodiff import increased_recursion_limit

    z = Variable("s0", lb=0.0, ub=3.0)
    k = Variable("s1", domain="integer", lb=0, ub=5)
    outcomes = []

    def attempt(f):
        try:
            with warnings.catch_warnings():
                warnings.simplefilter("ignore")
                f()
            outcomes.append("ok")
        except BaseException as ex:  # noqa: BLE001
            outcomes.append(type(ex).__name__)

    attempt(lambda: Problem().solve())
    attempt(lambda: Problem().minimize(sin(z) + z * z).solve(method="linprog"))
    attempt(lambda: Problem().minimize(z + k).solve(strict=True))
    attempt(lambda: Problem().minimize(z * z + k).solve(method="SLSQP", strict=True))
    attempt(lambda: Problem().minimize(z).subject_to([z >= 1, z + 1]))
    attempt(lambda: Problem().minimize("not an expression"))

    def interrupted(exc):
        old = SS.minimize

        def boom(*a, **kw):
            kw.get("jac", lambda x: 0)(np.asarray(kw.get("x0", a[1] if len(a) > 1 else [0.0]), dtype=float))
            raise exc
        SS.minimize = boom
        try:
            Problem().minimize((z - 1.0) ** 2 + (k - 2.0) ** 2).solve(method="trust-constr")
        finally:
            SS.minimize = old

    attempt(lambda: interrupted(KeyboardInterrupt()))
    attempt(lambda: interrupted(RuntimeError("back end failed")))

    def recursion_ctx():
        with increased_recursion_limit(3000):
            raise ValueError("inside")
    attempt(recursion_ctx)
    return outcomes


# ----------------------------------------------------------------------------- object lifetime: discard-and-rebuild

LIFE_KINDS = ["lin", "quad", "quart", "nonpoly", "param"]


def deep_threshold() -> int:
    import optyx.analysis as A
    import optyx.core.compiler as C
    import optyx.core.autodiff as D

    return max(A._RECURSION_THRESHOLD, C._RECURSION_THRESHOLD, D._RECURSION_THRESHOLD)


def life_build(kind: str, depth: int, variant: int = 0):
    """a model assembled term by term in a loop (left-leaning chain of `depth` additions) over the names a, b, c.
    Every kind allocates the same number of nodes per term, so a model built after another one was dropped lands on the
    same addresses.  `variant` changes bounds and targets (the discarded models), variant 0 is the observed target."""
    from optyx import Variable, Parameter, Problem, exp

    lo = -5.0 + variant % 3
    vs = [Variable(n, lb=lo, ub=5.0 + variant % 4) for n in ("a", "b", "c")]
    t = [1.0 + 0.25 * (variant % 5), -2.0, 3.0 - 0.5 * (variant % 2)]
    p = Parameter("p", 2.0 + variant)
    obj = None
    for i in range(depth + 1):
        k = i % 3
        d = vs[k] - t[k]
        if kind == "lin":
            term = d * 2.0
        elif kind == "quad":
            term = d ** 2.0
        elif kind == "quart":
            term = d ** 4.0
        elif kind == "nonpoly":
            term = exp(d * 0.125)
        else:
            term = d * p
        obj = term if obj is None else obj + term
    if kind in ("nonpoly", "param"):
        obj = obj + (vs[0] - t[0]) ** 2.0 + (vs[1] - t[1]) ** 2.0 + (vs[2] - t[2]) ** 2.0
    prob = Problem()
    prob.minimize(obj)
    cons = [vs[0] + vs[1] + vs[2] <= 9.0]
    prob.subject_to(cons)
    return {"vars": vs, "obj": obj, "prob": prob, "cons": cons, "p": p, "kind": kind, "depth": depth}


def life_observe(M, full: bool, compiled: bool = True) -> dict:
    """analysis observations (degrees, linearity verdicts, route — nothing that pins the tree in a cache); if `compiled`
    the compiled value; if `full` also the Jacobian and real solves (`auto` only where the route is not the expensive
    trust-constr)"""
    from optyx.analysis import compute_degree, is_linear, is_quadratic
    from optyx.core.compiler import compile_expression
    from optyx.core.autodiff import compile_jacobian

    obj, vs, prob = M["obj"], M["vars"], M["prob"]
    xs = np.array([0.75, -1.25, 1.5])
    out = {}
    with warnings.catch_warnings(), np.errstate(all="ignore"):
        warnings.simplefilter("ignore")
        out["degree"] = compute_degree(obj)
        out["slot_degree"] = obj.degree
        out["is_linear"] = bool(is_linear(obj))
        out["is_quadratic"] = bool(is_quadratic(obj))
        out["cons_degree"] = [compute_degree(c.expr) for c in M["cons"]]
        out["route_linear"] = bool(prob._is_linear_problem())
        out["route_method"] = "linprog" if out["route_linear"] else prob._auto_select_method()
        out["varnames"] = [v.name for v in prob.variables]
        out["bounds"] = [[_f(a), _f(b)] for a, b in prob.get_bounds()]
        if compiled or full:
            out["fn"] = _f(np.asarray(compile_expression(obj, vs)(xs)))
        if full:
            out["eval"] = _f(np.asarray(obj.evaluate({v.name: float(t) for v, t in zip(vs, xs)})))
            jf = compile_jacobian([obj], vs)
            out["jac"] = [jf.__name__] + _arr(jf(xs))
            out["solve"] = []
            for m in (("auto", "SLSQP") if out["route_method"] != "trust-constr" else ("SLSQP",)):
                try:
                    s = prob.solve(method=m)
                    vals = {k: round(float(v), 5) for k, v in sorted(s.values.items())} if s.values else {}
                    ov = None if s.objective_value is None else round(float(s.objective_value), 5)
                    out["solve"].append([m, s.status.name, vals, ov])
                except Exception as ex:  # noqa: BLE001
                    out["solve"].append([m, "raise:" + type(ex).__name__])
    return out


def life_analyse(M, solve: bool):
    """analysis-only use of a model (degree, linearity, route; an LP solve if it is one): nothing here hands the tree to a
    cache that keeps it alive, so dropping the model really frees its nodes"""
    from optyx.analysis import compute_degree, is_linear, is_quadratic

    with warnings.catch_warnings(), np.errstate(all="ignore"):
        warnings.simplefilter("ignore")
        is_linear(M["obj"]); is_quadratic(M["obj"]); compute_degree(M["obj"])
        for c in M["cons"]:
            compute_degree(c.expr)
        lin = M["prob"]._is_linear_problem()
        if not lin:
            M["prob"]._auto_select_method()
        elif solve:
            M["prob"].solve()


ANALYSIS_KEYS = ("degree", "slot_degree", "is_linear", "is_quadratic", "cons_degree", "route_linear", "route_method",
                 "varnames", "bounds")


def lifetime_soak(rep, rng, ref, depths, rounds, full_every, targets=None):
    """discard-and-rebuild rounds: a model of another kind is built, analysed (sometimes solved), dropped (and, every few
    rounds, garbage-collected); then the target is rebuilt from scratch — on recycled addresses — and observed"""
    import gc

    for depth in depths:
        for target in (targets or LIFE_KINDS):
            want_full = ref[json.dumps(["life", target, depth])]
            want_analysis = {k: want_full[k] for k in ANALYSIS_KEYS}
            want_compiled = dict(want_analysis, fn=want_full["fn"])
            others = [k for k in LIFE_KINDS if k != target]
            for r in range(rounds):
                N = life_build(others[r % len(others)], depth + ((r * 7) % 3 if r % 2 else 0), variant=1 + r)
                # how much of the library the discarded model went through decides whether its nodes stay pinned by the
                # process-wide LRU caches (compile / gradient / shallow degree keep strong references) or are really freed
                # phase A (first two thirds): nothing is compiled, every dropped model is really freed and its addresses
                # circulate; phase B: compiled / solved models in between (kept alive by the LRU caches), explicit collections
                phase_b = r >= (2 * rounds) // 3
                if phase_b and r % 3 == 2:
                    life_observe(N, full=(r % 23 == 11))
                else:
                    life_analyse(N, solve=(r % 10 == 0))
                del N
                if phase_b and r % 4 == 0:
                    gc.collect()
                # most rounds only *analyse* the rebuilt target (it is freed again afterwards, so addresses keep circulating
                # between the two families); some compile it (pinned by the compile cache), some solve it
                full = phase_b and r % full_every == full_every - 1
                compiled = phase_b and r % 5 == 3
                M = life_build(target, depth, 0)
                got = life_observe(M, full, compiled)
                rep.evaluations += 1
                key = f"lifetime:{target}:depth{depth}"
                rep.histogram[key] = rep.histogram.get(key, 0) + 1
                rep.nontrivial.add(("life", target, depth, r))
                d = same(got, want_full if full else (want_compiled if compiled else want_analysis))
                if d and not full:
                    got = life_observe(M, True)   # show the effect on Jacobian and solve as well
                    d = same(got, want_full) or d
                del M
                if d:
                    k0 = d.split("/")[1].split("[")[0]
                    rep.oracle_failures.append({
                        "what": "observation on a rebuilt model after discard-and-rebuild rounds differs from a fresh process",
                        "life": [target, depth], "rounds": r + 1, "where": d,
                        "got": str(got.get(k0))[:300], "fresh": str(want_full.get(k0))[:300]})
                    break
            gc.collect()


def soak_in_subprocesses(rep, jobs):
    """each job = (depths, rounds, targets, reference) runs `lifetime_soak` in a fresh interpreter; results are merged"""
    env = dict(os.environ)
    env["PYTHONDONTWRITEBYTECODE"] = "1"

    def one(job):
        depths, rounds, targets, ref = job
        payload = {"depths": depths, "rounds": rounds, "targets": targets,
                   "ref": {k: v for k, v in ref.items() if isinstance(k, str) and json.loads(k)[2] in depths}}
        p = subprocess.run([sys.executable, os.path.abspath(__file__), "--soak"], input=json.dumps(payload),
                           capture_output=True, text=True, env=env, timeout=3000)
        if p.returncode != 0:
            raise RuntimeError("soak subprocess failed: " + p.stderr[-1500:])
        return json.loads(p.stdout.splitlines()[-1])

    with ThreadPoolExecutor(6) as ex:
        for res in ex.map(one, jobs):
            rep.oracle_failures.extend(res["failures"])
            rep.evaluations += res["evaluations"]
            for k, v in res["histogram"].items():
                rep.histogram[k] = rep.histogram.get(k, 0) + v
            for t in res["nontrivial"]:
                rep.nontrivial.add(tuple(t))


def _soak_main():
    core.use_repo()
    job = json.loads(sys.stdin.read())
    rep = core.Report()
    lifetime_soak(rep, None, job["ref"], job["depths"], job["rounds"], 10, targets=job["targets"])
    print(json.dumps({"failures": rep.oracle_failures, "evaluations": rep.evaluations, "histogram": rep.histogram,
                      "nontrivial": [list(t) for t in rep.nontrivial]}))


def churn(n: int, seed: int):
    """push `n` distinct expressions over the shared names through all three caches"""
    from optyx import Variable, Parameter
    from optyx.core.compiler import compile_expression
    from optyx.core.autodiff import gradient, compile_jacobian
    from optyx.analysis import compute_degree

    r = random.Random(seed)
    keep = []
    for i in range(n):
        x0 = Variable("x0", lb=-5.0 - i, ub=-4.0)       # hostile bounds on a shared name
        x1 = Variable("x1")
        p = Parameter("p", 1000.0 + i)
        q = Parameter("q", -1000.0 - i)
        e = (x0 * float(i + 2) + p) * x1 + q
        compile_expression(e, [x1, x0])
        compile_expression(e, [x0, x1])
        gradient(e, x0); gradient(e, x1)
        compute_degree(e)
        if i % 16 == 0:
            compile_expression(x0, [x0, x1]); compile_expression(x0, [x1, x0]); compile_expression(p, [x0, x1])
            compile_jacobian([p * x0], [x0]); compile_jacobian([q], [x0]); gradient(x0, x0); gradient(p, x0)
            e.degree
        if r.random() < 0.05:
            keep.append(e)
    return keep


def cache_sizes():
    from optyx.core import compiler, autodiff
    from optyx import analysis

    return {"_compile_cached": compiler._compile_cached.cache_info(), "_gradient_cached": autodiff._gradient_cached.cache_info(),
            "_compute_degree_cached": analysis._compute_degree_cached.cache_info()}


def clear_lru():
    from optyx.core import compiler, autodiff
    from optyx import analysis

    compiler._compile_cached.cache_clear()
    autodiff._gradient_cached.cache_clear()
    analysis._compute_degree_cached.cache_clear()


# ----------------------------------------------------------------------------- fresh-process reference


def reference(seeds: list[int], own_process_each: bool = False) -> dict:
    """observations of the recipes in fresh subprocesses (parallel chunks)"""
    if not seeds:
        return {}
    env = dict(os.environ)
    env["PYTHONDONTWRITEBYTECODE"] = "1"
    chunks = [[s] for s in seeds] if own_process_each else [seeds[i::8] for i in range(8) if seeds[i::8]]

    def one(chunk):
        p = subprocess.run([sys.executable, os.path.abspath(__file__), "--ref"], input=json.dumps(chunk),
                           capture_output=True, text=True, env=env, timeout=1800)
        if p.returncode != 0:
            raise RuntimeError("reference subprocess failed: " + p.stderr[-1500:])
        return json.loads(p.stdout.splitlines()[-1])

    res = {}
    with ThreadPoolExecutor(8) as ex:
        for d in ex.map(one, chunks):
            res.update({(int(k) if k.lstrip("-").isdigit() else k): v for k, v in d.items()})
    return res


def _ref_main():
    core.use_repo()
    seeds = json.loads(sys.stdin.read())
    out = {}
    for s in seeds:
        clear_lru()
        if isinstance(s, list) and s[0] == "slack":
            out[json.dumps(s)] = slack_observe(slack_build(slack_specs(s[3])[s[1]], s[2]))
        elif isinstance(s, list) and s[0] == "small":
            out[json.dumps(s)] = small_observe(small_build(small_specs()[s[1]], s[2]))
        elif isinstance(s, list) and s[0] == "probe":
            out[json.dumps(s)] = probe_observe(probe_build(s[1], s[2], "s"), full=probe_full(s[1], s[2]))
        elif isinstance(s, list):      # ["life", kind, depth]
            out[json.dumps(s)] = life_observe(life_build(s[1], s[2], 0), full=True)
        else:
            out[s] = observe(build_model(s))
    print(json.dumps(out))


def same(a, b, path=""):
    """None if equal (floats to 1e-9 relative), else the path of the first difference"""
    if isinstance(a, float) or isinstance(b, float):
        if isinstance(a, (int, float)) and isinstance(b, (int, float)):
            if math.isnan(float(a)) and math.isnan(float(b)):
                return None
            return None if math.isclose(float(a), float(b), rel_tol=1e-9, abs_tol=1e-11) else path
        return None if a == b else path
    if isinstance(a, dict) and isinstance(b, dict):
        if sorted(a) != sorted(b):
            return path + "/keys"
        for k in a:
            d = same(a[k], b[k], path + "/" + str(k))
            if d:
                return d
        return None
    if isinstance(a, (list, tuple)) and isinstance(b, (list, tuple)):
        if len(a) != len(b):
            return path + "/len"
        for i, (x, y) in enumerate(zip(a, b)):
            d = same(x, y, f"{path}[{i}]")
            if d:
                return d
        return None
    return None if a == b else path


# ----------------------------------------------------------------------------- key-equality facts assumed by the theorems


def key_facts(rep):
    from optyx import Variable, Parameter
    from optyx.core import compiler

    bad = []
    a, b = Variable("k", lb=0), Variable("k", lb=5, ub=9)
    pa, pb = Parameter("k", 1.0), Parameter("k", 2.0)
    e1, e2 = a + 1.0, a + 1.0
    facts = {
        "var_eq_by_name": a == b and hash(a) == hash(b),
        "var_ne_other_name": not (a == Variable("k2")),
        "par_eq_by_name": pa == pb and hash(pa) == hash(pb),
        "var_ne_par": not (a == pa) and not (pa == a),
        "interior_identity": (e1 == e1) is True and (e1 == e2) is False and hash(e1) != hash(e2),
    }
    # the bypass: a bare Parameter never becomes a key of the compile cache
    clear_lru()
    before = compiler._compile_cached.cache_info().currsize
    f1 = compiler.compile_expression(pa, [a])
    f2 = compiler.compile_expression(pb, [a])
    facts["bare_parameter_bypasses_compile_cache"] = compiler._compile_cached.cache_info().currsize == before
    facts["bare_parameter_closures_read_own_object"] = float(f1(np.array([0.0]))) == 1.0 and float(f2(np.array([0.0]))) == 2.0
    for k, v in facts.items():
        rep.histogram["fact:" + k] = int(bool(v))
        if not v:
            bad.append(k)
    return bad


# ----------------------------------------------------------------------------- entry points


def lru_correspondence(rng, rep, n):
    lines, want = [], []
    for _ in range(n):
        cap = rng.randint(0, 6)
        ks = [rng.randint(0, 8) for _ in range(rng.randint(1, 40))]

        @lru_cache(maxsize=cap)
        def f(k):
            return k

        s = ""
        for k in ks:
            h0 = f.cache_info().hits
            f(k)
            s += "h" if f.cache_info().hits > h0 else "m"
        lines.append(f"lru {cap} ({' '.join(map(str, ks))})")
        want.append(s)
    lines.append("lrusizes")
    want.append(" ".join(f"{k}={v.maxsize}" for k, v in sorted(cache_sizes().items())))
    outs = run_lean_unit(lines)
    for l, w, g in zip(lines, want, outs):
        rep.evaluations += 1
        if l == "lrusizes":
            g = " ".join(sorted(g.split()))
        if w != g:
            rep.corr_mismatches.append({"line": l[:200], "impl": w, "model": g})


def run(ctx) -> core.Report:
    rng = ctx["rng"]
    thorough = ctx["tier"] == "thorough" or ctx["escalate"]
    rep = core.Report(rule="seeded model recipes (8 structural families over the same variable / parameter names, bounds and "
                           "parameter values varied) × prefix k ∈ {0, 1, 5, capacity+50}; non-trivial = (recipe, k) with k ≥ 1 "
                           "whose prefix shares names with the model, and every discard-and-rebuild round (5 degree classes × shallow / deep "
                           "chains); LRU policy: random request sequences, capacities 0–6")
    base = ctx["seed"] * 1000
    n_models = 64 if thorough else 24
    seeds = [base + i for i in range(n_models)]
    own = seeds[:: max(1, n_models // 6)][:6]

    bad = key_facts(rep)
    for k in bad:
        rep.corr_mismatches.append({"fact": k, "impl": False, "model": True})
    lru_correspondence(rng, rep, 600 if thorough else 200)

    # all fresh-process references of this run in one batch of subprocesses (each item is observed after cache_clear)
    probe_items = [["probe", k, n] for n in PROBE_DIMS for k in PROBE_KINDS]
    small_items = [["small", i, r] for i in range(len(small_specs())) for r in ("N", "M")]
    slack_items = [["slack", i, r, bool(thorough)] for i in range(len(slack_specs(thorough))) for r in ("N", "M")]
    ref = reference(seeds + probe_items + small_items + slack_items)
    probe_ref = small_ref = slack_ref = ref
    ref_own = reference(own, own_process_each=True)
    for s in own:
        d = same(ref_own[s], ref[s])
        rep.evaluations += 1
        if d:
            rep.oracle_failures.append({"what": "observations in a process of their own differ from a cache-cleared process",
                                        "recipe": s, "k": "fresh-vs-cleared", "where": d})

    def check(s, k, label):
        got = observe(build_model(s))
        rep.evaluations += 1
        key = f"fam{s % 8}:k={label}"
        rep.histogram[key] = rep.histogram.get(key, 0) + 1
        if k:
            rep.nontrivial.add((s, label))
        d = same(got, ref[s])
        if d:
            a, b = got, ref[s]
            rep.oracle_failures.append({"what": "observation on M after a prefix of other models differs from a fresh process",
                                        "recipe": s, "k": label, "where": d,
                                        "got": str(got.get(d.split('/')[1].split('[')[0]))[:300],
                                        "fresh": str(ref[s].get(d.split('/')[1].split('[')[0]))[:300]})
        elif len(rep.samples) < 4 and k:
            rep.samples.append({"recipe": s, "k": label, "jac": got["jac"][:4], "solve": got["solve"][:1]})

    try:
        # k = 0
        for s in seeds:
            clear_lru()
            check(s, 0, "0")
        # k = 1 and k = 5: other recipes (same names) built, observed and solved first; nothing is cleared
        for k in (1, 5):
            clear_lru()
            for i, s in enumerate(seeds):
                for j in range(k):
                    other = base + 500 + (i * 7 + j * 3 + k) % 97
                    observe(build_model(other), scribble=(j % 2 == 0))
                check(s, k, str(k))
        # k = capacity + 50 for every cache
        cap = max(v.maxsize for v in cache_sizes().values())
        clear_lru()
        keep = churn(cap + 50, ctx["seed"])
        sizes = cache_sizes()
        rep.histogram["cache_fill_after_churn"] = {k: f"{v.currsize}/{v.maxsize}" for k, v in sizes.items()}
        if any(v.currsize < v.maxsize for v in sizes.values()):
            rep.notes.append("churn did not fill every cache to capacity")
        for s in seeds[: (24 if thorough else 10)]:
            check(s, cap + 50, "cap+50")
            churn(64, s)
        del keep
        # artefact probes: prefix × target pairs over all artefact kinds, same / different dimension and names
        clear_lru()
        probe_pairs(rep, rng, probe_ref, thorough)
        # small nodes over bare same-named leaves, two models interleaved
        clear_lru()
        small_family(rep, rng, small_ref, thorough)
        # bare-leaf constraints / slack variables in two same-named models
        clear_lru()
        slack_family(rep, rng, slack_ref, thorough)
        # prefixes that end in exceptions: interpreter-wide state untouched, later observations unaffected
        before = interpreter_state()
        outcomes = faulting_prefix()
        after = interpreter_state()
        rep.histogram["faulting_prefix_outcomes"] = outcomes
        rep.evaluations += len(outcomes)
        if before != after:
            rep.oracle_failures.append({"what": "process-wide interpreter state changed by calls that ended in an exception",
                                        "before": str(before)[:300], "after": str(after)[:300], "faults": outcomes})
        for s in seeds[:6]:
            check(s, 1, "after-faults")
        for (tk, tn) in (("cross", 2), ("sep", 3), ("pow2", 2)):
            got = probe_observe(probe_build(tk, tn, "s"), full=True)
            d = same(got, probe_ref[json.dumps(["probe", tk, tn])])
            rep.evaluations += 1
            if d:
                rep.oracle_failures.append({"what": "artefact differs from a fresh process after faulting calls of other models",
                                            "pair": [["faults", 0], [tk, tn]], "where": d})
        # object lifetime: shallow and deep (beyond the recursion threshold) chains, each target in a process of its own
        thr = deep_threshold()
        depths = [6, thr + 20]
        items = [["life", k, d] for d in depths for k in LIFE_KINDS]
        life_ref = reference(items, own_process_each=True)
        clear_lru()
        deep_targets = LIFE_KINDS if thorough else [LIFE_KINDS[(ctx["seed"] + i) % 5] for i in (0, 1, 3)]
        jobs = [([6], 600 if thorough else 120, LIFE_KINDS, life_ref)]
        # one process per deep target: whether a rebuilt tree lands on a recycled address depends on the state of the heap,
        # so each soak runs in an interpreter that does nothing else (and they run side by side)
        jobs += [([thr + 20], 450 if thorough else 90, [t], life_ref) for t in deep_targets]
        if thorough:
            # just below / at / just above the recursion threshold
            edge = [thr - 1, thr, thr + 1]
            edge_ref = reference([["life", k, d] for d in edge for k in LIFE_KINDS], own_process_each=True)
            jobs += [([d], 90, ["lin", "quad", "quart"], edge_ref) for d in edge]
        soak_in_subprocesses(rep, jobs)
    finally:
        clear_lru()
    return rep


def search(ctx, rep):
    rng = core.Rng(ctx["seed"] + 15485863)
    seeds = [rng.randint(10**6, 10**7) for _ in range(60)]
    ref = reference(seeds)
    try:
        clear_lru()
        churn(300, 1)
        for i, s in enumerate(seeds):
            for j in range(rng.randint(0, 4)):
                observe(build_model(rng.randint(10**6, 10**7)))
            got = observe(build_model(s))
            d = same(got, ref[s])
            if d:
                return {"what": "observation on M after a prefix of other models differs from a fresh process",
                        "recipe": s, "k": "search", "where": d, "prefix": seeds[:i]}
    finally:
        clear_lru()
    return None


def replay(payload) -> bool:
    f = payload["failure"]
    if "slack" in f:
        i, th = int(f["slack"][0]), bool(f["slack"][2])
        ref = reference([["slack", i, r, th] for r in ("N", "M")], own_process_each=True)
        rep = core.Report()
        clear_lru()
        try:
            slack_family(rep, None, ref, th, only=i)
        finally:
            clear_lru()
        print("failures:", rep.oracle_failures[:1])
        return not rep.oracle_failures
    if "small" in f:
        i = int(f["small"][0])
        ref = reference([["small", i, r] for r in ("N", "M")], own_process_each=True)
        rep = core.Report()
        clear_lru()
        try:
            small_family(rep, None, ref, True, only=i)
        finally:
            clear_lru()
        print("failures:", rep.oracle_failures[:1])
        return not rep.oracle_failures
    if "life" in f:
        kind, depth = f["life"]
        ref = reference([["life", kind, depth]], own_process_each=True)
        rep = core.Report()
        clear_lru()
        try:
            lifetime_soak(rep, None, ref, [depth], max(300, 3 * int(f.get("rounds", 100))), 20, targets=[kind])
        finally:
            clear_lru()
        print("failures:", rep.oracle_failures[:1])
        return not rep.oracle_failures
    s = int(f["recipe"])
    ref = reference([s], own_process_each=True)
    clear_lru()
    try:
        churn(5000, 0)
        for o in f.get("prefix", [])[-20:]:
            observe(build_model(int(o)))
        for j in range(5):
            observe(build_model(s + 500 + j))
        got = observe(build_model(s))
    finally:
        clear_lru()
    d = same(got, ref[s])
    print("difference at:", d)
    return d is None


if __name__ == "__main__" and "--ref" in sys.argv:
    _ref_main()
if __name__ == "__main__" and "--soak" in sys.argv:
    _soak_main()
