"""C19 — derivative callables stay finite at singular points: undefined entries come back as 0,
unbounded ones as ±1e16, identically on the general and the vectorised paths; regular entries unchanged.

Tie:    every derivative closure kind (compile_gradient / compile_jacobian / compile_hessian: all vectorised
        power / unary closures full and sparse, constant, scaled, general) × singular values (0, −0.0, negatives,
        ±1, origin) × position in the array: real output vs the model run over the special-value domain
        `SV Float` (class 0 / ±1e16 exactly, finite values numerically) and over plain doubles;
        `_sanitize_derivatives` itself on arrays of special values; the unsanitised entry expressions evaluated by
        optyx (`evaluate`) vs `⟦·⟧` over `SV Float` (class nan / ±inf / 0 / finite — ties the IEEE rule tables).
        Call sequences: ONE compiled callable of every closure kind driven through several requests (the same singular
        point two/three times with new arrays and with the very same array object, singular→regular→singular,
        regular→singular, the input array mutated in place between calls, +0.0 / −0.0 points that compare equal);
        the model's closures are stateless, so every answer must be what a fresh callable returns for that point.
        Declared bounds / domains (solver metadata, not part of the modelled syntax): every closure kind compiled for variables
        that declare a box (lb > 0, ub < 0, lb = 0, lb = ub, tight / crossed / infinite boxes, int- and NumPy-typed bounds,
        integer / binary domains, per-element mixes, container and element attributes disagreeing) evaluated at singular
        points inside, on and OUTSIDE the box (compile_gradient, compile_jacobian 1 and 2 rows, compile_hessian, the
        callables of Problem._solver_cache) and after the histories compile → edit the bounds on the same objects →
        evaluate the cached callable (incl. a real solve() in between): finite, = hand-written NumPy derivative sanitised,
        = a fresh model of the same shape that declares nothing, = the general path on the same declared variables.
Oracle: on the real output only: np.isfinite everywhere; an entry whose unsanitised value (gradient(e, v).evaluate
        at the point) is finite is returned unchanged, NaN → 0, ±Inf → ±1e16; the vectorised path equals the
        general path (the same node wrapped as `e + 0`).
"""
from __future__ import annotations

import math
import zlib

import numpy as np

import core
import gen
from ser import Ser, Unsupported
from props import c03 as J

LEAN_MODULE = "Optyx.Props.C19"
EXTRA_MODULES = ["Optyx.Props.PinsC19", "Optyx.Props.ClosurePathTie", "Optyx.Props.SymbolicJacTie", "Optyx.Props.ScaledTie"]   # transcription anchors (harness/source_pins.py)
THEOREMS = [
    "Optyx.Props.Closures.closureTables_agree",
    "Optyx.Props.Closures.sanitizeShape_agrees",
    "Optyx.Props.C19.sanitize_spec",
    "Optyx.Props.C19.sanitize_finite",
    "Optyx.Props.C19.derivative_outputs_finite",
    "Optyx.Props.C19.paths_agree_on_specials",
    "Optyx.Props.C19.regular_unchanged",
    "Optyx.Props.ClosurePathTie.powerGradient_path",
    "Optyx.Props.ClosurePathTie.unaryGradient_path",
    "Optyx.Props.ClosurePathTie.compileGradient_path",
    "Optyx.Props.ClosurePathTie.compileHessian_path",
    "Optyx.Props.ClosurePathTie.compileJacobian_path",
    "Optyx.Props.SymbolicJacTie.computeJacobian_eq",
    "Optyx.Props.SymbolicJacTie.computeHessian_eq",
    "Optyx.Props.ScaledTie.scaledEntry_eq",
    "Optyx.Props.ScaledTie.scaledLoop_step",
    "Optyx.Props.ScaledTie.scaledPattern_frame",
    "Optyx.Props.PinsC19.anchors",
]
ASSUMPTIONS = [
    "finite input points; overflow of a finite intermediate (exp(1000)) is not a singular point of the derivative and "
    "is outside the statement (the SV model over the reals has no overflow)",
    "the IEEE-754 / C99 special-value rules are modelled in Py/Sanitize.lean (SV) and tied to NumPy by this run",
    "the model's closures are stateless (run depends on the point and the parameter store only); history independence of "
    "the real callables is checked by call sequences, each answer compared with a fresh callable asked once",
    "sign of zero is not part of the statement (−0.0 == 0.0); NumPy computes x**0.5 as sqrt(x) (sign of zero only)",
]
LARGE = 1e16

run_lean_unit = J.run_lean_unit

SPECIALS = [0.0, -0.0, -1.0, 1.0, -2.0, 0.5, 2.0, -0.5]
NEAR = [1e-7, -1e-9, 1e-150, 700.0]
BASE = [0.75, 1.25, 1.75, 0.375, 2.25, 0.625, 1.5, 2.75]


def closure_cases(rng, full=False):
    """(tag, kind, expr, V) — kind ∈ grad | jac | hess; one per closure kind × V shape"""
    from optyx.core import vectors as Vc
    from optyx.core import matrices as Mx
    from optyx.core.functions import sin, log, sqrt, tan, asin, acos, acosh, atanh, abs_ as fabs, exp, tanh

    U = gen.Universe(rng)
    x, y, w, S = U.x, U.y, U.w, U.S
    a, b = U.scalars[0], U.scalars[1]
    out = []
    vecs = [("x", x, list(x)), ("x|sparse", x, [a] + list(x)), ("x|perm", x, [x[2], x[0], x[1]]),
            ("w[1:4]|inw", w[1:4], list(w)), ("x[::-1]|own", x[::-1], list(x[::-1])),
            ("x|span", x, [x[0], a, x[2], x[1]]), ("x|span2", x, [x[1], x[0], b, x[2]])]
    for vn, v, V in vecs:
        for k in (1, 2, 3, 0.5, -1, 2.5, 0, -2, 1.5, -0.5, 4):
            node = Vc.VectorPowerSum(v, k)
            for kind in ("grad", "jac", "hess"):
                out.append((f"ps{k}:{vn}", kind, node, V))
        for op in gen.VOPS:
            node = Vc.VectorUnarySum(v, op)
            for kind in ("grad", "jac", "hess"):
                out.append((f"us{op}:{vn}", kind, node, V))
    gens = [
        ("abs", fabs(a) + b), ("sqrt", sqrt(a) * b), ("log", log(a) + b * b), ("pow0.5", a ** 0.5 + b), ("pow-1", a ** -1.0 * b),
        ("pow1.5", a ** 1.5), ("pow-0.5", a ** -0.5), ("div", b / a), ("1/a", 1.0 / a), ("logmul", log(a) * b), ("tan", tan(a) + b),
        ("asin", asin(a) + b), ("acos", acos(a) * b), ("acosh", acosh(a) + b), ("atanh", atanh(a) + b), ("sqrtsq", sqrt(a * a + b * b)),
        ("abs*abs", fabs(a) * fabs(b)), ("powvar", a ** b), ("sin/a", sin(a) / a), ("explog", exp(log(a))), ("tanh", tanh(a) / b),
        ("l2", Vc.L2Norm(x)), ("l2ve", Vc.L2Norm(x - y)), ("l1", Vc.L1Norm(x)), ("l1ve", Vc.L1Norm(x * y)), ("fro", Mx.FrobeniusNorm(S)),
        ("dotxx", Vc.DotProduct(x, x)), ("2dotxx", 2.0 * Vc.DotProduct(x, x)), ("vs", x.sum()), ("lc", Vc.LinearCombination(np.array([1.0, -2.0, 0.5]), x)),
        ("qf", Mx.QuadraticForm(x, np.array([[1.0, 2.0, 0.0], [0.5, 1.0, -1.0], [0.0, 3.0, 2.0]]))),
        ("ps+c", Vc.VectorPowerSum(x, 0.5) + 1.0), ("2*us", 2.0 * Vc.VectorUnarySum(x, "sqrt")), ("us*2", Vc.VectorUnarySum(x, "log") * 2.0),
        ("usabs+0", Vc.VectorUnarySum(x, "abs") + 0.0), ("l2/l1", Vc.L2Norm(x) / Vc.L1Norm(x)),
    ]
    # huge-but-finite regular entries next to singular ones (coefficients ≫ 1e16, exp below overflow)
    gens += [
        ("huge:coef+sqrt", 1e18 * a + sqrt(b)), ("huge:coef*b+log", -3e20 * a * b + log(b)), ("huge:coef+abs", 2e17 * a * a + fabs(b)),
        ("huge:lc+log", Vc.LinearCombination(np.array([1e18, -3e20, 2.0]), x) + log(x[0])),
        ("huge:c*us", 2e20 * Vc.VectorUnarySum(x, "sqrt")), ("huge:us*c", Vc.VectorUnarySum(x, "log") * -5e17),
        ("huge:c*ps", 4e19 * Vc.VectorPowerSum(x, 0.5)), ("huge:exp+inv", exp(a * 7.0) + 1.0 / b), ("huge:a/b", a / b + sqrt(a)),
        ("huge:dot*c+l2", 1e19 * Vc.DotProduct(x, x) + Vc.L2Norm(x)),
    ]
    gens += [("tiny:coef*sqrt", 2.0 ** -40 * sqrt(a) + b), ("tiny:lc+log", Vc.LinearCombination(np.array([2.0 ** -930, 2.0 ** -30, 1.0]), x) + log(x[1])),
             ("tiny:c*us", 2.0 ** -60 * Vc.VectorUnarySum(x, "log"))]
    for tag, e in gens:
        V = sorted({v.name: v for v in gen.expr_vars(e)}.values(), key=lambda v: v.name)
        for kind in ("grad", "jac", "hess"):
            out.append((f"gen:{tag}", kind, e, V, None))
    out += reduction_compositions(rng, U, full)
    # dimension checklist 3 / 4 / 2: every operator form, compound constants, typed constants around the singular vector sums at the
    # ROOT (the compilers dispatch on the root node: a wrapper decides which closure — and which sanitising — is used)
    roots = [("ps0.5:x", Vc.VectorPowerSum(x, 0.5), list(x)), ("ps-1:x|sparse", Vc.VectorPowerSum(x, -1), [a] + list(x)),
             ("uslog:x", Vc.VectorUnarySum(x, "log"), list(x)), ("ussqrt:x|span", Vc.VectorUnarySum(x, "sqrt"), [x[0], a, x[2], x[1]]),
             ("usabs:x", Vc.VectorUnarySum(x, "abs"), list(x)), ("l2:x", Vc.L2Norm(x), list(x)), ("fro:S", Mx.FrobeniusNorm(S), None),
             ("lc+log", Vc.LinearCombination(np.array([1.0, -2.0, 0.5]), x) + log(x[0]), list(x))]
    wr = J.wrappers(U)[1:] + J.extended_wrappers(U)
    for ri, (rt, node, V) in enumerate(roots):
        if V is None:
            V = sorted({v.name: v for v in gen.expr_vars(node)}.values(), key=lambda v: v.name)
        for wi, (wn, wf) in enumerate(wr):
            if (ri + wi) % (2 if full else 6) != 0:
                continue
            e = J.grab(lambda: wf(node))
            if isinstance(e, str):
                continue
            VV = V if J.names_of([e]) <= {v.name for v in V} else V + [v for v in gen.expr_vars(e) if v.name not in {u.name for u in V}]
            pts = points_for(rng, len(VV), False)
            pts = pts if full else pts[(ri + wi) % 3::3]
            for kind in ("grad", "jac", "hess"):
                out.append((f"wrap:{rt}|{wn}", kind, e, VV, pts))
    # checklist 5: singular reductions over every operand kind (views of views, symmetric blocks with shared variables, 1×n, …)
    anodes, askip = J.audit_nodes(rng, U)
    for tag, node in anodes:
        if not tag.startswith(("l2:", "l1:", "fro:", "uslog:", "ps3:")) or (not full and zlib.crc32(tag.encode()) % 2):
            continue
        V = J.own_vars(node)
        if len(V) > 6:
            continue
        pts = points_for(rng, len(V), False)
        pts = pts if full else pts[zlib.crc32(tag.encode()) % 3::3]
        for kind in ("grad", "jac", "hess"):
            out.append((f"operand:{tag}", kind, node, list(V), pts))
    return [c if len(c) == 5 else c + (None,) for c in out]


INCLUDE_PARAMETER_SINGULARITIES = True   # reported as a finding (compiled derivatives of x / p raise at p = 0); enable when decided


def reduction_compositions(rng, U, full=False):
    """{singular elementary function / denominator / negative or fractional power} ∘ {vector / matrix reduction}
    (+ the same with scalar sub-expressions mixed in), evaluated at the zeros and the ±1 levels of the inner reduction —
    the points where the outer function is singular although no single coordinate is special"""
    from optyx.core import vectors as Vc
    from optyx.core import matrices as Mx
    from optyx.core.expressions import Constant
    from optyx.core.functions import log, sqrt, tan, asin, acosh, atanh, abs_ as fabs, log2, log10

    x, y, M, S = U.x, U.y, U.M, U.S
    a = U.scalars[0]
    Q = np.array([[1.0, 2.0, 0.0], [0.5, 1.0, -1.0], [0.0, 3.0, 2.0]])
    reds = [
        ("sum", x.sum()), ("lc", Vc.LinearCombination(np.array([1.0, -2.0, 1.0]), x)), ("lcve", Vc.LinearCombination(np.array([1.0, 1.0, -1.0]), x * 2.0)),
        ("dotxy", Vc.DotProduct(x, y)), ("dotxx", Vc.DotProduct(x, x)), ("dotve", Vc.DotProduct(x - y, x)),
        ("ps2", Vc.VectorPowerSum(x, 2)), ("ps3", Vc.VectorPowerSum(x, 3)), ("ps1", Vc.VectorPowerSum(x, 1)),
        ("ussin", Vc.VectorUnarySum(x, "sin")), ("ustanh", Vc.VectorUnarySum(x, "tanh")), ("usabs", Vc.VectorUnarySum(x, "abs")),
        ("qf", Mx.QuadraticForm(x, Q)), ("l2", Vc.L2Norm(x)), ("l1", Vc.L1Norm(x)), ("es", (x - y).sum()),
        ("msum", M.sum()), ("ssum", S.sum()), ("mse", (M * M).sum()), ("fro", Mx.FrobeniusNorm(M)),
        ("sum+a", x.sum() + a), ("dotxx*a", Vc.DotProduct(x, x) * a), ("sum*sum", x.sum() * y.sum()),
    ]
    outers = [
        ("log", lambda r: log(r)), ("log2", lambda r: log2(r)), ("sqrt", lambda r: sqrt(r)), ("1/r", lambda r: 1.0 / r),
        ("r**-1", lambda r: r ** -1.0), ("r**-0.5", lambda r: r ** -0.5), ("r**0.5", lambda r: r ** 0.5), ("r**1.5", lambda r: r ** 1.5),
        ("abs", lambda r: fabs(r)), ("c/r", lambda r: Constant(2.5) / r), ("a/r", lambda r: a / r), ("r/r", lambda r: r / r),
        ("acosh", lambda r: acosh(r)), ("asin", lambda r: asin(r)), ("atanh", lambda r: atanh(r)), ("tan", lambda r: tan(r)),
        ("log10*a", lambda r: log10(r) * a), ("1/sqrt", lambda r: 1.0 / sqrt(r)),
    ]
    out = []
    for ri, (rn, r) in enumerate(reds):
        for oi, (on, f) in enumerate(outers):
            if not full and (ri + oi) % 3 != 0:
                continue   # quick tier: a third of the product, every reduction × 6 outer functions, every outer × ~8 reductions
            e = f(r)
            V = sorted({v.name: v for v in gen.expr_vars(e)}.values(), key=lambda v: v.name)
            pts = level_points(rng, r, V)
            kinds = ("grad", "jac", "hess") if len(V) <= 4 else ("grad", "jac")
            for kind in kinds:
                out.append((f"red:{on}∘{rn}", kind, e, V, pts))
    if INCLUDE_PARAMETER_SINGULARITIES:
        p = U.params[0]
        for tag, e in (("x/p", x[0] / p), ("x*p**-1", x[0] * p ** -1.0), ("sum/p", x.sum() / p), ("log(p)*x", log(p) * x[0])):
            V = sorted({v.name: v for v in gen.expr_vars(e)}.values(), key=lambda v: v.name)
            for kind in ("grad", "jac", "hess"):
                out.append((f"par0:{tag}", kind, e, V, [[0.75] * len(V), [0.0] * len(V)]))
    return out


def level_points(rng, r, V):
    """candidate points at which the inner reduction takes one of the values 0, +1, −1 (zeros and unit levels),
    plus two generic points"""
    n = len(V)
    names = [v.name for v in V]
    cands = [[0.0] * n]
    for j in range(min(n, 3)):
        for val in (1.0, -1.0, 0.5):
            c = [0.0] * n; c[j] = val; cands.append(c)
    pats = [[1.0, -2.0, 1.0], [1.0, 1.0, -2.0], [1.0, -1.0, 0.0], [0.5, 0.5, 0.0], [2.0, -1.0, -1.0], [0.5, -0.5, 1.0], [1.0, 0.0, -1.0]]
    for pat in pats:
        cands.append([(pat[i % 3] if i < 3 or n <= 4 else 0.0) for i in range(n)])
        cands.append([(pat[i % 3] if i % 2 == 0 else 0.0) for i in range(n)])
    keep = []
    for c in cands:
        val = J.grab(lambda: float(np.asarray(r.evaluate(dict(zip(names, c))))))
        if isinstance(val, str):
            continue
        if val in (0.0, 1.0, -1.0) and c not in keep:
            keep.append(c)
    keep = keep[:7]
    keep.append([BASE[i % len(BASE)] for i in range(n)])
    keep.append([rng.choice(SPECIALS + BASE) for _ in range(n)])
    return keep


def points_for(rng, n, thorough):
    pts = []
    for p in range(n):
        for s in SPECIALS:
            x = [BASE[(i + p) % len(BASE)] for i in range(n)]
            x[p] = s
            pts.append(x)
    pts.append([0.0] * n)
    pts.append([-0.0] * n)
    pts.append([-1.0] * n)
    pts.append([1.0] * n)
    # one coordinate ON the singular set and a neighbour NEAR it / huge: the array then holds a non-finite raw entry
    # (so the sanitiser's slow path runs) next to finite entries of magnitude ≫ 1e16 that must come back unchanged
    if n >= 2:
        for p in range(n):
            for near in NEAR:
                x = [BASE[(i + p) % len(BASE)] for i in range(n)]
                x[p] = 0.0 if near != NEAR[1] else -1.0
                x[(p + 1) % n] = near
                if n >= 3 and near == NEAR[0]:
                    x[(p + 2) % n] = NEAR[2]
                pts.append(x)
    for _ in range(8 if thorough else 2):
        pts.append([rng.choice(SPECIALS + BASE) for _ in range(n)])
    return pts


def sequences_for(rng, n, thorough, own_pts=None, n_params=0):
    """call sequences over the singular / regular points of an n-variable closure"""
    pts = own_pts if own_pts is not None else points_for(rng, n, False)
    sing = pts[:-2] if len(pts) > 2 else pts
    reg = [BASE[(i + 3) % len(BASE)] for i in range(n)]
    zero, negzero = [0.0] * n, [-0.0] * n
    out = []
    picks = [sing[rng.randrange(len(sing))] for _ in range(3 if thorough else 2)]
    for k, p in enumerate(picks):
        other = sing[rng.randrange(len(sing))]
        q = reg if k % 2 == 0 else other
        twins = (zero, negzero) if k == 0 else None
        if k == 1:
            # the same coordinates, one of them with the other sign of zero
            j = rng.randrange(n)
            a = list(p); b = list(p)
            a[j], b[j] = 0.0, -0.0
            twins = (a, b)
        for name, steps in J.standard_sequences(rng, p, q, twins):
            out.append((f"{name}#{k}", steps))
    if n_params:
        p = picks[0]
        out.append(("parameter-to-zero", [("new", p), ("set", 0, 0.0), ("new", p), ("again",), ("set", 0, 1.0), ("new", p), ("set", 0, -1.5),
                                          ("same", p), ("set", 0, 0.0), ("again",), ("new", reg)]))
    return out


def compile_kind(kind, e, V):
    import optyx.core.autodiff as AD
    import optyx.core.compiler as CC

    if kind == "grad":
        return CC.compile_gradient(e, V)
    if kind == "jac":
        return AD.compile_jacobian([e], V)
    return AD.compile_hessian(e, V)


def flat(arr):
    return [float(v) for v in np.asarray(arr, dtype=float).ravel()]


def same_class(real: float, model: float, atol: float = 0.0) -> bool:
    """class 0 / ±1e16 compared exactly, anything else numerically (rtol 1e-9; `atol` is the conditioning guard of the
    array the entry lives in: an entry that is the difference of O(scale) terms carries O(1e-16·scale) rounding noise)"""
    if math.isnan(real) or math.isnan(model) or math.isinf(real) or math.isinf(model):
        return (math.isnan(real) and math.isnan(model)) or real == model
    if abs(real) == LARGE or abs(model) == LARGE:
        return real == model
    if real == 0.0 or model == 0.0:
        return real == model or abs(real - model) <= atol
    return J.close(real, model, rtol=1e-9, atol=atol)


def cancel_tol(*arrays) -> float:
    """absolute tolerance for one array: 1e-12 × the magnitude of its ordinary entries (capped at 1e9, so never more
    than 1e-3; rounding noise of an entry computed by cancellation is proportional to the largest terms; huge entries are
    compared relatively)"""
    scale = 1.0
    for arr in arrays:
        for v in arr:
            if math.isfinite(v) and abs(v) < 1e9 and abs(v) != LARGE:
                scale = max(scale, abs(v))
    return 1e-12 * scale


def expected_from_raw(raw: float) -> float:
    if math.isnan(raw):
        return 0.0
    if math.isinf(raw):
        return LARGE if raw > 0 else -LARGE
    return raw


def raw_entries(kind, e, V, xs):
    """the unsanitised entries as optyx's own symbolic derivative evaluates them (NumPy semantics)"""
    import optyx.core.autodiff as AD

    point = {v.name: float(a) for v, a in zip(V, xs)}

    def ev(g):
        return float(np.asarray(J.quiet(lambda: g.evaluate(point))))

    if kind in ("grad", "jac"):
        return [ev(AD.gradient(e, v)) for v in V]
    n = len(V)
    out = []
    for i in range(n):
        gi = AD.gradient(e, V[i])
        for j in range(n):
            # the compiled Hessian evaluates the upper-triangle expression for both (i, j) and (j, i)
            a, bb = (i, j) if i <= j else (j, i)
            out.append(ev(AD.gradient(AD.gradient(e, V[a]), V[bb])) if (a, bb) != (i, j) else ev(AD.gradient(gi, V[j])))
    return out


def check_real(kind, e, V, xs):
    """property oracle on the real code at one (possibly singular) finite point"""
    x = np.array(xs, dtype=float)
    fn = J.grab(lambda: compile_kind(kind, e, V))
    if isinstance(fn, str):
        return [{"what": f"compile_{kind} raised {fn[6:]}"}]
    got = J.grab(lambda: flat(fn(x)))
    if isinstance(got, str):
        return [{"what": f"compiled {kind} raised {got[6:]} at a finite point", "path": fn.__name__}]
    fails = []
    if not all(math.isfinite(v) for v in got):
        fails.append({"what": f"compiled {kind} returned a non-finite entry at a finite point", "path": fn.__name__, "got": got})
    raw = J.grab(lambda: raw_entries(kind, e, V, xs))
    if not isinstance(raw, str) and len(raw) == len(got):
        tol = cancel_tol(got)
        for idx, (r, g) in enumerate(zip(raw, got)):
            want = expected_from_raw(r)
            if not same_class(g, want, tol):
                fails.append({"what": "entry is not the sanitised value of the unsanitised derivative "
                                      "(finite → unchanged, NaN → 0, ±Inf → ±1e16)", "path": fn.__name__,
                              "entry": idx, "unsanitised": r, "got": g, "want": want})
                break
    gfn = J.grab(lambda: compile_kind(kind, e + 0.0, V))
    if not isinstance(gfn, str):
        gg = J.grab(lambda: flat(gfn(x)))
        if not isinstance(gg, str) and len(gg) == len(got):
            tol = cancel_tol(got, gg)
            for idx, (a, b2) in enumerate(zip(got, gg)):
                if not same_class(a, b2, tol):
                    fails.append({"what": "specialised path and general path (e + 0) disagree", "path": fn.__name__,
                                  "general_path": gfn.__name__, "entry": idx, "got": a, "general": b2})
                    break
    return fails


# ----------------------------------------------------------------------------- declared bounds / domains × singular points outside the box
# (checklist 21 / 10 / 12 / 14).  The bounds and the domain a variable declares are solver metadata: the solver re-reads them on
# every solve, several SciPy methods ignore or overstep them, and they can be edited after a callable was compiled.  The property
# quantifies over EVERY finite x, so a derivative callable compiled for variables with lb > 0 (ub < 0, a tight box, lb = ub, an
# integer / binary domain, …) answers at 0, at negative entries, at ±1, at the origin exactly what a fresh model without any
# declaration answers.  Family = every closure kind × every way of declaring a box × singular points inside, on and outside it.

INF = float("inf")
CONT, INTG, BINR = "continuous", "integer", "binary"
DECL_KINDS = ("grad", "jac", "hess", "jac2")


def _enc(v):
    """bound value → JSON token (replay payloads keep the numeric TYPE of the declared bound)"""
    if v is None or type(v) is float:
        return v
    if type(v) is int:
        return {"int": v}
    if isinstance(v, np.generic):
        return {"np": type(v).__name__, "v": float(v)}
    raise TypeError(type(v))


def _dec(t):
    if isinstance(t, dict):
        return int(t["int"]) if "int" in t else getattr(np, t["np"])(t["v"])
    return t


def spec_json(spec):
    return {"name": spec["name"], "how": spec["how"], "b": [[_enc(lb), _enc(ub), dom] for lb, ub, dom in spec["b"]]}


def spec_from_json(d):
    return {"name": d["name"], "how": d["how"], "b": [[_dec(lb), _dec(ub), dom] for lb, ub, dom in d["b"]]}


def _u(name, lb=None, ub=None, dom=CONT, how="ctor"):
    return {"name": name, "how": how, "b": [[lb, ub, dom]]}


NO_DECLARATION = _u("none")


def bound_specs(rng):
    """ways of declaring a box / a domain, grouped in contiguous CLASSES of ≥ 3 members by where the box lies relative to the
    singular sets {0}, {±1}, origin (the quick tier takes every third spec per shape, so every class meets every shape).
    how: ctor = constructor keywords (container and elements agree) | elem = attributes of the element variables assigned after
    construction, cycling through `b` (container attributes stay None) | container = only the container's attributes |
    ctor+elem = constructor keywords b[0], then the elements cycling through `b` (container and elements disagree)"""
    pos = [  # box strictly to the right of 0: excludes the pole of log / sqrt / 1/x / negative and fractional powers, the kink of
             # abs, the origin of the norms
        _u("lb=0.25", 0.25), _u("lb=0.5,ub=4", 0.5, 4.0), _u("lb=1e-9", 1e-9), _u("lb=1e-300", 1e-300), _u("lb=int(1)", 1),
        _u("lb=np.float64(0.5)", np.float64(0.5)), _u("lb=np.int32(2)", np.int32(2), np.int32(7)), _u("lb=1e8", 1e8),
        _u("lb=0.5,ub=inf", 0.5, INF), _u("[0.25,0.75]", 0.25, 0.75), _u("[1.5,3]", 1.5, 3.0), _u("[1+1e-9,2]", 1.0 + 1e-9, 2.0),
        _u("lb=ub=0.5", 0.5, 0.5), _u("lb=ub=2", 2.0, 2.0), _u("lb=ub=1", 1.0, 1.0), _u("integer[1,5]", 1, 5, INTG),
        _u("integer[0.5,2.5]", 0.5, 2.5, INTG), _u("elem:lb=0.5", 0.5, how="elem"),
        {"name": "elem:all>0,each-different", "how": "elem", "b": [[0.5, None, CONT], [0.25, 4.0, CONT], [1.0, 1.0, CONT], [2, None, INTG]]},
        {"name": "ctor lb=0.5 + elem:all>0", "how": "ctor+elem", "b": [[0.5, None, CONT], [3.0, 9.0, CONT]]},
    ]
    neg = [  # box strictly to the left of 0
        _u("ub=-0.5", None, -0.5), _u("[-3,-0.5]", -3.0, -0.5), _u("[-0.75,-0.25]", -0.75, -0.25), _u("lb=ub=-1", -1.0, -1.0),
        _u("ub=-1e-9", None, -1e-9), _u("[-inf,-0.5]", -INF, -0.5), _u("integer[-3,-1]", -3, -1, INTG), _u("elem:ub=-0.5", None, -0.5, how="elem"),
        _u("ub=int(-2)", None, -2),
    ]
    edge = [  # 0 on the boundary of the box
        _u("lb=0", 0.0), _u("lb=-0.0", -0.0), _u("lb=int(0)", 0), _u("[0,1]", 0.0, 1.0), _u("binary", 0.0, 1.0, BINR), _u("ub=0", None, 0.0),
        _u("lb=ub=0", 0.0, 0.0), _u("integer lb=0", 0, None, INTG), _u("elem:binary", 0.0, 1.0, BINR, how="elem"),
    ]
    inner = [  # 0 inside / nothing declared / only ±1 excluded / empty box
        _u("none"), _u("[-inf,inf]", -INF, INF), _u("lb=-1", -1.0), _u("[-2,2]", -2.0, 2.0), _u("[-0.5,0.5]", -0.5, 0.5), _u("integer", None, None, INTG),
        _u("integer[-0.5,0.5]", -0.5, 0.5, INTG), _u("crossed[3,1]", 3.0, 1.0), _u("crossed[0.5,-0.5]", 0.5, -0.5),
    ]
    pool = [s["b"][0] for s in pos[:17] + neg[:7] + edge[:8] + inner]
    mixed = [  # the elements of one vector declare different boxes (some exclude the singular set, some do not)
        {"name": "elem:[>0,none]", "how": "elem", "b": [[0.5, None, CONT], [None, None, CONT]]},
        {"name": "elem:[none,>0]", "how": "elem", "b": [[None, None, CONT], [0.5, None, CONT]]},
        {"name": "elem:[>0,>0,none]", "how": "elem", "b": [[0.5, None, CONT], [0.25, 4.0, CONT], [None, None, CONT]]},
        {"name": "elem:[>0,lb=0]", "how": "elem", "b": [[0.5, None, CONT], [0.0, None, CONT]]},
        {"name": "elem:[>0,<0]", "how": "elem", "b": [[0.5, None, CONT], [None, -0.5, CONT]]},
        {"name": "elem:[<0,none,<0]", "how": "elem", "b": [[None, -0.5, CONT], [None, None, CONT], [-3.0, -1.0, CONT]]},
    ]
    for k in range(3):
        mixed.append({"name": f"elem:random#{k}", "how": "elem", "b": [list(rng.choice(pool)) for _ in range(rng.randint(2, 4))]})
    split = [  # container attributes and element attributes disagree
        {"name": "container-only:lb=0.5", "how": "container", "b": [[0.5, None, CONT]]},
        {"name": "container-only:ub=-0.5", "how": "container", "b": [[None, -0.5, CONT]]},
        {"name": "container-only:[0.25,0.75]", "how": "container", "b": [[0.25, 0.75, CONT]]},
        {"name": "ctor lb=0.5, elements [0.5,none,none]", "how": "ctor+elem", "b": [[0.5, None, CONT], [None, None, CONT], [None, None, CONT]]},
        {"name": "ctor lb=0.5, elements [0.5,lb=0]", "how": "ctor+elem", "b": [[0.5, None, CONT], [0.0, None, CONT]]},
        {"name": "ctor none, elements [none,>0,>0]", "how": "ctor+elem", "b": [[None, None, CONT], [0.5, None, CONT], [0.25, 4.0, CONT]]},
    ]
    return pos + neg + edge + inner + mixed + split


class Declared:
    """fresh modelling objects whose variables carry the box / domain of `spec` (names are the same for every spec:
    models that differ only in their declarations live side by side in one process)"""

    def __init__(self, spec):
        self.spec = spec
        self.objs = []

    def _kw(self):
        if self.spec["how"] in ("ctor", "ctor+elem"):
            lb, ub, dom = self.spec["b"][0]
            return {"lb": lb, "ub": ub, "domain": dom}
        return {}

    @staticmethod
    def _assign(spec, container, elems, editing):
        how, b = spec["how"], spec["b"]
        if how in ("elem", "ctor+elem") or (how == "ctor" and editing):
            for i, v in enumerate(elems):
                v.lb, v.ub, v.domain = b[i % len(b)]
        if container is not None and (how == "container" or (editing and how in ("ctor", "ctor+elem"))):
            container.lb, container.ub, container.domain = b[0]

    def _reg(self, container, elems):
        self.objs.append((container, elems))
        self._assign(self.spec, container, elems, False)

    def var(self, name):
        from optyx import Variable

        v = Variable(name, **self._kw())
        self._reg(None, [v])
        return v

    def vec(self, name, n):
        from optyx import VectorVariable

        x = VectorVariable(name, n, **self._kw())
        self._reg(x, list(x))
        return x

    def mat(self, name, r, c, symmetric=False):
        from optyx import MatrixVariable

        m = MatrixVariable(name, r, c, symmetric=symmetric, **self._kw())
        self._reg(m, list(m.get_variables()))
        return m

    def edit(self, spec2):
        """history: declare another box on the SAME objects (plain attribute assignment, as a user relaxing / tightening
        bounds between solves does)"""
        for container, elems in self.objs:
            self._assign(spec2, container, elems, True)


def bound_shapes():
    """(name, build): build(mk) → (expr, V, raw) on fresh objects made by `mk`; raw(x) is the hand-written NumPy formula of the
    UNSANITISED gradient in V order (None where none is given)"""
    from optyx.core import vectors as Vc
    from optyx.core import matrices as Mx
    from optyx.core.functions import sin, log, sqrt, tan, asin, acos, acosh, atanh, abs_ as fabs, exp

    out = []
    LAY = {"full": lambda x, a: list(x), "sparse": lambda x, a: [a] + list(x), "perm": lambda x, a: [x[2], x[0], x[1]],
           "span": lambda x, a: [x[0], a, x[2], x[1]]}

    def scatter(V, elems, dfn):
        if dfn is None:
            return None
        pos = [next(i for i, u in enumerate(V) if u is v) for v in elems]

        def raw(xa):
            r = np.zeros(len(V))
            r[pos] = dfn(xa[pos])
            return r
        return raw

    def vec(tag, node_of, dfn, lays):
        for lay in lays:
            if lay == "view":
                def build(mk):
                    w = mk.vec("w", 5)
                    v = w[1:4]
                    return node_of(v), list(w), scatter(list(w), list(v), dfn)
            elif lay == "rev":
                def build(mk):
                    x = mk.vec("x", 3)
                    v = x[::-1]
                    return node_of(v), list(x), scatter(list(x), list(v), dfn)
            else:
                def build(mk, lay=lay):
                    x, a = mk.vec("x", 3), mk.var("a")
                    V = LAY[lay](x, a)
                    return node_of(x), V, scatter(V, list(x), dfn)
            out.append((f"{tag}|{lay}", build))

    DU = {"log": lambda v: 1.0 / v, "sqrt": lambda v: 0.5 / np.sqrt(v), "abs": np.sign, "tan": lambda v: 1.0 / np.cos(v) ** 2,
          "sin": np.cos, "cos": lambda v: -np.sin(v), "exp": np.exp, "sinh": np.cosh, "cosh": np.sinh, "tanh": lambda v: 1.0 / np.cosh(v) ** 2}
    for op in gen.VOPS:
        lays = ("full", "sparse", "perm", "span", "view", "rev") if op in ("log", "sqrt", "abs") else (("full", "sparse") if op == "tan" else ("full",))
        vec(f"us{op}", lambda v, op=op: Vc.VectorUnarySum(v, op), DU[op], lays)
    for k in (0.5, -1, -2, 1.5, -0.5, 2.5, 3, 0, 1, 2):
        lays = ("full", "sparse", "span", "view") if k in (0.5, -1) else (("full", "sparse") if k in (-2, 1.5, -0.5, 2.5) else ("full",))
        vec(f"ps{k}", lambda v, k=k: Vc.VectorPowerSum(v, k), (lambda v, k=k: k * np.power(v, k - 1.0)) if k not in (0, 1) else None, lays)
    # the same sums written through the public API
    vec("api:log(x).sum()", lambda v: log(v).sum(), DU["log"], ("full", "sparse"))
    vec("api:sqrt(x).sum()", lambda v: sqrt(v).sum(), DU["sqrt"], ("full", "sparse"))
    vec("api:abs(x).sum()", lambda v: fabs(v).sum(), DU["abs"], ("full",))
    vec("api:(x**-1).sum()", lambda v: (v ** -1).sum(), lambda v: -1.0 / v ** 2, ("full", "sparse"))
    vec("api:(x**0.5).sum()", lambda v: (v ** 0.5).sum(), DU["sqrt"], ("full",))
    # norms (singular at the origin / on the coordinate planes)
    vec("l2", lambda v: Vc.L2Norm(v), lambda v: v / np.sqrt(np.sum(v * v)), ("full", "sparse", "view"))
    vec("l1", lambda v: Vc.L1Norm(v), np.sign, ("full", "sparse"))

    def l2ve(mk):
        x, y = mk.vec("x", 3), mk.vec("y", 3)
        return Vc.L2Norm(x - y), list(x) + list(y), None
    out.append(("l2(x-y)", l2ve))
    for sym in (True, False):
        def fro(mk, sym=sym):
            S = mk.mat("S", 2, 2, symmetric=sym)
            return Mx.FrobeniusNorm(S), list(S.get_variables()), None
        out.append((f"fro:{'S' if sym else 'M'}", fro))
    # wrappers around the vector nodes at the root (the compilers dispatch on the root: another closure, another sanitiser)
    WR = [("-uslog", lambda x, a: -Vc.VectorUnarySum(x, "log")), ("2*ussqrt", lambda x, a: 2.0 * Vc.VectorUnarySum(x, "sqrt")),
          ("uslog-1", lambda x, a: Vc.VectorUnarySum(x, "log") - 1.0), ("ps0.5+1", lambda x, a: Vc.VectorPowerSum(x, 0.5) + 1.0),
          ("usabs*2", lambda x, a: Vc.VectorUnarySum(x, "abs") * 2.0), ("ps-1+a", lambda x, a: Vc.VectorPowerSum(x, -1) + a),
          ("uslog+ussqrt", lambda x, a: Vc.VectorUnarySum(x, "log") + Vc.VectorUnarySum(x, "sqrt")),
          ("l2/l1", lambda x, a: Vc.L2Norm(x) / Vc.L1Norm(x)), ("log(sum)", lambda x, a: log(x.sum())), ("1/sum", lambda x, a: 1.0 / x.sum()),
          ("sqrt(dotxx)", lambda x, a: sqrt(Vc.DotProduct(x, x))), ("lc+log(x0)", lambda x, a: Vc.LinearCombination(np.array([1.0, -2.0, 0.5]), x) + log(x[0])),
          ("a*uslog", lambda x, a: a * Vc.VectorUnarySum(x, "log"))]
    for tag, f in WR:
        def build(mk, f=f):
            x, a = mk.vec("x", 3), mk.var("a")
            e = f(x, a)
            return e, ([a] + list(x) if any(u is a for u in gen.expr_vars(e)) else list(x)), None
        out.append((f"wrap:{tag}", build))
    # general (element-by-element) path over scalar variables
    GEN = [("log(a)+b*b", lambda a, b: log(a) + b * b, lambda v: np.array([1.0 / v[0], 2.0 * v[1]])),
           ("sqrt(a)+sin(b)", lambda a, b: sqrt(a) + sin(b), lambda v: np.array([0.5 / np.sqrt(v[0]), np.cos(v[1])])),
           ("1/a+exp(b)", lambda a, b: 1.0 / a + exp(b), lambda v: np.array([-1.0 / v[0] ** 2, np.exp(v[1])])),
           ("abs(a)+abs(b)", lambda a, b: fabs(a) + fabs(b), lambda v: np.sign(v)),
           ("sqrt(a)*b", lambda a, b: sqrt(a) * b, None), ("a**-1*b", lambda a, b: a ** -1.0 * b, None), ("a**0.5+b", lambda a, b: a ** 0.5 + b, None),
           ("a**1.5", lambda a, b: a ** 1.5 + 0.0 * b, None), ("b/a", lambda a, b: b / a, None), ("a**b", lambda a, b: a ** b, None),
           ("log(a)*log(b)", lambda a, b: log(a) * log(b), None), ("asin(a)+b", lambda a, b: asin(a) + b, None),
           ("acos(a)*b", lambda a, b: acos(a) * b, None), ("acosh(a)+b", lambda a, b: acosh(a) + b, None), ("atanh(a)+b", lambda a, b: atanh(a) + b, None),
           ("tan(a)+b", lambda a, b: tan(a) + b, None), ("sqrt(a*a+b*b)", lambda a, b: sqrt(a * a + b * b), None)]
    for tag, f, dfn in GEN:
        def build(mk, f=f, dfn=dfn):
            a, b = mk.var("a"), mk.var("b")
            return f(a, b), [a, b], dfn
        out.append((f"gen:{tag}", build))
    return out


def compile_declared(kind, e, V):
    if kind == "jac2":
        import optyx.core.autodiff as AD

        return AD.compile_jacobian([e, e], V)
    return compile_kind(kind, e, V)


def bound_points(rng, n, specs=(), thorough=True):
    """singular points irrespective of any declared box (origin, a 0 / −2 / +1 / −1 at every position, a near-singular
    neighbour), the declared bound values themselves as coordinates, regular points.  Bound values above 100 are not used as
    coordinates (cosh(1e8) overflows: outside the statement, see ASSUMPTIONS)"""
    pts = [[0.0] * n, [-0.0] * n, [-1.0] * n, [1.0] * n]
    for p in range(n):
        for s in ((0.0, -2.0, 1.0, -1.0) if thorough else (0.0, -2.0, 1.0)):
            x = [BASE[(i + p) % len(BASE)] for i in range(n)]
            x[p] = s
            pts.append(x)
        if thorough or p == n - 1:
            x = [BASE[(i + p + 2) % len(BASE)] for i in range(n)]
            x[p] = 0.0
            x[(p + 1) % n] = NEAR[p % 2]
            pts.append(x)
    vals = []
    for spec in specs:
        for lb, ub, _ in spec["b"]:
            for v in (lb, ub):
                if v is not None and math.isfinite(float(v)) and abs(float(v)) <= 100.0 and float(v) not in vals:
                    vals.append(float(v))
    for v in vals[:(4 if thorough else 2)]:
        pts.append([v] * n)                                             # every coordinate ON the bound
        x = [0.0] * n
        x[rng.randrange(n)] = v
        pts.append(x)                                                   # one coordinate on the bound, the others at 0
    pts.append([BASE[(i + 3) % len(BASE)] for i in range(n)])
    pts.append([rng.choice(SPECIALS + BASE) for _ in range(n)])
    return pts


def _declared_fail(what, shape, spec, kind, channel, xs, **more):
    d = {"what": what, "kind": "declared-bounds", "shape": shape, "spec": spec_json(spec), "deriv": kind, "channel": channel,
         "x": [float(a) for a in xs]}
    d.update(more)
    return d


def _compare_declared(got, ref, gen_out, raw, xs, mk_fail, names,
                      other_what="specialised path and general path (e + 0) disagree on the same bounded variables"):
    """the oracle at one point; got / ref / gen_out are flat lists or 'raise:…'"""
    fn_name, ref_name = names
    if isinstance(got, str):
        return mk_fail(f"derivative callable compiled for variables with declared bounds raised {got[6:]} at a finite point", path=fn_name)
    if not all(math.isfinite(v) for v in got):
        return mk_fail("derivative callable compiled for variables with declared bounds returned a non-finite entry at a finite point",
                       path=fn_name, got=got)
    if raw is not None and not any(a == 0.0 and math.copysign(1.0, a) < 0 for a in xs):
        want = [expected_from_raw(float(r)) for r in J.quiet(lambda: raw(np.array(xs, dtype=float)))]
        rows = len(got) // len(want) if want and len(got) % len(want) == 0 else 0
        want = want * rows
        tol = cancel_tol(got, want)
        if len(want) != len(got) or not all(same_class(a, b, tol) for a, b in zip(got, want)):
            return mk_fail("entry is not the sanitised value of the hand-written NumPy derivative (finite → unchanged, NaN → 0, ±Inf → ±1e16)",
                           path=fn_name, got=got, want=want)
    if not isinstance(ref, str):
        tol = cancel_tol(got, ref)
        if len(ref) != len(got) or not all(same_class(a, b, tol) for a, b in zip(got, ref)):
            return mk_fail("the answer depends on the declared bounds / domain: it differs from a fresh model of the same expression "
                           "whose variables declare nothing", path=fn_name, fresh_path=ref_name, got=got, want=ref)
    if gen_out is not None and not isinstance(gen_out, str):
        if not all(math.isfinite(v) for v in gen_out) and other_what.startswith("specialised"):
            return mk_fail("the general path (e + 0) compiled for the same declared variables returned a non-finite entry at a finite point",
                           path=fn_name, got=gen_out)
        tol = cancel_tol(got, gen_out)
        if len(gen_out) != len(got) or not all(same_class(a, b, tol) for a, b in zip(got, gen_out)):
            return mk_fail(other_what, path=fn_name, got=got, other=gen_out)
    return None


def _call(fn, xs):
    return J.grab(lambda: flat(fn(np.array(xs, dtype=float))))


def check_declared(shape, build, spec, kind, pts, bounded_first=True, nontrivial=None):
    """one (expression shape, declaration, closure kind): the callable compiled for the declared variables at every point
    (inside, on, outside the box) is finite, equals the hand-written sanitised derivative, equals a fresh undeclared model of
    the same shape (same names, built before or after), equals the general path on the same declared variables"""
    if bounded_first:
        eB, VB, raw = build(Declared(spec))
        eU, VU, _ = build(Declared(NO_DECLARATION))
    else:
        eU, VU, _ = build(Declared(NO_DECLARATION))
        eB, VB, raw = build(Declared(spec))
    fnB = J.grab(lambda: compile_declared(kind, eB, VB))
    fnU = J.grab(lambda: compile_declared(kind, eU, VU))
    if isinstance(fnB, str) or isinstance(fnU, str):
        if str(fnB) != str(fnU) and isinstance(fnB, str):
            return [_declared_fail(f"compile_{kind} raised {fnB[6:]} for declared variables only", shape, spec, kind, "compile", pts[0])], 0
        return [], 0
    gB = J.grab(lambda: compile_declared(kind, eB + 0.0, VB))
    fails, n = [], 0
    for xs in pts:
        n += 1
        got, ref = _call(fnB, xs), _call(fnU, xs)
        gen_out = None if isinstance(gB, str) else _call(gB, xs)
        if nontrivial is not None and not isinstance(got, str) and any(abs(v) == LARGE for v in got):
            nontrivial.add(("declared", shape, spec["name"], kind, tuple(J.num_tok(a) for a in xs)))
        f = _compare_declared(got, ref, gen_out, raw if kind in ("grad", "jac", "jac2") else None, xs,
                              lambda what, **m: _declared_fail(what, shape, spec, kind, "compile", xs, bounded_first=bounded_first, **m),
                              (fnB.__name__, fnU.__name__))
        if f:
            fails.append(f)
            break
    return fails, n


def _problem_callables(e, sense, solve, constrained=None):
    """the derivative callables a Problem hands to SciPy: objective gradient + constraint Jacobians, from
    `_build_solver_cache` directly or from `problem._solver_cache` after a real solve()"""
    from optyx import Problem
    from optyx.solvers.scipy_solver import _build_solver_cache

    prob = Problem()
    prob = prob.minimize(e) if sense == "minimize" else prob.maximize(e)
    if (not solve) if constrained is None else constrained:   # the real solve stays bound-constrained only (L-BFGS-B: milliseconds; trust-constr takes ~0.5 s per model)
        prob = prob.subject_to(e <= 1000.0).subject_to(e >= 0)
    V = J.grab(lambda: list(prob.variables))
    if isinstance(V, str):
        return None
    if solve:
        J.grab(lambda: prob.solve())
        cache = prob._solver_cache
    else:
        cache = J.grab(lambda: _build_solver_cache(prob, V))
    if cache is None or isinstance(cache, str):
        return None
    fns = [("objective grad_fn", cache["grad_fn"])]
    for i, d in enumerate(cache["scipy_constraints"]):
        fns.append((f"constraint[{i}] jac", d["jac"]))
    return prob, V, fns


def check_declared_history(shape, build, spec, spec2, kind, channel, pts, nontrivial=None):
    """history: compile (compile_* / the solver cache / a real solve) while the variables declare `spec`, call once, declare
    `spec2` on the same objects, then evaluate the CACHED callables at points that the new box may contain: finite, equal to a
    fresh undeclared model, equal to the hand-written derivative, and equal to a callable compiled after the edit"""
    mk = Declared(spec)
    eB, VB, raw = build(mk)
    eU, VU, _ = build(Declared(NO_DECLARATION))
    reg = [BASE[(i + 3) % len(BASE)] for i in range(len(VB))]
    if channel == "compile":
        fnB, fnU = J.grab(lambda: compile_declared(kind, eB, VB)), J.grab(lambda: compile_declared(kind, eU, VU))
        if isinstance(fnB, str) or isinstance(fnU, str):
            return [], 0
        pairs = [(kind, fnB, fnU, raw if kind != "hess" else None)]
        order, perm = reg, None
    else:
        sense = "minimize" if kind != "hess" else "maximize"
        pb = _problem_callables(eB, sense, channel == "solve")
        pu = _problem_callables(eU, sense, False, constrained=channel != "solve")
        if pb is None or pu is None or len(pb[2]) != len(pu[2]) or [v.name for v in pb[1]] != [v.name for v in pu[1]]:
            return [], 0
        pairs = [(nm, fb, fu, None) for (nm, fb), (_, fu) in zip(pb[2], pu[2])]
        order = [BASE[(i + 3) % len(BASE)] for i in range(len(pb[1]))]
        # points are generated in V order of the shape; the problem sorts its variables: permute by name
        name_pos = {v.name: i for i, v in enumerate(VB)}
        perm = [name_pos[v.name] for v in pb[1]] if {v.name for v in pb[1]} <= set(name_pos) else None   # sparse layouts: a subset
        if perm is None:
            return [], 0
    for _, fb, _, _ in pairs:
        _call(fb, order)                       # one request before the edit
    mk.edit(spec2)
    fails, n = [], 0
    for nm, fb, fu, rw in pairs:
        fresh = J.grab(lambda: compile_declared(kind, eB, VB)) if channel == "compile" else None
        for xs in pts:
            n += 1
            xc = xs if perm is None else [xs[j] for j in perm]
            got, ref = _call(fb, xc), _call(fu, xc)
            again = None if fresh is None or isinstance(fresh, str) else _call(fresh, xc)
            if nontrivial is not None and not isinstance(got, str) and any(abs(v) == LARGE for v in got):
                nontrivial.add(("declared-history", shape, spec["name"], spec2["name"], nm, tuple(J.num_tok(a) for a in xs)))

            def mk_fail(what, **m):
                return _declared_fail(what + f"  [history: compiled under '{spec['name']}', then re-declared '{spec2['name']}', "
                                             f"then the cached {nm} evaluated]", shape, spec, kind, channel, xs,
                                      spec_after=spec_json(spec2), callable=nm, V_names=[v.name for v in VB],
                                      called_with=[float(a) for a in xc], **m)
            f = _compare_declared(got, ref, again, rw, xc, mk_fail, (getattr(fb, "__name__", nm), getattr(fu, "__name__", nm)),
                                  "the cached callable differs from one compiled after the bounds were edited")
            if f:
                fails.append(f)
                break
        if fails:
            break
    return fails, n


def history_pairs(specs):
    """(declared at compile time → declared afterwards): loosen, remove, move across 0, tighten, change the domain"""
    by = {s["name"]: s for s in specs}
    before = ["lb=0.5,ub=4", "lb=0.25", "[0.25,0.75]", "[1.5,3]", "lb=ub=2", "integer[1,5]", "elem:all>0,each-different", "lb=np.float64(0.5)",
              "ub=-0.5", "[-3,-0.5]", "integer[-3,-1]", "lb=0", "binary", "none", "[-0.5,0.5]", "elem:[>0,none]", "container-only:lb=0.5"]
    after = ["lb=0", "none", "lb=-1", "[-2,2]", "ub=0", "lb=0.5,ub=4", "[-0.5,0.5]", "elem:[>0,lb=0]", "ub=-0.5"]
    return [(by[a], by[b]) for a in before for b in after if a != b]


def declared_failures(rng, full, nontrivial=None, stop_at_first=False):
    """the whole family.  quick tier: every shape × every third declaration (each class of declarations is ≥ 6 contiguous
    members) with the closure kind rotating along the chosen declarations (so every shape meets every class under at least two
    kinds, the large classes under all), histories on a rotating choice; full: the product"""
    shapes = bound_shapes()
    specs = bound_specs(rng)
    pairs = history_pairs(specs)
    fails, n_evals, hist = [], 0, {"declared:cases": 0, "declared:history_cases": 0}
    off = rng.randrange(3)
    for si, (shape, build) in enumerate(shapes):
        n = len(build(Declared(NO_DECLARATION))[1])
        for pi, spec in enumerate(specs):
            if not full and (si + pi + off) % 3 != 0:
                continue
            pts = bound_points(rng, n, (spec,), full and (si + pi) % 8 == 0)
            kinds = DECL_KINDS
            if not full:
                kinds = (DECL_KINDS[(pi // 3 + si) % 3],) + (("jac2",) if (pi // 3 + si) % 4 == 0 else ())
            for ki, kind in enumerate(kinds):
                fs, k = check_declared(shape, build, spec, kind, pts, bounded_first=(si + pi // 3 + ki) % 2 == 0, nontrivial=nontrivial)
                n_evals += k
                hist["declared:cases"] += 1
                fails += fs
                if fails and stop_at_first:
                    return fails, n_evals, hist
        # histories
        # + pairs[0] = "compile with lb = 0.5, set lb = 0, evaluate the cached callable at 0" for every shape, channel rotating
        chosen = [pairs[(si * 7 + j * 11 + off) % len(pairs)] for j in range(12 if full else 3)] + [pairs[0]]
        for hi, (sa, sb) in enumerate(chosen):
            pts = bound_points(rng, n, (sb, sa), full and hi % 4 == 0)
            kind = DECL_KINDS[(si + hi) % 3]
            channels = ("compile", "cache") if full else (("compile", "cache")[(hi + si) % 2],)
            if hi == len(chosen) - 1 and not full:
                channels = (("compile", "cache", "solve")[(si + off) % 3],)
            elif sa["b"][0][2] == CONT and (hi in (0, 7, 12) if full else (hi == 0 and (si + off) % 4 == 0)):
                channels += ("solve",)
            for channel in channels:
                fs, k = check_declared_history(shape, build, sa, sb, kind, channel, pts, nontrivial=nontrivial)
                n_evals += k
                hist["declared:history_cases"] += 1
                hist[f"declared:history:{channel}"] = hist.get(f"declared:history:{channel}", 0) + 1
                fails += fs
                if fails and stop_at_first:
                    return fails, n_evals, hist
    return fails, n_evals, hist


def replay_declared(f) -> bool:
    shapes = dict(bound_shapes())
    build = shapes[f["shape"]]
    spec = spec_from_json(f["spec"])
    if "spec_after" in f:
        fails, _ = check_declared_history(f["shape"], build, spec, spec_from_json(f["spec_after"]), f["deriv"], f["channel"], [f["x"]])
    else:
        fails, _ = check_declared(f["shape"], build, spec, f["deriv"], [f["x"]], bounded_first=bool(f.get("bounded_first", True)))
    for g in fails:
        print("FAIL:", {k: g[k] for k in g if k != "spec"}, "declared:", g["spec"])
    return not fails


# ----------------------------------------------------------------------------- derivative ENTRIES that are vector nodes over singular vectors
# (checklist: the entry itself, not only the differentiated expression).  Through the product rule the partial derivative of
# O(y, R(g(x))) w.r.t. the scalar y IS the reduction node R(g(x)) (c @ g, g.sum(), g·h, ‖g‖, …) over a VectorExpression whose
# elements are singular (1/x_i, log x_i, x_i**-k, sqrt x_i): an entry that looks `affine` / `constant` to a static classification
# (LinearCombination, a sum, a scaled variable) and still evaluates to ±Inf / NaN ON the singular set.  Family = elementwise
# singular g × reduction × outer combination with y × variable layout (full / permuted / sparse) × callable
# (compile_gradient, compile_jacobian one row / several rows, the callables a Problem hands to SciPy) × points on the singular set.
# Oracle: hand-written NumPy values of every partial derivative (value of the reduction for the y entry, chain rule for the x
# entries): every entry finite; finite NumPy value → unchanged; ±Inf → ±1e16; NaN → 0 for the y entry (for an x entry whose NumPy
# value is NaN the class depends on the algebraic form 0·Inf / Inf − Inf is written in: only finiteness is required there).

VE_C = np.array([1.0, 2.0, -3.0])
VE_C2 = np.array([0.5, 4.0, 1.5])


def ve_elementwise():
    """name → (optyx elementwise function, NumPy g, NumPy g')"""
    from optyx.core.functions import log, sqrt

    return [
        ("1/x", lambda v: 1.0 / v, lambda x: 1.0 / x, lambda x: -1.0 / (x * x)),
        ("log", lambda v: log(v), lambda x: np.log(x), lambda x: 1.0 / x),
        ("x**-2", lambda v: v ** -2.0, lambda x: x ** -2.0, lambda x: -2.0 * x ** -3.0),
        ("sqrt", lambda v: sqrt(v), lambda x: np.sqrt(x), lambda x: 0.5 / np.sqrt(x)),
        ("x**-0.5", lambda v: v ** -0.5, lambda x: x ** -0.5, lambda x: -0.5 * x ** -1.5),
        ("c/x+x", lambda v: 2.5 / v + v, lambda x: 2.5 / x + x, lambda x: -2.5 / (x * x) + 1.0),
    ]


def ve_reductions():
    """name → (node builder from the optyx vectors G, H; NumPy value r(g, h); NumPy ∂r/∂g_i, ∂r/∂h_i)"""
    from optyx.core import vectors as Vc

    def norm(g):
        return np.sqrt(np.sum(g * g))

    return [
        ("c@G", lambda G, H: VE_C @ G, lambda g, h: float(np.dot(VE_C, g)), lambda g, h: (VE_C, None)),
        ("LinearCombination(c2,G)", lambda G, H: Vc.LinearCombination(VE_C2, G), lambda g, h: float(np.dot(VE_C2, g)), lambda g, h: (VE_C2, None)),
        ("G.sum()", lambda G, H: G.sum(), lambda g, h: float(np.sum(g)), lambda g, h: (np.ones(len(g)), None)),
        ("G.dot(H)", lambda G, H: G.dot(H), lambda g, h: float(np.sum(g * h)), lambda g, h: (h, g)),
        ("DotProduct(G,G)", lambda G, H: Vc.DotProduct(G, G), lambda g, h: float(np.sum(g * g)), lambda g, h: (2.0 * g, None)),
        ("L2Norm(G)", lambda G, H: Vc.L2Norm(G), lambda g, h: float(norm(g)), lambda g, h: (g / norm(g), None)),
        ("c@G-c2@H", lambda G, H: VE_C @ G - VE_C2 @ H, lambda g, h: float(np.dot(VE_C, g) - np.dot(VE_C2, h)), lambda g, h: (VE_C, -VE_C2)),
    ]


def ve_outers():
    """name → (expression of (y, r); NumPy ∂/∂y; NumPy ∂/∂r): the y entry is the reduction node, a sum / difference / scalar
    multiple of it, or the node next to a plain variable"""
    return [
        ("y*r", lambda y, r: y * r, lambda y, r: r, lambda y, r: y),
        ("r*y", lambda y, r: r * y, lambda y, r: r, lambda y, r: y),
        ("y+y*r", lambda y, r: y + y * r, lambda y, r: 1.0 + r, lambda y, r: y),
        ("2.5*(y*r)-y", lambda y, r: 2.5 * (y * r) - y, lambda y, r: 2.5 * r - 1.0, lambda y, r: 2.5 * y),
        ("-(y*r)", lambda y, r: -(y * r), lambda y, r: -r, lambda y, r: -y),
        ("y*r+y*y", lambda y, r: y * r + y * y, lambda y, r: r + 2.0 * y, lambda y, r: y),
    ]


VE_LAYOUTS = [("full", [0, 1, 2, 3]), ("x-first", [1, 2, 3, 0]), ("perm", [2, 0, 3, 1]), ("sparse", [0, 4, 1, 2, 3]), ("sparse-mid", [1, 2, 4, 0, 3])]
VE_CHANNELS = ("grad", "jac", "jac2", "jac2-first", "scipy")


def ve_points(rng):
    """(y, x0, x1, x2): x ON the singular set (one / two / all coordinates 0, with non-zero coefficients), outside the domain
    (−1: log, sqrt, fractional powers → NaN), y of either sign and 0, + regular points.  No −0.0 (sign of zero: ASSUMPTIONS)"""
    pts = []
    ys = [2.0, -3.0, 1.25]
    for p in range(3):
        x = [BASE[(i + p) % len(BASE)] for i in range(3)]
        x[p] = 0.0
        pts.append([ys[p]] + x)
    pts.append([-0.5, 0.0, 1.75, 0.0])
    pts.append([1.25, 0.0, 0.0, 0.0])
    pts.append([0.0, 0.0, 0.375, 2.25])
    x = [BASE[(i + 4) % len(BASE)] for i in range(3)]
    x[rng.randrange(3)] = -1.0
    pts.append([rng.choice([2.0, -0.5])] + x)
    x = [BASE[(i + 5) % len(BASE)] for i in range(3)]
    x[rng.randrange(3)] = 0.0
    x[rng.randrange(3)] = rng.choice([0.0, 1e-150, 1.0])
    pts.append([rng.choice([-2.0, 0.5, 1.0])] + x)
    pts.append([0.75, 1.25, 0.625, 2.75])
    pts.append([rng.choice([-2.0, 0.5, 1.0, 2.0])] + [rng.choice(BASE + [1.0, 2.0, 0.5]) for _ in range(3)])
    return pts


def ve_build(gname, hname, rname, oname, lname):
    """fresh optyx objects of one member + its NumPy oracle.  Returns (e, V, names, direct) with direct(point by name) → the
    unsanitised partial derivatives in V order"""
    from optyx import Variable, VectorVariable
    from optyx.core import vectors as Vc

    elem = {n: t for n, *t in ve_elementwise()}
    red = {n: t for n, *t in ve_reductions()}
    out = {n: t for n, *t in ve_outers()}
    gf, g_np, dg_np = elem[gname]
    hf, h_np, dh_np = elem[hname] if hname != "2x+1" else (lambda v: 2.0 * v + 1.0, lambda x: 2.0 * x + 1.0, lambda x: 2.0 + 0.0 * x)
    y, x, extra = Variable("ve_y"), VectorVariable("ve_x", 3), Variable("ve_a")
    G = Vc.VectorExpression([gf(v) for v in x])
    H = Vc.VectorExpression([hf(v) for v in x])
    rb, r_np, dr_np = red[rname]
    ob, dy_np, dr_outer = out[oname]
    e = ob(y, rb(G, H))
    pool = [y, x[0], x[1], x[2], extra]
    V = [pool[i] for i in dict(VE_LAYOUTS)[lname]]

    def direct(yv, xv):
        """[∂/∂y, ∂/∂x0, ∂/∂x1, ∂/∂x2, ∂/∂extra] by hand, NumPy special-value semantics"""
        xv = np.array(xv, dtype=float)
        with np.errstate(all="ignore"):
            g, h, dg, dh = g_np(xv), h_np(xv), dg_np(xv), dh_np(xv)
            r = r_np(g, h)
            rg, rh = dr_np(g, h)
            dx = dr_outer(yv, r) * (rg * dg + rh * dh if rh is not None else rg * dg)   # rh None: the reduction does not use H
            return [float(dy_np(yv, r))] + [float(v) for v in dx] + [0.0]

    def value(yv, xv):
        xv = np.array(xv, dtype=float)
        return r_np(g_np(xv), h_np(xv))

    return e, V, [v.name for v in pool], direct, value, (y, x, extra)


def ve_callables(channel, e, V, objs):
    """[(name, callable, rows, sign, V order)]; rows: per returned row 'e' (the member) or 'lin' (the regular row 2y + x0)"""
    import optyx.core.autodiff as AD
    import optyx.core.compiler as CC

    y, x, _ = objs
    lin = 2.0 * y + x[0]
    if channel == "grad":
        return [("compile_gradient", CC.compile_gradient(e, V), ["e"], V)]
    if channel == "jac":
        return [("compile_jacobian([e])", AD.compile_jacobian([e], V), ["e"], V)]
    if channel == "jac2":
        return [("compile_jacobian([e, lin, e])", AD.compile_jacobian([e, lin, e], V), ["e", "lin", "e"], V)]
    if channel == "jac2-first":
        return [("compile_jacobian([lin, e])", AD.compile_jacobian([lin, e], V), ["lin", "e"], V)]
    pc = _problem_callables(e, "minimize", False)
    if pc is None:
        return []
    _, PV, fns = pc
    return [(nm, fn, ["±e"] if nm.startswith("constraint") else ["e"], PV) for nm, fn in fns]


def ve_check(member, channel, pts, nontrivial=None):
    """one member × one channel at every point.  Returns (fails, evaluations)"""
    gname, hname, rname, oname, lname = member
    built = J.grab(lambda: ve_build(*member))
    if isinstance(built, str):
        return [], 0
    e, V, names, direct, value, objs = built
    # the member must mean what the NumPy oracle assumes: function value at a regular point
    reg = [0.75, 1.25, 0.625, 2.75]
    val = J.grab(lambda: float(np.asarray(e.evaluate({n: a for n, a in zip(names, reg + [0.5])}))))
    fns = J.grab(lambda: ve_callables(channel, e, V, objs))
    if isinstance(val, str) or isinstance(fns, str):
        return [], 0
    lin_row = {names[0]: 2.0, names[1]: 1.0}
    fails, n = [], 0

    def fail(what, xs, **more):
        d = {"what": what, "kind": "vector-entry", "member": list(member), "channel": channel, "x": [float(a) for a in xs],
             "point_order": ["y", "x0", "x1", "x2"], "expr_repr": repr(e)[:300]}
        d.update(more)
        return d

    for nm, fn, rows, FV in fns:
        order = [v.name for v in FV]
        if not set(order) <= set(names):
            continue
        sign = None
        for xs in [reg] + list(pts):
            n += 1
            point = dict(zip(names, list(xs) + [0.5]))
            got = _call(fn, [point[k] for k in order])
            if isinstance(got, str):
                fails.append(fail(f"derivative callable raised {got[6:]} at a finite point", xs, callable=nm, V_names=order))
                break
            raw_all = dict(zip(names, direct(xs[0], xs[1:])))
            want_raw = []
            for row in rows:
                want_raw += [lin_row.get(k, 0.0) for k in order] if row == "lin" else [raw_all[k] for k in order]
            if len(got) != len(want_raw):
                fails.append(fail("derivative callable returned an array of the wrong size", xs, callable=nm, got=got, V_names=order))
                break
            if nontrivial is not None and not all(math.isfinite(r) for r in want_raw):
                nontrivial.add(("vector-entry",) + tuple(member) + (channel, nm, tuple(J.num_tok(a) for a in xs)))
            if not all(math.isfinite(v) for v in got):
                fails.append(fail("derivative callable returned a non-finite entry at a finite point (an entry that is a vector node over a "
                                  "VectorExpression with singular elements was not sanitised)", xs, callable=nm, got=got,
                                  unsanitised_numpy=[str(r) for r in want_raw], V_names=order))
                break
            if rows == ["±e"]:
                # SciPy's sign convention of the constraint (fun ≥ 0) is read off at the regular point
                if sign is None:
                    fin = [(g_, r_) for g_, r_ in zip(got, want_raw) if r_ != 0.0]
                    sign = 1.0 if all(J.close(g_, r_, rtol=1e-9) for g_, r_ in fin) else -1.0
                want_raw = [sign * r for r in want_raw]
            tol = cancel_tol(got)
            bad = None
            for idx, (g_, r_) in enumerate(zip(got, want_raw)):
                is_y = order[idx % len(order)] == names[0]
                if math.isnan(r_) and not is_y:
                    continue
                if math.isfinite(r_) and abs(r_) >= 1e15:
                    continue   # overflow-sized regular value next to the threshold: not a singular point (ASSUMPTIONS)
                if not same_class(g_, expected_from_raw(r_), tol):
                    bad = idx
                    break
            if bad is not None:
                fails.append(fail("entry is not the sanitised value of the hand-written NumPy derivative (finite → unchanged, NaN → 0, ±Inf → ±1e16)",
                                  xs, callable=nm, entry=bad, variable=order[bad % len(order)], unsanitised_numpy=str(want_raw[bad]),
                                  got=got, want=[expected_from_raw(r) for r in want_raw], V_names=order))
                break
        if fails:
            break
    return fails, n


def vector_entry_failures(rng, full, nontrivial=None, stop_at_first=False):
    """the family.  quick tier: every (g, reduction, outer) triple on a rotating layout; every second triple under all five
    channels, the others under two rotating ones (so every (g, reduction) pair meets every channel and every layout);
    full: the product"""
    gs = [n for n, *_ in ve_elementwise()]
    rs = [n for n, *_ in ve_reductions()]
    os_ = [n for n, *_ in ve_outers()]
    fails, n_evals, hist = [], 0, {"vector-entry:cases": 0}
    off = rng.randrange(len(VE_LAYOUTS))
    pts = ve_points(rng)
    for gi, g in enumerate(gs):
        for ri, r in enumerate(rs):
            for oi, o in enumerate(os_):
                h = "2x+1" if (gi + oi) % 2 == 0 else gs[(gi + 1 + oi) % len(gs)]
                lays = [l for l, _ in VE_LAYOUTS] if full else [VE_LAYOUTS[(gi + ri + oi + off) % len(VE_LAYOUTS)][0]]
                for lname in lays:
                    if full:
                        chans = VE_CHANNELS
                    elif (gi + ri + oi + off) % 3 == 0:
                        chans = VE_CHANNELS
                    else:
                        k = gi + 2 * oi + ri
                        chans = (VE_CHANNELS[k % 5], VE_CHANNELS[(k + 2) % 5])
                    for ch in chans:
                        fs, k = ve_check((g, h, r, o, lname), ch, pts if full else pts[(gi + oi) % 2::2] + pts[:1], nontrivial)
                        n_evals += k
                        hist["vector-entry:cases"] += 1
                        hist[f"vector-entry:{ch}"] = hist.get(f"vector-entry:{ch}", 0) + 1
                        fails += fs
                        if fails and stop_at_first:
                            return fails, n_evals, hist
    return fails, n_evals, hist


def replay_vector_entry(f) -> bool:
    fails, _ = ve_check(tuple(f["member"]), f["channel"], [f["x"]])
    for g in fails:
        print("FAIL:", g)
    return not fails


def run(ctx) -> core.Report:
    rng = ctx["rng"]
    thorough = ctx["tier"] == "thorough" or ctx["escalate"]
    rep = core.Report(rule="every derivative closure kind (vectorised power k ∈ {1, 2, 3, .5, −1, 2.5, 0, −2, 1.5, −.5, 4} and "
                           "10 unary ops × full / sparse / permuted × gradient / Jacobian / Hessian; constant, scaled and general "
                           "closures over abs, sqrt, log, fractional and negative powers, quotients, inverse functions at ±1, "
                           "norms) × singular values {0, −0.0, ±1, −2, ±.5, 2} at every position + origin; the same closure kinds "
                           "compiled for variables that DECLARE a box / domain (lb > 0, ub < 0, 0 on the boundary, lb = ub, tight and "
                           "crossed boxes, ±inf, int / NumPy-typed bounds, integer / binary, per-element mixes, container ≠ elements) "
                           "at singular points inside, on and outside the box, and after bound edits (compile_*, solver cache, "
                           "real solve).  "
                           "non-trivial = distinct (closure, point) where some unsanitised entry is NaN or ±Inf",
                      exhaustive=True)
    cases = closure_cases(rng, thorough)
    lines, metas = [], []
    cmd = {"grad": ("gradsv", "gradrun"), "jac": ("jacsv", "jacrun"), "hess": ("hesssv", "hessrun")}
    for tag, kind, e, V, own_pts in cases:
        try:
            params = J.all_params([e])
            es_s, V_s, store = J.ser_case([e], V, params)
        except Unsupported as ex:
            # outside the Lean syntax (bool constants, …): the property oracle on the real code still applies
            rep.skipped["model-unsupported(oracle only):" + str(ex)] = rep.skipped.get("model-unsupported(oracle only):" + str(ex), 0) + 1
            for xs in (own_pts if own_pts is not None else points_for(rng, len(V), False)[::4]):
                for f in check_real(kind, e, V, xs):
                    f["exprs_repr"] = [repr(e)[:200]]; f["V_names"] = [v.name for v in V]; f["x"] = xs; f["tag"] = tag; f["deriv"] = kind
                    rep.oracle_failures.append(f)
            continue
        E = es_s[0] if kind != "jac" else J.plist(es_s)
        VV = J.plist(V_s)
        if own_pts is not None:
            pts = own_pts
        else:
            pts = points_for(rng, len(V), thorough)
            if kind == "hess" and not thorough:
                pts = pts[::2] + pts[-4:]
        for xs in pts:
            X = J.point_text(xs)
            idx = len(lines)
            lines.append(f"{cmd[kind][0]} {E} {VV} {X} {store}")
            lines.append(f"{cmd[kind][1]} {E} {VV} {X} {store}")
            metas.append((tag, kind, e, V, xs, params, idx))
    # unsanitised entry expressions: optyx evaluate vs ⟦·⟧ over SV Float
    import optyx.core.autodiff as AD

    ev_metas = []
    for tag, kind, e, V, own_pts in cases:
        if kind != "grad":
            continue
        for v in (V if (thorough or own_pts is None) else V[:2]):
            g = J.quiet(lambda: AD.gradient(e, v))
            try:
                gs, _, store = J.ser_case([g], [], J.all_params([g]))
            except Unsupported:
                continue
            names = sorted(J.names_of([g]) | {u.name for u in V})
            ev_pts = points_for(rng, len(names), False)[:: (1 if thorough else 3)]
            if own_pts is not None and names == [u.name for u in V]:
                ev_pts = own_pts
            for xs in ev_pts:
                env = "(" + " ".join(f'("{nm}" {J.num_tok(float(a))})' for nm, a in zip(names, xs)) + ")"
                ev_metas.append((tag, g, dict(zip(names, xs)), len(lines)))
                lines.append(f"evalsv {gs[0]} {env} {store}")
    # _sanitize_derivatives itself
    san_metas = []
    vals = [float("nan"), float("inf"), float("-inf"), 0.0, -0.0, 1.5, -2.0, 1e16, -1e16, 3.0,
            2e21, -3e30, 1.0000000000000002e16, -7e300, 1e17, 1e-150]
    arrays = [[v] for v in vals] + [[1.0, 2.0], [], [float("nan"), 1.0, float("inf")], [float("-inf"), -0.0, 2.5, float("nan")],
                                    [float("inf"), 2e21, -2.0], [float("nan"), -3e30, 7e300], [2e21, -3e30], [float("-inf"), 1e17, -1e17, 1e16]]
    for _ in range(40):
        arrays.append([rng.choice(vals) for _ in range(rng.randint(1, 6))])
    for arr in arrays:
        san_metas.append((arr, len(lines)))
        lines.append(f"san {J.point_text(arr)}")
        lines.append(f"sansv {J.point_text(arr)}")

    outs = run_lean_unit(lines)
    rep.evaluations = len(metas) + len(ev_metas) + len(san_metas)

    from optyx.core.compiler import _sanitize_derivatives

    def mismatch(kind_, tag, e, V, xs, params, impl, model):
        d = {"kind": kind_, "tag": tag, "impl": str(impl)[:300], "model": str(model)[:300]}
        d.update(J.payload_of([e], V, xs, params))
        rep.corr_mismatches.append(d)

    fn_cache = {}
    returned = {}
    del J.RETAINED[:]
    del J.RETAINED_FAILS[:]
    for tag, kind, e, V, xs, params, idx in metas:
        key = (id(e), kind, tuple(id(v) for v in V))
        if key not in fn_cache:
            fn_cache[key] = J.grab(lambda: compile_kind(kind, e, V))
        fn = fn_cache[key]
        x = np.array(xs, dtype=float)
        pname = fn if isinstance(fn, str) else fn.__name__
        rep.histogram[f"{kind}:{pname}"] = rep.histogram.get(f"{kind}:{pname}", 0) + 1
        raw_out = fn if isinstance(fn, str) else J.grab(lambda: fn(x))
        got = raw_out if isinstance(raw_out, str) else J.grab(lambda: flat(raw_out))
        # results of earlier calls stay valid (checklist 18): the arrays this callable returned at earlier points must be
        # unchanged after this call; every returned array also goes to the pool that is re-checked after calls on other objects
        hist = returned.setdefault(key, [])
        for raw0, snap0, xs0 in hist[-3:]:
            if not J.same_bits(raw0, snap0):
                f = {"what": "an array returned by an earlier call was changed by a later call on the same compiled callable "
                             "(the returned array aliases a buffer that later calls overwrite)", "kind": "call-sequence",
                     "failure_class": "earlier-result-changed", "deriv": kind, "path": pname, "sequence_name": "earlier-then-later",
                     "sequence": [["new", [float(a) for a in xs0]], ["new", [float(a) for a in xs]]], "call_index": 0,
                     "got": np.asarray(raw0).tolist(), "want": np.asarray(snap0).tolist(), "tag": tag, "require_finite": False}
                f.update(J.safe_payload([e], V, xs0, params))
                rep.oracle_failures.append(f)
                hist.clear()
                break
        if isinstance(raw_out, np.ndarray) and not isinstance(got, str):
            snap = np.array(raw_out, dtype=float, copy=True)
            hist.append((raw_out, snap, list(xs)))
            del hist[:-3]
            if len(J.RETAINED) < 20000 and idx % 7 == 0:
                info = {"deriv": kind, "path": pname, "tag": tag}
                info.update(J.safe_payload([e], V, xs, params))
                J.RETAINED.append((raw_out, snap, info))
        if len(J.RETAINED) >= 4000:
            J.recheck_retained()
        for which, out in (("sv", outs[idx]), ("float", outs[idx + 1])):
            if isinstance(got, str) or out.startswith("raise"):
                if (got if isinstance(got, str) else "") != out:
                    mismatch(f"{kind}-{which}-raise", tag, e, V, xs, params, got, out)
                continue
            model = J.parse_nums(out)
            mflat = [v for r in model for v in r] if model and isinstance(model[0], list) else model
            tol = cancel_tol(got, mflat) if len(mflat) == len(got) else 0.0
            if len(mflat) != len(got) or not all(same_class(a, b, tol) for a, b in zip(got, mflat)):
                mismatch(f"{kind}-{which}", tag, e, V, xs, params, got, mflat)
        fails = check_real(kind, e, V, xs)
        for f in fails:
            f.update(J.payload_of([e], V, xs, params))
            f["tag"] = tag
            f["deriv"] = kind
            rep.oracle_failures.append(f)
        raw = J.grab(lambda: raw_entries(kind, e, V, xs)) if kind != "hess" or len(V) <= 3 else "skip"
        if not isinstance(raw, str) and not all(math.isfinite(r) for r in raw):
            rep.nontrivial.add((tag, kind, tuple(J.num_tok(a) for a in xs)))
            if len(rep.samples) < 8 and kind == "grad" and len(V) <= 4:
                rep.samples.append({"tag": tag, "closure": pname, "x": [J.num_tok(a) for a in xs],
                                    "unsanitised": [str(r) for r in raw], "returned": got})
    # call sequences on one callable per closure case (history independence; every repeated answer finite)
    n_seq_calls = 0
    for tag, kind, e, V, own_pts in cases:
        if not V or (own_pts is not None and not thorough and rng.random() < 0.7):
            continue
        seqs = sequences_for(rng, len(V), thorough, own_pts, len(J.all_params([e])))
        fails, n_calls = J.check_sequences(kind, [e], V, seqs, require_finite=True)
        n_seq_calls += n_calls
        for f in fails:
            f.update(J.safe_payload([e], V, f["x"]))
            f["tag"] = tag
            f["require_finite"] = True
            rep.oracle_failures.append(f)
    rep.histogram["sequence_calls"] = n_seq_calls
    # a sample of (closure, point) pairs again with every recursion threshold forced low
    with J.forced_thresholds(2):
        for tag, kind, e, V, xs, params, idx in metas[::(5 if thorough else 23)]:
            for f in check_real(kind, e, V, xs):
                f.update(J.payload_of([e], V, xs, params)); f["tag"] = tag + "|threshold=2"; f["deriv"] = kind; f["thresholds_forced"] = 2
                rep.oracle_failures.append(f)
    rep.evaluations += n_seq_calls
    # declared bounds / domains × singular points inside, on and outside the declared box, + bound-edit histories (oracle on the
    # real code only: bounds are not part of the modelled syntax — the model's closures cannot depend on them)
    dfails, d_evals, dhist = declared_failures(rng, thorough, nontrivial=rep.nontrivial)
    rep.oracle_failures.extend(dfails)
    rep.evaluations += d_evals
    rep.histogram.update(dhist)
    # derivative entries that are vector nodes over singular VectorExpressions (oracle on the real code: hand-written NumPy)
    vfails, v_evals, vhist = vector_entry_failures(rng, thorough, nontrivial=rep.nontrivial)
    rep.oracle_failures.extend(vfails[:20])
    rep.evaluations += v_evals
    rep.histogram.update(vhist)

    for tag, g, point, idx in ev_metas:
        real = J.grab(lambda: float(np.asarray(g.evaluate(point))))
        rep.histogram["evalsv"] = rep.histogram.get("evalsv", 0) + 1
        if isinstance(real, str):
            rep.skipped["evaluate-raised"] = rep.skipped.get("evaluate-raised", 0) + 1
            continue
        model = J.parse_nums("(" + outs[idx] + ")")[0]
        if not same_class(real, model):
            rep.corr_mismatches.append({"kind": "evalsv", "tag": tag, "expr": Ser(with_ids=False).expr(g)[:300],
                                        "point": {k: J.num_tok(float(v)) for k, v in point.items()},
                                        "impl": real, "model": model})
    J.recheck_retained()
    for f in J.RETAINED_FAILS:
        rep.oracle_failures.append(f)
    rep.histogram["retained_arrays_rechecked"] = rep.histogram.get("retained_arrays_rechecked", 0) + 1
    for arr, idx in san_metas:
        a = np.array(arr, dtype=float)
        res = J.quiet(lambda: _sanitize_derivatives(a))
        if np.all(np.isfinite(a)) and res is not a:
            rep.oracle_failures.append({"what": "_sanitize_derivatives copied an all-finite array", "array": arr})
        want = [expected_from_raw(v) for v in arr]
        if [float(v) for v in res] != want:
            rep.oracle_failures.append({"what": "_sanitize_derivatives: NaN → 0, ±Inf → ±1e16, finite unchanged violated",
                                        "kind": "sanitize", "array": [J.num_tok(v) for v in arr], "got": [float(v) for v in res]})
        for which, out in (("san", outs[idx]), ("sansv", outs[idx + 1])):
            model = J.parse_nums(out)
            if len(model) != len(res) or not all(same_class(float(r), m) for r, m in zip(res, model)):
                rep.corr_mismatches.append({"kind": which, "array": [J.num_tok(v) for v in arr], "impl": [float(v) for v in res],
                                            "model": model})
        rep.histogram["sanitize_arrays"] = rep.histogram.get("sanitize_arrays", 0) + 1
    return rep


def search(ctx, rep):
    rng = core.Rng(ctx["seed"] + 32452843)
    # (1) the disagreeing cases of this run first: at their own point, then at every singular / near-singular point
    seen = set()
    for mm in rep.corr_mismatches[:300]:
        if "exprs" not in mm:
            continue
        key = (tuple(mm["exprs"]), tuple(mm["V"]))
        if key in seen:
            continue
        seen.add(key)
        try:
            es, V, xs = J.rebuild(mm)
        except Exception:  # noqa: BLE001
            continue
        for kind in ("grad", "jac", "hess"):
            for pt in [xs] + points_for(rng, len(V), True):
                fails = check_real(kind, es[0], V, pt)
                if fails:
                    f = fails[0]
                    f.update(J.payload_of(es, V, pt, J.all_params(es)))
                    f["tag"] = mm.get("tag", "mismatch"); f["deriv"] = kind
                    return f
    # (2) the declared-bounds family in full (run() used every third declaration per shape unless it was escalated)
    if not (ctx.get("escalate") or ctx.get("tier") == "thorough"):
        dfails, _, _ = declared_failures(rng, True, stop_at_first=True)
        if dfails:
            return dfails[0]
    # (3) the vector-entry family in full
    if not (ctx.get("escalate") or ctx.get("tier") == "thorough"):
        vfails, _, _ = vector_entry_failures(rng, True, stop_at_first=True)
        if vfails:
            return vfails[0]
    for rnd in range(3):
        for tag, kind, e, V, own_pts in closure_cases(rng, True):
            if V:
                sf, _ = J.check_sequences(kind, [e], V, sequences_for(rng, len(V), True, own_pts, len(J.all_params([e]))), require_finite=True)
                if sf:
                    f = sf[0]
                    try:
                        f.update(J.safe_payload([e], V, f["x"]))
                    except Unsupported:
                        continue
                    f["tag"] = tag
                    f["require_finite"] = True
                    return f
            for xs in (own_pts if own_pts is not None else points_for(rng, len(V), True)):
                fails = check_real(kind, e, V, xs)
                if fails:
                    f = fails[0]
                    try:
                        f.update(J.payload_of([e], V, xs, J.all_params([e])))
                    except Unsupported:
                        continue
                    f["tag"] = tag
                    f["deriv"] = kind
                    return f
    return None


def replay(payload) -> bool:
    f = payload["failure"]
    if f.get("kind") == "sanitize" or "array" in f:
        from optyx.core.compiler import _sanitize_derivatives

        arr = [float(a) if a != "-0" else -0.0 for a in f["array"]]
        res = J.quiet(lambda: _sanitize_derivatives(np.array(arr, dtype=float)))
        ok = [float(v) for v in res] == [expected_from_raw(v) for v in arr]
        print("sanitize:", list(res))
        return ok
    if f.get("kind") == "declared-bounds":
        return replay_declared(f)
    if f.get("kind") == "vector-entry":
        return replay_vector_entry(f)
    if "exprs" not in f and "array" not in f:
        print("no serialisable expression (outside the Lean syntax):", {k: f[k] for k in f if k not in ("got", "want")})
        return False
    if f.get("kind") == "call-sequence":
        return J.replay_sequence(f)
    es, V, xs = J.rebuild(f)
    if f.get("thresholds_forced") is not None:
        with J.forced_thresholds(int(f["thresholds_forced"])):
            fails = check_real(f.get("deriv", "grad"), es[0], V, xs)
    else:
        fails = check_real(f.get("deriv", "grad"), es[0], V, xs)
    for g in fails:
        print("FAIL:", g)
    return not fails
