"""C08 — linear problems are solved to the true LP optimum with the true status.

Tie:    every real `solve_lp` call is spied at the `scipy.optimize.linprog` seam: the keyword
        arguments actually passed and the Solution actually returned are compared with the Lean
        model (`lpargs` / `lppost` of Optyx.Py.LPPipeline, the definitions `lp_pipeline_faithful`
        is about), exactly (rationals) except the final float addition of the constant term.
Oracle: the property's own differential — an *independently assembled* matrix form of the same
        model (the generator's abstract data, never optyx's extraction) solved with the same
        `linprog`: status must agree and |obj − obj_ref| ≤ 1e-7 (1 + |obj_ref|); both orientations,
        every writing style, methods auto / linprog / highs / highs-ds / highs-ipm, solved twice.
        Solver-keyword histories (`option_histories`): earlier solves of the same process that pass solver keyword
        arguments / `options={...}` through `Problem.solve(**kwargs)` (limits, tolerances, harmless options, keywords
        linprog accepts, keywords it rejects; on the same and on unrelated Problems; dicts the caller keeps and edits
        afterwards) followed by PLAIN solves of old, warm and fresh Problems, which must equal the reference; the
        caller's kwargs / options objects must be bit-identical after the call.
"""
from __future__ import annotations

import warnings
from fractions import Fraction

import numpy as np

import core
from ser import rat, q

LEAN_MODULE = "Optyx.Props.C08b"
EXTRA_MODULES = ["Optyx.Props.PinsC08", "Optyx.Props.StateTie", "Optyx.Props.LPFastTie"]   # transcription anchors (harness/source_pins.py)
THEOREMS = [
    "Optyx.Props.C08.lp_end_to_end",
    "Optyx.Props.C08.lp_pipeline_faithful",
    "Optyx.Props.C08.feasible_iff",
    "Optyx.Props.C08.lpStatus_table",
    "Optyx.Props.Glue.lpGlue_text",
    "Optyx.Props.Glue.lpRows_table",
    "Optyx.Props.Glue.lpExtract_text",
    "Optyx.Props.StateTie.edits_are_source",
    "Optyx.Props.LPFastTie.fastBinop_eq",
    "Optyx.Props.LPFastTie.extractAll_eq",
    "Optyx.Props.LPFastTie.extractLinearCoefficient_eq",
    "Optyx.Props.LPFastTie.extractConstantTerm_eq",
    "Optyx.Props.LPFastTie.aligned_iff",
    "Optyx.Props.StateTie.accessors_text",
    "Optyx.Props.PinsC08.anchors",
]
ASSUMPTIONS = [
    "scipy.optimize.linprog meets its documented contract on the data it is given (LinprogContract): the inside of HiGHS is trusted",
    "lp_end_to_end composes C05's extractLP_sound (proved) with the pipeline theorem: the only unproved assumption left is the solver contract",
]
METHODS = ["auto", "linprog", "highs", "highs-ds", "highs-ipm"]
REF_STATUS = {0: "OPTIMAL", 1: "MAX_ITERATIONS", 2: "INFEASIBLE", 3: "UNBOUNDED"}


# ------------------------------------------------------------------ abstract models


def gen_model(rng):
    """abstract LP: columns are x[0..n1-1] then y0..; returns dict of plain numbers"""
    n1 = rng.randint(1, 4)
    n2 = rng.randint(0, 2)
    n = n1 + n2
    bounds = []
    for _ in range(n):
        lb = rng.choice([None, 0.0, 0.0, -2.0, 1.0])
        ub = rng.choice([None, None, 3.0, 5.0, 10.0])
        bounds.append((lb, ub))
    c = [float(rng.randint(-3, 3)) for _ in range(n)]
    if all(v == 0 for v in c):
        c[rng.randrange(n)] = 1.0
    c0 = rng.choice([0.0, 0.0, 5.0, -2.5, 1.0])
    is_max = rng.random() < 0.5
    # a point inside the bounds, used to make most problems feasible
    pt = []
    for lb, ub in bounds:
        lo = lb if lb is not None else -3.0
        hi = ub if ub is not None else 6.0
        pt.append(float(rng.randint(int(lo), int(hi))))
    rows = []
    for _ in range(rng.randint(0, 5)):
        a = [float(rng.randint(-2, 3)) for _ in range(n)]
        if all(v == 0 for v in a):
            a[rng.randrange(n)] = 1.0
        if rng.random() < 0.25:
            a = [a[0]] * n1 + a[n1:]  # constant block on the vector → x.sum() style is possible
        sense = rng.choice(["<=", "<=", ">=", "=="])
        val = sum(ai * xi for ai, xi in zip(a, pt))
        if rng.random() < 0.8:
            rhs = val + (rng.randint(0, 3) if sense == "<=" else -rng.randint(0, 3) if sense == ">=" else 0)
        else:
            rhs = float(rng.randint(-6, 12))
        rows.append((a, sense, float(rhs)))
    layout = "vector"
    if n1 in (4,) and rng.random() < 0.5:
        layout = "matrix2x2"
    if rng.random() < 0.12:
        # "label collision" family: one vector only; every linear form lives on ONE strided / reversed /
        # full slice of it (VectorVariable labels slices by start:stop only, so x[::2], x[::3], x[::-1],
        # x[:] all carry the label x[0:n] while selecting different elements)
        layout = "collide"
        n1, n2 = rng.choice([4, 5, 6]), 0
        n = n1
        bounds = [(0.0, float(rng.choice([3, 5, 10]))) for _ in range(n)]
        steps = [2, 3, -1, 1]
        def on_view(step, lo=-2, hi=3):
            idx = list(range(n))[::step]
            a = [0.0] * n
            for j in idx:
                a[j] = float(rng.randint(lo, hi))
            if not any(a):
                a[idx[0]] = 1.0
            return a
        c = on_view(rng.choice([2, 3]), -3, 3)
        rows = []
        for _ in range(rng.randint(1, 3)):
            a = on_view(rng.choice(steps))
            sense = rng.choice(["<=", ">=", "=="])
            rows.append((a, sense, float(rng.randint(0, 12))))
    extreme = False
    if layout == "vector" and rng.random() < 0.15:
        # numeric magnitudes: tiny / huge coefficients per column, row and in the objective (judged by the exact
        # extraction oracle only: an LP solver's tolerances make the solve differential meaningless here)
        extreme = True
        mags = [1e-300, 1e-12, 1e-9, 9.9e-9, 1.01e-8, 1e-7, 1.0, 1e8, 1e16]
        col = [rng.choice(mags) if rng.random() < 0.5 else 1.0 for _ in range(n)]
        c = [v * f for v, f in zip(c, col)]
        rows = [([v * f * g for v, f in zip(a, col)], sn, r * g)
                for (a, sn, r) in rows for g in [rng.choice([1.0, 1.0, 1e-9, 1e8])]]
        c0 = c0 * rng.choice([1.0, 1e-9, 1e12])
    return {"n1": n1, "n2": n2, "bounds": bounds, "c": c, "c0": c0, "is_max": is_max, "rows": rows, "layout": layout,
            "extreme": extreme}


def reference(m, method="highs", extra=None):
    """independent matrix assembly + the same LP solver (`extra`: further linprog keywords the caller of the
    compared solve passed explicitly; uniform over the columns, so no column order is involved)"""
    from scipy.optimize import linprog

    c = np.array(m["c"])
    if m["is_max"]:
        c = -c
    A_ub, b_ub, A_eq, b_eq = [], [], [], []
    for a, s, r in m["rows"]:
        if s == "<=":
            A_ub.append(a); b_ub.append(r)
        elif s == ">=":
            A_ub.append([-v for v in a]); b_ub.append(-r)
        else:
            A_eq.append(a); b_eq.append(r)
    kw = {"c": c, "bounds": m["bounds"], "method": method}
    if A_ub:
        kw["A_ub"] = np.array(A_ub); kw["b_ub"] = np.array(b_ub)
    if A_eq:
        kw["A_eq"] = np.array(A_eq); kw["b_eq"] = np.array(b_eq)
    if extra:
        kw.update(extra)
    with warnings.catch_warnings():
        warnings.simplefilter("ignore")
        res = linprog(**kw)
    status = "OPTIMAL" if res.success else REF_STATUS.get(res.status, "FAILED")
    obj = None
    if res.fun is not None:
        obj = float(res.fun)
        if m["is_max"]:
            obj = -obj
        obj += m["c0"]
    return status, obj


# ------------------------------------------------------------------ writing the model through the API


def block_views(rng, x, n1):
    """a partition of the first block's columns into VectorVariable *views* (slices, strides, reversed
    slices, matrix rows / partial rows / columns): list of (view, column indices in view order)"""
    from optyx.core.matrices import MatrixVariable

    if isinstance(x, MatrixVariable):
        r, c = x.rows, x.cols
        kind = rng.choice(["rows", "cols", "partial_rows"])
        if kind == "rows":
            return [(x[i, :], [i * c + j for j in range(c)]) for i in range(r)]
        if kind == "cols":
            return [(x[:, j], [i * c + j for i in range(r)]) for j in range(c)]
        out = []
        for i in range(r):
            k = rng.randint(1, c - 1) if c > 1 else 1
            out.append((x[i, 0:k], [i * c + j for j in range(k)]))
            if k < c:
                out.append((x[i, k:c], [i * c + j for j in range(k, c)]))
        return out
    kind = rng.choice(["split", "stride", "reversed", "stride3"])
    idx = list(range(n1))
    if kind == "split" and n1 >= 2:
        k = rng.randint(1, n1 - 1)
        return [(x[0:k], idx[0:k]), (x[k:n1], idx[k:n1])]
    if kind == "stride" and n1 >= 2:
        return [(x[0::2], idx[0::2]), (x[1::2], idx[1::2])]
    if kind == "stride3" and n1 >= 3:
        return [(x[0::3], idx[0::3]), (x[1::3], idx[1::3]), (x[2::3], idx[2::3])]
    return [(x[::-1], idx[::-1])]


def block_elems(x):
    from optyx.core.matrices import MatrixVariable

    if isinstance(x, MatrixVariable):
        return [v for row in x._variables for v in row]
    return list(x)


def write_on_single_view(rng, coeffs, x, const=0.0):
    """the whole form on ONE slice of x whose support covers the non-zero coefficients"""
    n = len(list(x))
    nz = [j for j, a in enumerate(coeffs) if a != 0]
    for step in rng.sample([2, 3, -1, 1], 4):
        idx = list(range(n))[::step]
        if set(nz) <= set(idx):
            view = x[::step]
            e = np.array([coeffs[j] for j in idx]) @ view
            return e + const if const != 0 else e
    raise AssertionError("no covering view")


def arr(rng, values):
    """a coefficient array in one of the dtypes a user may hold it in (same mathematical values)"""
    vals = np.asarray(values, dtype=float)
    kinds = ["float64", "float64", "list"]
    with np.errstate(all="ignore"):
        if np.all(vals.astype(np.float32).astype(np.float64) == vals):
            kinds.append("float32")       # only values a float32 holds exactly: the model keeps the written numbers
        if np.all(vals.astype(np.float16).astype(np.float64) == vals):
            kinds.append("float16")
    if np.all(np.isfinite(vals)) and np.all(vals == np.round(vals)) and np.all(np.abs(vals) < 2 ** 62):
        kinds += ["int64", "pyint"]
        for k_ in ("int32", "int16", "int8"):
            if np.all(np.abs(vals) <= np.iinfo(k_).max):
                kinds.append(k_)
        if np.all(vals >= 0):
            kinds += [k_ for k_ in ("uint8", "uint16", "uint32", "uint64", "uint8") if np.all(vals <= np.iinfo(k_).max)]
    k = rng.choice(kinds)
    if k == "list":
        return np.array([float(v) for v in vals.ravel()]).reshape(vals.shape)
    if k == "pyint":
        return np.array([int(v) for v in vals.ravel()]).reshape(vals.shape)
    return vals.astype(k)


def flip(s):
    return {"<=": ">=", ">=": "<=", "==": "=="}[s]


def rescale(rng, lhs, s, r):
    """the same constraint written with the left side negated / scaled by a Python number:
    (lhs ⋈ r)  ==  (k·lhs ⋈' k·r)"""
    form = rng.choice(["plain", "plain", "neg", "int_k", "int_k_right", "neg_k", "div", "big_k"])
    if form == "plain":
        return lhs, s, r
    if form == "neg":
        return -lhs, flip(s), -r
    if form == "int_k":
        k = rng.choice([2, 3, 5])
        return k * lhs, s, k * r
    if form == "int_k_right":
        k = rng.choice([2, 4])
        return lhs * k, s, k * r
    if form == "neg_k":
        k = rng.choice([-1, -2, -3.0])
        return k * lhs, flip(s), k * r
    if form == "div":
        return lhs / 2, s, r / 2
    k = rng.choice([50, 100, 1000, 70000])
    return k * lhs, s, k * r


def write_linear(rng, coeffs, x, ys, style, const=0.0):
    """Σ coeffs·(x, ys) + const as an optyx expression in the given style"""
    from optyx.core.expressions import Constant
    from optyx.core.matrices import MatrixVariable

    elems = block_elems(x)
    n1 = len(elems)
    ax, ay = coeffs[:n1], coeffs[n1:]
    e = None
    if isinstance(x, MatrixVariable) and style not in ("chain", "views"):
        style = rng.choice(["views", "views", "chain"])
    if style == "msum" and not (isinstance(x, MatrixVariable) and len(set(ax)) == 1):
        style = "views"

    def add(term):
        nonlocal e
        e = term if e is None else e + term

    if style == "views":
        for view, cols in block_views(rng, x, n1):
            ac = [ax[j] for j in cols]
            if all(a == 0 for a in ac) and rng.random() < 0.7:
                continue
            if len(set(ac)) == 1 and rng.random() < 0.6:
                add(view.sum() if ac[0] == 1 else ac[0] * view.sum())
            else:
                add(np.array(ac) @ view)
    elif style == "msum":
        add(x.sum() if ax[0] == 1 else ax[0] * x.sum())
    elif style == "lc":
        add(arr(rng, ax) @ x)
    elif style == "lc_right":
        add(x @ arr(rng, ax))
    elif style == "lc_shift":
        s = rng.choice([1.0, -2.0, 0.5])
        add(np.array(ax) @ (x + s))
        const = const - s * sum(ax)
    elif style == "sum" and len(set(ax)) == 1:
        add(x.sum() if ax[0] == 1 else ax[0] * x.sum() if rng.random() < 0.5 else x.sum() * ax[0])
    elif style == "scaled_vec":
        add((np.array(ax) @ (2.0 * x)) / 2.0)
    else:
        for a, v in zip(ax, elems):
            if a == 0 and rng.random() < 0.7:
                continue
            r = rng.random()
            add(a * v if r < 0.4 else v * a if r < 0.7 else (Constant(a) + 0.0) * v if r < 0.8 else (2 * a * v) / 2)
    for a, v in zip(ay, ys):
        if a == 0 and rng.random() < 0.7:
            continue
        add(a * v)
    if e is None:
        e = 0.0 * elems[0]
    if const != 0 or rng.random() < 0.2:
        e = e + const if rng.random() < 0.7 else const + e
    wrap = rng.random()
    if wrap < 0.08:
        e = -(-e)
    elif wrap < 0.16:
        e = e ** 1
    elif wrap < 0.22:
        e = (e * 2) / 2
    return e


def build_problem(rng, m):
    from optyx import Problem, Variable, VectorVariable, MatrixVariable

    n1, n2 = m["n1"], m["n2"]
    same_vec_bounds = len(set(m["bounds"][:n1])) == 1
    if m.get("layout") == "matrix2x2":
        x = MatrixVariable("A", 2, 2)
        for v, (lb, ub) in zip(block_elems(x), m["bounds"][:n1]):
            v.lb, v.ub = lb, ub
    elif same_vec_bounds:
        lb, ub = m["bounds"][0]
        x = VectorVariable("x", n1, lb=lb, ub=ub)
    else:
        x = VectorVariable("x", n1)
        for v, (lb, ub) in zip(x, m["bounds"][:n1]):
            v.lb, v.ub = lb, ub
    ys = [Variable(f"y{j}", lb=m["bounds"][n1 + j][0], ub=m["bounds"][n1 + j][1]) for j in range(n2)]
    styles = ["chain", "lc", "lc_right", "lc_shift", "sum", "scaled_vec", "chain", "views", "views"]
    if m.get("extreme"):
        # `lc_shift` writes c@(x+s) + (const − s·Σc): with coefficients of very different magnitude that is a
        # cancellation in the WRITER's own float arithmetic, not something the extractor could be blamed for
        styles = [st for st in styles if st != "lc_shift"]
    is_matrix = m.get("layout") == "matrix2x2"
    P = Problem()
    if m.get("layout") == "collide":
        obj = write_on_single_view(rng, m["c"], x, const=m["c0"])
        (P.maximize if m["is_max"] else P.minimize)(obj)
        for a, s_, r in m["rows"]:
            lhs = write_on_single_view(rng, a, x)
            P.subject_to((lhs <= r) if s_ == "<=" else (lhs >= r) if s_ == ">=" else lhs.eq(r))
        return P, x, ys, ["collide"] * (1 + len(m["rows"]))
    obj = write_linear(rng, m["c"], x, ys, rng.choice(styles), const=m["c0"])
    (P.maximize if m["is_max"] else P.minimize)(obj)
    used_styles = []
    rows = list(m["rows"])
    i = 0
    while i < len(rows):
        a, s, r = rows[i]
        # vectorised block: consecutive rows of one sense that only touch the vector
        j = i
        while (j < len(rows) and rows[j][1] == s and all(v == 0 for v in rows[j][0][n1:])):
            j += 1
        if j - i >= 2 and rng.random() < 0.6 and not is_matrix:
            A = arr(rng, [rw[0][:n1] for rw in rows[i:j]])
            b = np.array([rw[2] for rw in rows[i:j]])
            lhs, s2, b = rescale(rng, A @ x, s, b)
            cons = (lhs <= b) if s2 == "<=" else (lhs >= b) if s2 == ">=" else lhs.eq(b)
            P.subject_to(cons)
            used_styles.append("matrix_rows:" + str(A.dtype))
            i = j
            continue
        st = rng.choice(styles)
        used_styles.append(st)
        form = rng.random()
        if form < 0.5:
            lhs = write_linear(rng, a, x, ys, st)
            if rng.random() < 0.35:
                lhs, s_w, r_w = rescale(rng, lhs, s, r)
            else:
                s_w, r_w = s, r
            con = (lhs <= r_w) if s_w == "<=" else (lhs >= r_w) if s_w == ">=" else lhs.eq(r_w)
        elif form < 0.75:
            lhs = write_linear(rng, a, x, ys, st, const=-r)
            con = (lhs <= 0) if s == "<=" else (lhs >= 0) if s == ">=" else lhs.eq(0)
        else:
            # split: part of the terms on the right-hand side as an expression
            k = rng.randrange(len(a))
            a_l = [v if t != k else 0.0 for t, v in enumerate(a)]
            a_r = [-v if t == k else 0.0 for t, v in enumerate(a)]
            lhs = write_linear(rng, a_l, x, ys, st)
            rhs = write_linear(rng, a_r, x, ys, "chain", const=r)
            con = (lhs <= rhs) if s == "<=" else (lhs >= rhs) if s == ">=" else lhs.eq(rhs)
        P.subject_to(con)
        i += 1
    return P, x, ys, used_styles


# ------------------------------------------------------------------ the LP seam


class LinprogSpy:
    def __enter__(self):
        import scipy.optimize as so

        self.so = so
        self.real = so.linprog
        self.calls = []

        def spy(*a, **kw):
            res = self.real(*a, **kw)
            self.calls.append((kw, res))
            return res

        so.linprog = spy
        return self

    def __exit__(self, *a):
        self.so.linprog = self.real


def solver_gave_up(spy) -> bool:
    """the one linprog call of this solve ended with status 1 (iteration limit) or 4 (numerical difficulties) —
    read from the raw result at the seam, not from optyx"""
    return len(spy.calls) == 1 and (not spy.calls[0][1].success) and int(spy.calls[0][1].status) in (1, 4)


SEAM_KEYS = ("c", "A_ub", "b_ub", "A_eq", "b_eq", "bounds", "method")


def gave_up_on_these_rows(spy) -> bool:
    """`solver_gave_up`, confirmed independently: the very arrays optyx handed to linprog, passed DIRECTLY to the
    real linprog with nothing else (default options; HiGHS is deterministic), end with status 1 / 4 as well.  Only
    then is the give-up the solver's own answer on these (rescaled / reordered) rows; a limit that came from anywhere
    else (options the caller of THIS solve never passed) is not excused."""
    if not solver_gave_up(spy):
        return False
    kw = spy.calls[0][0]
    try:
        with warnings.catch_warnings():
            warnings.simplefilter("ignore")
            res = spy.real(**{k: kw[k] for k in SEAM_KEYS if k in kw})
    except Exception:  # noqa: BLE001
        return False
    return (not res.success) and int(res.status) in (1, 4)


def opt_rows(A):
    if A is None:
        return "none"
    return "(" + " ".join("(" + " ".join(rat(v) for v in row) + ")" for row in np.asarray(A).tolist()) + ")"


def opt_vec(b):
    if b is None:
        return "none"
    return "(" + " ".join(rat(v) for v in np.asarray(b).tolist()) + ")"


def bounds_text(bs):
    return "(" + " ".join("(" + ("none" if l is None else rat(l)) + " " + ("none" if u is None else rat(u)) + ")"
                          for l, u in bs) + ")"


def lpdata_text(d):
    return ("(" + opt_vec(d.c) + " " + rat(d.c0) + " " + ("true" if d.sense == "max" else "false") + " " +
            opt_rows(d.A_ub) + " " + opt_vec(d.b_ub) + " " + opt_rows(d.A_eq) + " " + opt_vec(d.b_eq) + " " +
            bounds_text(d.bounds) + " (" + " ".join(q(n) for n in d.variables) + "))")


def args_text(kw):
    return ("c=" + opt_vec(kw["c"]) + " A_ub=" + opt_rows(kw.get("A_ub")) + " b_ub=" + opt_vec(kw.get("b_ub")) +
            " A_eq=" + opt_rows(kw.get("A_eq")) + " b_eq=" + opt_vec(kw.get("b_eq")) +
            " bounds=" + (bounds_text(kw["bounds"]) if "bounds" in kw else "none") + " method=" + kw["method"] +
            # a plain solve hands linprog nothing but the model and the method (Py.lpArgs has no other field)
            "".join(" unexpected-keyword=" + k for k in sorted(kw) if k not in SEAM_KEYS))


def lpdata_vs_model(m, d, names):
    """exact (up to 1e-12 relative) comparison of the extracted LPData with the abstract model the problem was
    written from: objective vector and constant, orientation, bounds, and the multiset of constraint rows modulo a
    positive scaling of each row (the writing styles may scale a constraint) — independent of any solver"""
    pos = {n: j for j, n in enumerate(names)}
    if not set(d.variables) <= set(names) or len(set(d.variables)) != len(d.variables):
        return f"variables {list(d.variables)} vs {names}"
    # a variable that was never written (all its coefficients are 0 and the writer skipped the terms) is not a
    # variable of the problem: its column must be zero in the model
    for n_, j in pos.items():
        if n_ not in d.variables and (m["c"][j] != 0 or any(a[j] != 0 for a, _, _ in m["rows"])):
            return f"variable {n_} with non-zero coefficients is missing from the extracted LP"
    perm = [pos[n] for n in d.variables]

    def close(a, b, scale=1.0):
        return abs(a - b) <= 1e-12 * max(abs(a), abs(b), scale * 1e-3, 1e-300)

    c_model = [m["c"][j] for j in perm]
    if len(d.c) != len(c_model) or not all(close(float(a), b, max(map(abs, c_model)) or 1.0) for a, b in zip(d.c, c_model)):
        return f"c = {[float(v) for v in d.c]} vs {c_model}"
    if not close(float(d.c0), m["c0"], 1.0) and abs(float(d.c0) - m["c0"]) > 1e-9:
        return f"c0 = {float(d.c0)} vs {m['c0']}"
    if (d.sense == "max") != bool(m["is_max"]):
        return f"sense {d.sense}"
    bm = [m["bounds"][j] for j in perm]
    for (lb, ub), (l2, u2) in zip(d.bounds, bm):
        if (lb is None) != (l2 is None) or (ub is None) != (u2 is None) or \
                (lb is not None and not close(float(lb), l2, 1.0)) or (ub is not None and not close(float(ub), u2, 1.0)):
            return f"bounds {list(d.bounds)} vs {bm}"

    def norm(a, r):
        big = max(abs(v) for v in a)
        if big == 0:
            return None
        return [v / big for v in a] + [r / big]

    want_ub, want_eq = [], []
    for a, sn, r in m["rows"]:
        a = [a[j] for j in perm]
        if sn == "<=":
            want_ub.append(norm(a, r))
        elif sn == ">=":
            want_ub.append(norm([-v for v in a], -r))
        else:
            want_eq.append(norm(a, r))
    def rows_of(A, b):
        return [] if A is None else [norm([float(v) for v in row], float(rv)) for row, rv in zip(A, b)]
    def same_row(u, v, eq):
        if u is None or v is None:
            return u is None and v is None
        if all(close(x, y, 1.0) for x, y in zip(u, v)):
            return True
        return eq and all(close(x, -y, 1.0) for x, y in zip(u, v))   # an equality may be written negated
    for got, want, eq, tag in ((rows_of(d.A_ub, d.b_ub), want_ub, False, "A_ub"), (rows_of(d.A_eq, d.b_eq), want_eq, True, "A_eq")):
        got = [g for g in got if g is not None]
        want = [w for w in want if w is not None]
        if len(got) != len(want):
            return f"{tag}: {len(got)} non-trivial rows vs {len(want)}"
        rest = list(want)
        for g in got:
            hit = next((k for k, w in enumerate(rest) if same_row(g, w, eq)), None)
            if hit is None:
                return f"{tag}: extracted row {g} is not a (scaled) row of the model"
            rest.pop(hit)
    return None


def solve_one(P, method):
    with warnings.catch_warnings():
        warnings.simplefilter("ignore")
        return P.solve(method=method)


def close_obj(a, b):
    if a is None or b is None:
        return a is None and b is None
    return abs(a - b) <= 1e-7 * (1 + abs(b))


def check_model(rng, m, rep, lines, metas, methods):
    """solve through optyx with each method (twice), compare with the reference; queue Lean lines"""
    try:
        P, x, ys, styles = build_problem(rng, m)
    except Exception as ex:  # noqa: BLE001
        rep.oracle_failures.append({"what": f"building the model raised {type(ex).__name__}: {ex}"[:300], "model": m})
        return
    for st in styles:
        rep.histogram["style:" + st] = rep.histogram.get("style:" + st, 0) + 1
    # solver-independent oracle: what the extractor produces is, exactly, the model that was written
    names = [v.name for v in block_elems(x)] + [y.name for y in ys]
    try:
        from optyx.analysis import LinearProgramExtractor
        with warnings.catch_warnings():
            warnings.simplefilter("ignore")
            d0 = LinearProgramExtractor().extract(P)
        err = lpdata_vs_model(m, d0, names)
    except Exception as ex:  # noqa: BLE001
        err = None if m.get("layout") == "collide" else f"extract raised {type(ex).__name__}: {ex}"[:200]
    rep.evaluations += 1
    if err:
        rep.oracle_failures.append({"what": "the extracted LP is not the model that was written: " + err, "model": m,
                                    "styles": styles})
    if m.get("extreme"):
        rep.histogram["extreme-magnitude models (exact extraction oracle only)"] = \
            rep.histogram.get("extreme-magnitude models (exact extraction oracle only)", 0) + 1
        return
    ref_status, ref_obj = reference(m)
    rep.histogram["ref:" + ref_status] = rep.histogram.get("ref:" + ref_status, 0) + 1
    if ref_status not in ("OPTIMAL", "INFEASIBLE", "UNBOUNDED"):
        rep.skipped["reference-" + ref_status] = rep.skipped.get("reference-" + ref_status, 0) + 1
        return
    for method in methods:
        for attempt in (1, 2):
            with LinprogSpy() as spy:
                try:
                    s = solve_one(P, method)
                except Exception as ex:  # noqa: BLE001
                    rep.oracle_failures.append({"what": f"solve(method={method}) raised {type(ex).__name__}: {ex}"[:300],
                                                "model": m, "method": method})
                    break
            rep.evaluations += 1
            got_status = s.status.name
            ref_m_status, ref_m_obj = (ref_status, ref_obj) if method in ("auto", "linprog", "highs") else \
                reference(m, method)
            if ref_m_status not in ("OPTIMAL", "INFEASIBLE", "UNBOUNDED"):
                rep.skipped["reference-" + ref_m_status] = rep.skipped.get("reference-" + ref_m_status, 0) + 1
                continue
            ok = got_status == ref_m_status and (got_status != "OPTIMAL" or close_obj(s.objective_value, ref_m_obj))
            if not ok and gave_up_on_these_rows(spy):
                # the LP solver itself reported numerical difficulties / an iteration limit on the (equivalent but
                # differently scaled or ordered) rows optyx handed it: optyx reports that faithfully (lpStatus_table);
                # the verdict of the model is then unknown, not wrong
                rep.skipped["solver-numerical-status"] = rep.skipped.get("solver-numerical-status", 0) + 1
                ok = True
            if not ok:
                rep.oracle_failures.append({
                    "what": "optyx and the independently assembled LP disagree",
                    "model": m, "method": method, "attempt": attempt,
                    "optyx": [got_status, s.objective_value], "reference": [ref_m_status, ref_m_obj]})
            if len(spy.calls) != 1:
                rep.corr_mismatches.append({"what": f"expected exactly one linprog call, saw {len(spy.calls)}",
                                            "model": m, "method": method})
                continue
            kw, res = spy.calls[0]
            d = P._lp_cache
            dt = lpdata_text(d)
            mt = "none" if method in ("auto", "linprog") else q(method)
            lines.append(f"lpargs {dt} {mt}")
            metas.append(("args", args_text(kw), m, method))
            xs = "none" if res.x is None else opt_vec(res.x)
            fn = "none" if res.fun is None else rat(res.fun)
            lines.append(f"lppost {dt} ({'true' if res.success else 'false'} {int(res.status)} {xs} {fn})")
            metas.append(("post", s, m, method))
    # ---- editing the same Problem and solving again ("on repeated solves"): flip the orientation by
    #      re-submitting the SAME objective object, or add one more constraint; the model is re-extracted
    #      from the same expression / constraint objects and must still be the model the user wrote
    if rng.random() < 0.5:
        m2 = dict(m)
        if rng.random() < 0.6:
            m2["is_max"] = not m["is_max"]
            (P.maximize if m2["is_max"] else P.minimize)(P.objective)
            edit = "flip-sense-same-objective-object"
        else:
            a = [float(rng.randint(-1, 2)) for _ in m["c"]]
            if not any(a):
                a[0] = 1.0
            rhs = float(rng.randint(2, 14))
            m2["rows"] = list(m["rows"]) + [(a, "<=", rhs)]
            elems = block_elems(x) + list(ys)
            lhs = None
            for ai, v in zip(a, elems):
                if ai != 0:
                    lhs = ai * v if lhs is None else lhs + ai * v
            P.subject_to(lhs <= rhs)
            edit = "add-constraint"
        rep.histogram["edit:" + edit] = rep.histogram.get("edit:" + edit, 0) + 1
        ref2_status, ref2_obj = reference(m2)
        if ref2_status in ("OPTIMAL", "INFEASIBLE", "UNBOUNDED"):
            for method in ["auto", rng.choice(METHODS)]:
                try:
                    with LinprogSpy() as spy2:
                        s2 = solve_one(P, method)
                except Exception as ex:  # noqa: BLE001
                    rep.oracle_failures.append({"what": f"re-solve after {edit} raised {type(ex).__name__}: {ex}"[:300],
                                                "model": m, "edited_model": m2, "method": method})
                    break
                rep.evaluations += 1
                rs, ro = (ref2_status, ref2_obj) if method in ("auto", "linprog", "highs") else reference(m2, method)
                if rs not in ("OPTIMAL", "INFEASIBLE", "UNBOUNDED"):
                    continue
                if not (s2.status.name == rs and (rs != "OPTIMAL" or close_obj(s2.objective_value, ro))) and gave_up_on_these_rows(spy2):
                    rep.skipped["solver-numerical-status"] = rep.skipped.get("solver-numerical-status", 0) + 1
                elif not (s2.status.name == rs and (rs != "OPTIMAL" or close_obj(s2.objective_value, ro))):
                    rep.oracle_failures.append({
                        "what": f"after {edit} on the same Problem, optyx and the independently assembled LP disagree",
                        "model": m, "edited_model": m2, "edit": edit, "method": method,
                        "optyx": [s2.status.name, s2.objective_value], "reference": [rs, ro]})
    key = (tuple(m["c"]), m["is_max"], tuple((tuple(a), s, r) for a, s, r in m["rows"]), tuple(m["bounds"]))
    if m["rows"]:
        rep.nontrivial.add(hash(key))
    if len(rep.samples) < 4:
        rep.samples.append({"model": m, "styles": styles, "reference": [ref_status, ref_obj]})


def compare_lean(rep, lines, metas):
    outs = core.run_lean(lines)
    for (kind, real, m, method), model in zip(metas, outs):
        if kind == "args":
            if real != model:
                rep.corr_mismatches.append({"what": "linprog keyword arguments differ from Py.lpArgs",
                                            "impl": real[:400], "model": model[:400], "method": method, "lp": m})
        else:
            s = real
            parts = model.split(" ", 2)
            st_model = parts[0]
            obj_model = parts[1][4:]
            vals_model = parts[2][7:]
            ok = st_model == s.status.name
            if obj_model == "none":
                ok = ok and s.objective_value is None
            else:
                ok = ok and s.objective_value is not None and \
                    abs(float(Fraction(obj_model)) - s.objective_value) <= 1e-12 * (1 + abs(s.objective_value))
            vals_real = "(" + " ".join(f"({q(k)} {rat(v)})" for k, v in s.values.items()) + ")"
            ok = ok and vals_real == vals_model
            if not ok:
                rep.corr_mismatches.append({"what": "Solution differs from Py.lpPost", "impl": [s.status.name, s.objective_value, vals_real[:200]],
                                            "model": model[:400], "method": method, "lp": m})



# ------------------------------------------------------------------ solver keyword arguments in EARLIER solves


DEFINITE = ("OPTIMAL", "INFEASIBLE", "UNBOUNDED")
_TOLS = [1e-2, 1e-3, 1e-5]


def gen_solver_kwargs(rng):
    """one `Problem.solve(**kwargs)` event: (class, kwargs, how the solve ITSELF is judged).
    limit / tolerance / rejected: the solve itself is not judged (only what follows);  harmless: it must equal the
    plain reference;  override: it must equal the reference given the same keyword (uniform over the columns)."""
    cls = rng.choice(["limit", "limit", "limit", "tolerance", "harmless", "harmless", "harmless-kw", "override",
                      "rejected", "rejected", "rejected+options"])
    if cls == "limit":
        o = rng.choice([{"maxiter": 0}, {"maxiter": 1}, {"maxiter": 1}, {"maxiter": 2}, {"time_limit": 0.0},
                        {"time_limit": 1e-12}, {"maxiter": 1, "presolve": False}, {"maxiter": 0, "time_limit": 0.0},
                        {"presolve": True, "maxiter": 1, "disp": False}])
        return cls, {"options": dict(o)}, None
    if cls == "tolerance":
        names = ["primal_feasibility_tolerance", "dual_feasibility_tolerance", "ipm_optimality_tolerance"]
        o = {k: rng.choice(_TOLS) for k in rng.sample(names, rng.randint(1, 3))}
        return cls, {"options": o}, None
    if cls == "harmless":
        o = rng.choice([{}, None, {"presolve": False}, {"presolve": True}, {"disp": False}, {"maxiter": 10 ** 6},
                        {"time_limit": 1e6}, {"presolve": False, "disp": False, "maxiter": 10 ** 7}])
        return cls, {"options": None if o is None else dict(o)}, "plain"
    if cls == "harmless-kw":
        return cls, dict(rng.choice([{"x0": None}, {"callback": None}, {"integrality": 0},
                                     {"callback": None, "options": {"presolve": False}}])), "plain"
    if cls == "override":
        kw = rng.choice([{"integrality": 1}, {"bounds": (0.0, 1.0)}, {"bounds": (-1.0, 2.0)}, {"bounds": (0.0, None)},
                         {"bounds": (0.0, 4.0), "options": {"presolve": False}}])
        return cls, {k: (dict(v) if isinstance(v, dict) else v) for k, v in kw.items()}, "same-kwargs"
    if cls == "rejected":
        # keywords scipy.optimize.linprog does not have (today: the TypeError becomes a FAILED Solution)
        return cls, dict(rng.choice([{"maxiter": 1}, {"maxiter": 0}, {"maxiter": 2}, {"tol": 1e-3}, {"time_limit": 0.0},
                                     {"presolve": False}, {"iterations": 1}, {"max_iter": 1}, {"foo": 1},
                                     {"maxiter": 1, "tol": 1e-2}])), None
    return cls, {rng.choice(["maxiter", "tol", "foo"]): 1, "options": {rng.choice(["maxiter", "presolve"]): 0}}, None


def gen_packing_model(rng):
    """a dense packing LP (6–9 columns, 4–7 rows, positive integer data, maximise; min form: covering): always
    OPTIMAL, well conditioned, and — unlike most 1–6 column models, which presolve finishes alone — it needs several
    simplex / interior-point iterations, so an iteration or time budget that does not belong to the solve shows"""
    n1 = rng.randint(5, 8)
    n2 = rng.randint(0, 1)
    n = n1 + n2
    k = rng.randint(4, 7)
    cover = rng.random() < 0.3
    rows = [([float(rng.randint(1, 6)) for _ in range(n)], ">=" if cover else "<=", float(rng.randint(12, 40)))
            for _ in range(k)]
    return {"n1": n1, "n2": n2, "bounds": [(0.0, None)] * n, "c": [float(rng.randint(1, 9)) for _ in range(n)],
            "c0": rng.choice([0.0, 4.0, -1.5]), "is_max": not cover, "rows": rows, "layout": "vector", "extreme": False}


_PROCESS_KEYWORD_SOLVES = []      # every keyword solve this process has made so far (part of a failing input)


class quiet_fds:
    """HiGHS reports a reached iteration / time limit on the C-level stdout: keep the check's output clean"""

    def __enter__(self):
        import os
        import sys
        self.os = os
        for st in (sys.stdout, sys.stderr):
            try:
                st.flush()
            except Exception:  # noqa: BLE001
                pass
        self.saved = [(fd, os.dup(fd)) for fd in (1, 2)]
        self.null = os.open(os.devnull, os.O_WRONLY)
        for fd, _ in self.saved:
            os.dup2(self.null, fd)
        return self

    def __exit__(self, *a):
        for fd, keep in self.saved:
            self.os.dup2(keep, fd)
            self.os.close(keep)
        self.os.close(self.null)
        return False


def frozen(o):
    """a value that is equal iff the object is bit-identical (types included), for the dicts a caller hands in"""
    if isinstance(o, dict):
        return ("dict", tuple((frozen(k), frozen(v)) for k, v in o.items()))
    if isinstance(o, (list, tuple)):
        return (type(o).__name__, tuple(frozen(v) for v in o))
    if isinstance(o, np.ndarray):
        return ("ndarray", str(o.dtype), o.shape, o.tobytes())
    return (type(o).__name__, repr(o))


def jsonable(o):
    if isinstance(o, dict):
        return {str(k): jsonable(v) for k, v in o.items()}
    if isinstance(o, (list, tuple)):
        return [jsonable(v) for v in o]
    return o if isinstance(o, (int, float, str, bool, type(None))) else repr(o)


def _same(status, obj, rs, ro, tol=1e-7):
    return status == rs and (rs != "OPTIMAL" or (obj is not None and ro is not None and abs(obj - ro) <= tol * (1 + abs(ro))))


def option_history(rng, rep, hseed=None):
    """ONE history in one process: a pool of 2–3 independent LPs (some already solved plainly: warm caches, some
    built but never solved), then 1–3 rounds of
        an earlier solve WITH solver keyword arguments on one of them (any method; the kwargs dict and the options
        dict are objects the caller keeps: they must be bit-identical afterwards; sometimes the caller then edits or
        re-uses its own options dict)
        → PLAIN solves of every Problem of the pool (the one that got the keywords, the unrelated ones) and of a
          freshly built one: each must equal the independently assembled reference of ITS model.
    A give-up (status 1 / 4) of a plain solve is excused only if the same arrays handed directly to linprog give up too."""
    def fail(what, **more):
        f = {"what": what, "family": "option-history", "hseed": hseed, "history": list(log),
             "keyword_solves_of_earlier_histories_in_this_process": _PROCESS_KEYWORD_SOLVES[:-n_own[0] or None][-12:]}
        f.update(more)
        rep.oracle_failures.append(f)

    log = []
    n_own = [0]
    pool = []
    tries = 0
    n_pool = rng.choice([2, 3, 3])
    packing_at = rng.randrange(n_pool)
    while len(pool) < n_pool and tries < 40:
        tries += 1
        m = gen_packing_model(rng) if len(pool) == packing_at else gen_model(rng)
        if m.get("extreme"):
            continue
        if reference(m)[0] not in DEFINITE:
            continue
        try:
            P, x, ys, _ = build_problem(rng, m)
        except Exception:  # noqa: BLE001  (reported by the main family)
            continue
        pool.append({"m": m, "P": P, "refs": {}, "tag": f"P{len(pool)}"})

    def ref_of(e, method):
        hm = method if method.startswith("highs") else "highs"
        if hm not in e["refs"]:
            e["refs"][hm] = reference(e["m"], hm)
        return e["refs"][hm]

    def plain(e, method, where):
        with LinprogSpy() as spy:
            try:
                s = solve_one(e["P"], method)
            except Exception as ex:  # noqa: BLE001
                fail(f"plain solve(method={method}) {where} raised {type(ex).__name__}: {ex}"[:300], model=e["m"], method=method)
                return False
        rep.evaluations += 1
        log.append({"plain-solve": e["tag"], "method": method, "got": [s.status.name, s.objective_value]})
        rs, ro = ref_of(e, method)
        if rs not in DEFINITE:
            rep.skipped["reference-" + rs] = rep.skipped.get("reference-" + rs, 0) + 1
            return True
        if _same(s.status.name, s.objective_value, rs, ro):
            return True
        if gave_up_on_these_rows(spy):
            rep.skipped["solver-numerical-status"] = rep.skipped.get("solver-numerical-status", 0) + 1
            return True
        extra_kw = sorted(k for c_ in spy.calls for k in c_[0] if k not in SEAM_KEYS)
        fail(f"a PLAIN solve {where} disagrees with the independently assembled LP of its own model",
             model=e["m"], problem=e["tag"], method=method, optyx=[s.status.name, s.objective_value], reference=[rs, ro],
             keywords_seen_at_the_linprog_seam_besides_the_model=extra_kw)
        return False

    # stage 0: nothing special has happened yet; warm some caches
    for e in pool:
        if rng.random() < 0.6:
            if not plain(e, rng.choice(METHODS), "before any keyword was passed"):
                return
        else:
            log.append({"built-not-solved": e["tag"]})
    kept = None                                   # an options dict the caller still holds from an earlier round
    for rnd in range(rng.randint(1, 3)):
        cls, kwargs, judge = gen_solver_kwargs(rng)
        if kept is not None and rng.random() < 0.3:
            cls, kwargs, judge = "reused-options-object", {"options": kept}, None
        tgt = rng.choice(pool)
        method = rng.choice(METHODS)
        rep.histogram["solver-kwargs:" + cls] = rep.histogram.get("solver-kwargs:" + cls, 0) + 1
        od = kwargs.get("options")
        before = frozen(kwargs)
        kw_text = ", ".join(k + "=" + repr(v) for k, v in kwargs.items())
        log.append({"solve-with-keywords": tgt["tag"], "method": method, "kwargs": jsonable(kwargs), "class": cls})
        _PROCESS_KEYWORD_SOLVES.append({"history": hseed, "method": method, "kwargs": jsonable(kwargs)})
        n_own[0] += 1
        s = None
        try:
            with warnings.catch_warnings(), quiet_fds():
                warnings.simplefilter("ignore")
                s = tgt["P"].solve(method=method, **kwargs)
            log[-1]["got"] = [s.status.name, s.objective_value]
        except Exception as ex:  # noqa: BLE001  (whether such a keyword is refused loudly is not C08's business)
            log[-1]["raised"] = type(ex).__name__
            rep.histogram["solver-kwargs: raised"] = rep.histogram.get("solver-kwargs: raised", 0) + 1
        rep.evaluations += 1
        if frozen(kwargs) != before or kwargs.get("options") is not od:
            fail("Problem.solve(**kwargs) changed the kwargs / options objects of its caller",
                 model=tgt["m"], method=method, kwargs_before=repr(before)[:300], kwargs_after=jsonable(kwargs))
            return
        if s is not None and judge is not None:
            hm = method if method.startswith("highs") else "highs"
            if judge == "plain":
                rs, ro = ref_of(tgt, method)
                tol = 1e-7
            else:
                rs, ro = reference(tgt["m"], hm, extra={k: v for k, v in kwargs.items() if k != "options"})
                tol = 2e-4 if "integrality" in kwargs else 1e-7     # a MILP stops within mip_rel_gap = 1e-4
            # judged only where the LP (given the same model-changing keywords) has a finite optimum: with presolve
            # switched off HiGHS may answer UNBOUNDED for a model that is both primal and dual infeasible
            if rs == "OPTIMAL" and s.status.name not in ("MAX_ITERATIONS", "FAILED") and \
                    not _same(s.status.name, s.objective_value, rs, ro, tol):
                fail(f"solve with {cls} keywords disagrees with the independently assembled LP given the same keywords",
                     model=tgt["m"], method=method, kwargs=jsonable(kwargs), optyx=[s.status.name, s.objective_value],
                     reference=[rs, ro])
                return
        if isinstance(od, dict):
            kept = od
            r = rng.random()
            if r < 0.35:                           # the caller goes on using ITS dict for something else
                od["maxiter"] = rng.choice([0, 1])
                log.append({"caller-edits-its-options-dict": jsonable(od)})
            elif r < 0.5:
                od.clear(); od["time_limit"] = 0.0
                log.append({"caller-edits-its-options-dict": jsonable(od)})
        # ---- afterwards: plain solves, every Problem of the pool and a fresh one
        fresh_m = rng.choice(pool)
        try:
            Pf = build_problem(rng, fresh_m["m"])[0]
        except Exception:  # noqa: BLE001
            Pf = None
        todo = list(pool)
        rng.shuffle(todo)
        if Pf is not None:
            todo.insert(rng.randint(0, len(todo)), {"m": fresh_m["m"], "P": Pf, "refs": fresh_m["refs"],
                                                    "tag": "fresh-copy-of-" + fresh_m["tag"]})
        for e in todo:
            for mth in (["auto", rng.choice(METHODS)] if e is tgt or rng.random() < 0.5 else [rng.choice(METHODS)]):
                if not plain(e, mth, f"after solve({kw_text}, method={method!r}) "
                                     f"on {'the same' if e is tgt else 'another'} Problem"):
                    return
    rep.nontrivial.add(("option-history", hseed))


def option_histories(rng, rep, n_hist):
    done = []
    for _ in range(n_hist):
        hseed = rng.randrange(1 << 40)
        before = len(rep.oracle_failures)
        option_history(core.Rng(hseed), rep, hseed)
        rep.histogram["option-history"] = rep.histogram.get("option-history", 0) + 1
        if len(rep.oracle_failures) > before:
            # state left behind by EARLIER histories of this process is part of the input
            rep.oracle_failures[before]["earlier_histories_of_the_process"] = list(done)
            return                                  # everything after a leak is contaminated: one concrete input is enough
        done.append(hseed)


# ------------------------------------------------------------------ sibling models on SHARED objects, shifting layouts


_BEFORE = ["a", "aux", "b2", "cap", "K", "W0"]                 # sort before every container base name used below
_AFTER = ["y", "z1", "yield", "zeta", "y10", "z"]              # sort after them


def _aux_name(rng, pos, base, elem_names):
    """a scalar name that sorts before / after / INSIDE the span of the container's element names"""
    if pos == "before":
        return rng.choice(_BEFORE + [base])                      # the bare base name sorts before "base[0]"
    if pos == "after":
        return rng.choice(_AFTER + [base + "s", base + "_"])     # base + letter sorts after "base[…"
    return rng.choice(elem_names[:-1] or elem_names) + rng.choice(["s", "_lo", "b"])   # between two elements


class SharedObjects:
    """everything the sibling models of ONE history share: the container (VectorVariable / MatrixVariable), its
    scalar Variables, view objects made once, expression nodes (c @ x, x @ c, k·x.sum(), (x**1).sum(), per-view
    combinations, scalar chains) made once per (coefficients, style) and handed out again, and Constraint objects of
    an `A @ x <= b` block made once"""

    def __init__(self, rng, kind, base, shape, xb):
        from optyx import MatrixVariable, VectorVariable

        self.kind, self.base, self.xb = kind, base, xb
        if kind == "matrix":
            self.x = MatrixVariable(base, shape[0], shape[1], lb=xb[0], ub=xb[1])
        else:
            self.x = VectorVariable(base, shape, lb=xb[0], ub=xb[1])
        self.elems = block_elems(self.x)
        self.n1 = len(self.elems)
        self.names = [v.name for v in self.elems]
        self.views = block_views(rng, self.x, self.n1)           # view OBJECTS kept for the whole history
        self.nodes = {}
        self.block = None

    def styles(self, f):
        st = ["views", "chain"]
        if self.kind == "vector":
            st += ["lc", "lc", "lc_right"]
            if len(set(f)) == 1 and f[0] != 0:
                st += ["sum", "powersum"]
        return st

    def node(self, rng, f):
        """Σ f·x as one expression OBJECT, the same object on every request for the same (f, style)"""
        style = rng.choice(self.styles(f))
        key = (tuple(f), style)
        if key not in self.nodes:
            x = self.x
            if style == "lc":
                e = arr(rng, f) @ x
            elif style == "lc_right":
                e = x @ arr(rng, f)
            elif style == "sum":
                e = x.sum() if f[0] == 1 else f[0] * x.sum()
            elif style == "powersum":
                e = (x ** 1).sum() if f[0] == 1 else (x ** 1).sum() * f[0]
            elif style == "views":
                e = None
                for view, cols in self.views:
                    ac = [f[j] for j in cols]
                    t = ac[0] * view.sum() if len(set(ac)) == 1 and ac[0] != 0 and rng.random() < 0.5 \
                        else np.array(ac) @ view
                    e = t if e is None else e + t
            else:
                e = None
                for a, v in zip(f, self.elems):
                    if a != 0:
                        e = a * v if e is None else e + a * v
                if e is None:
                    e = 0.0 * self.elems[0]
            self.nodes[key] = e
        return self.nodes[key], style

    def xpart(self, rng, f, k, used):
        """k · Σ f·x: a shared node or a fresh expression on the shared container"""
        kf = [k * a for a in f]
        if rng.random() < 0.55:
            e, style = self.node(rng, f)
            used.append("shared-node:" + style)
            if k == 1:
                return e
            if k == -1:
                return -e if rng.random() < 0.5 else -1 * e
            return k * e if rng.random() < 0.6 else e * k
        if rng.random() < 0.5:
            e, style = self.node(rng, kf)
            used.append("shared-node:" + style)
            return e
        style = rng.choice(["lc", "lc_right", "sum", "views", "chain", "scaled_vec", "lc_shift"])
        used.append("fresh:" + style)
        return write_linear(rng, kf, self.x, [], style)

    def block_constraints(self, rng, A, b, fresh):
        """`A @ x <= b` (vector container): the SAME Constraint objects for every sibling unless `fresh`"""
        if fresh or self.block is None:
            cons = arr(rng, A) @ self.x <= np.array(b)
            cons = list(cons) if isinstance(cons, (list, tuple)) else [cons]
            if fresh:
                return cons
            self.block = cons
        return self.block


def gen_shared_history(rng):
    """abstract data of one history: a container, 3–5 coefficient forms on it, a feasibility point, an x-only block,
    and 2–3 sibling models; each model = the container's columns + its OWN auxiliary scalars (names sorting before /
    after / inside the container's span; the siblings' position patterns differ, their counts are mostly equal)"""
    kind = rng.choice(["vector", "vector", "vector", "matrix"])
    if kind == "matrix":
        base, shape = "m", rng.choice([(2, 2), (2, 3), (3, 2)])
        n1 = shape[0] * shape[1]
    else:
        base, shape = rng.choice(["x", "x", "p"]), rng.choice([2, 3, 3, 4, 4, 5, 6, 11])
        n1 = shape
    xb = rng.choice([(0.0, None), (0.0, None), (0.0, 10.0), (-2.0, 5.0), (0.0, 4.0)])
    forms = []
    for _ in range(rng.randint(3, 5)):
        if rng.random() < 0.25:
            f = [float(rng.choice([1, 1, 2, 3]))] * n1
        else:
            f = [float(rng.randint(-2, 4)) for _ in range(n1)]
            if not any(f):
                f[rng.randrange(n1)] = 1.0
        forms.append(f)
    lo = xb[0] if xb[0] is not None else -3.0
    hi = xb[1] if xb[1] is not None else 6.0
    pt = [float(rng.randint(int(lo), int(hi))) for _ in range(n1)]
    blk = rng.sample(range(len(forms)), rng.randint(2, min(3, len(forms))))
    block = ([forms[i] for i in blk], [sum(a * v for a, v in zip(forms[i], pt)) + rng.randint(0, 4) for i in blk])
    k_common = rng.choice([1, 1, 1, 2, 2])
    patterns = {1: [("before",), ("after",), ("inside",)],
                2: [("before", "before"), ("before", "after"), ("after", "after"), ("inside", "after"),
                    ("before", "inside")]}[k_common]
    n_sib = rng.choice([2, 2, 3])
    pats = rng.sample(patterns, min(n_sib, len(patterns)))
    sibs = []
    for i in range(n_sib):
        pat = list(pats[i % len(pats)])
        if rng.random() < 0.15:                                 # contrast: a sibling with another number of columns
            pat = [rng.choice(["before", "after", "inside"]) for _ in range(rng.choice([0, 1, 2, 3]))]
        sibs.append({"pattern": pat})
    return {"kind": kind, "base": base, "shape": shape, "n1": n1, "xb": xb, "forms": forms, "pt": pt, "block": block,
            "sibs": sibs}


_AUX_BOUNDS = [(1.0, 5.0), (0.0, 3.0), (-2.0, 4.0), (0.0, 1.0), (1.0, 5.0)]


def _new_aux(rng, h, so, pattern, taken):
    from optyx import Variable

    out = []
    for pos in pattern:
        for _ in range(50):
            nm = _aux_name(rng, pos, h["base"], so.names)
            if nm not in taken and nm not in so.names:
                break
        else:
            nm = f"{pos}{len(taken)}"
        taken.add(nm)
        lb, ub = rng.choice(_AUX_BOUNDS)
        out.append({"name": nm, "var": Variable(nm, lb=lb, ub=ub), "bounds": (lb, ub), "pos": pos})
    return out


def _aux_terms(rng, e, coeffs, aux):
    for d, a in zip(coeffs, aux):
        if d == 0:
            continue
        r = rng.random()
        if d == -1 and r < 0.5:
            e = e - a["var"]
        elif d == 1 and r < 0.5:
            e = e + a["var"] if rng.random() < 0.7 else a["var"] + e
        else:
            e = e + d * a["var"] if r < 0.8 else d * a["var"] + e
    return e


def _pick_form(rng, h):
    i = rng.randrange(len(h["forms"]))
    return i, rng.choice([1, 1, -1, 2, 3, -2])


def _write_objective(rng, h, so, sib, used):
    """(re-)declare the sibling's objective from its abstract data: k·(form on the container) + own scalars + c0"""
    e = so.xpart(rng, h["forms"][sib["obj_form"]], sib["obj_k"], used)
    e = _aux_terms(rng, e, sib["c_con"], sib["con_aux"])
    e = _aux_terms(rng, e, sib["c_obj"], sib["obj_aux"])
    if sib["c0"] != 0:
        e = e + sib["c0"]
    P = sib["P"]
    (P.maximize if sib["is_max"] else P.minimize)(e)


def _gen_objective(rng, h, sib):
    sib["obj_form"], sib["obj_k"] = _pick_form(rng, h)
    sib["c_con"] = [float(rng.choice([-2, -1, 0, 1, 2])) for _ in sib["con_aux"]]
    sib["c_obj"] = [float(rng.choice([-3, -2, -1, 1, 2, 3])) for _ in sib["obj_aux"]]
    sib["c0"] = rng.choice([0.0, 0.0, 5.0, -2.5])
    sib["is_max"] = rng.random() < 0.5


def build_sibling(rng, h, so, sib, used):
    """one sibling Problem on the shared container; fills the sibling's abstract data (its model)"""
    from optyx import Problem

    taken = set()
    aux = _new_aux(rng, h, so, sib["pattern"], taken)
    n_con = rng.randint(0, len(aux)) if rng.random() < 0.5 else 0      # scalars that also occur in constraint rows
    rng.shuffle(aux)
    sib["con_aux"], sib["obj_aux"] = aux[:n_con], aux[n_con:]
    sib["taken"] = taken
    sib["P"] = P = Problem()
    _gen_objective(rng, h, sib)
    _write_objective(rng, h, so, sib, used)
    sib["rows"] = []                                            # (form index, k, aux coefficients on con_aux, sense, rhs)
    sib["block"] = kindblock = h["kind"] == "vector" and rng.random() < 0.6
    if kindblock:
        for c_ in so.block_constraints(rng, h["block"][0], h["block"][1], fresh=rng.random() < 0.4):
            P.subject_to(c_)
        used.append("block")
    pt_aux = [float(rng.randint(int(a["bounds"][0]), int(a["bounds"][1]))) for a in sib["con_aux"]]
    for _ in range(rng.randint(0 if kindblock else 1, 3)):
        fi, k = _pick_form(rng, h)
        d = [float(rng.choice([-2, -1, 0, 1, 1, 2])) for _ in sib["con_aux"]]
        sense = rng.choice(["<=", "<=", ">=", "=="])
        val = k * sum(a * v for a, v in zip(h["forms"][fi], h["pt"])) + sum(a * v for a, v in zip(d, pt_aux))
        if rng.random() < 0.8:
            rhs = val + (rng.randint(0, 3) if sense == "<=" else -rng.randint(0, 3) if sense == ">=" else 0)
        else:
            rhs = float(rng.randint(-6, 12))
        rhs = float(rhs)
        sib["rows"].append((fi, k, d, sense, rhs))
        lhs = so.xpart(rng, h["forms"][fi], k, used)
        form = rng.random()
        if form < 0.5 or not any(d):
            lhs = _aux_terms(rng, lhs, d, sib["con_aux"])
            con = (lhs <= rhs) if sense == "<=" else (lhs >= rhs) if sense == ">=" else lhs.eq(rhs)
        elif form < 0.75:
            lhs = _aux_terms(rng, lhs, d, sib["con_aux"]) - rhs
            con = (lhs <= 0) if sense == "<=" else (lhs >= 0) if sense == ">=" else lhs.eq(0)
        else:                                                   # the scalars on the right-hand side
            rh = None
            for dv, a_ in zip(d, sib["con_aux"]):
                if dv != 0:
                    rh = (-dv) * a_["var"] if rh is None else rh + (-dv) * a_["var"]
            rh = rh + rhs if rng.random() < 0.6 else rhs + rh
            con = (lhs <= rh) if sense == "<=" else (lhs >= rh) if sense == ">=" else lhs.eq(rh)
        P.subject_to(con)


def sibling_model(h, sib):
    """the sibling's model as plain numbers, columns = container elements, then its own scalars — assembled from
    the generator's abstract data only"""
    n1 = h["n1"]
    aux = sib["con_aux"] + sib["obj_aux"]
    nc, no = len(sib["con_aux"]), len(sib["obj_aux"])
    c = [sib["obj_k"] * a + 0.0 for a in h["forms"][sib["obj_form"]]] + list(sib["c_con"]) + list(sib["c_obj"])
    rows = []
    if sib["block"]:
        for f, r in zip(*h["block"]):
            rows.append((list(f) + [0.0] * (nc + no), "<=", float(r)))
    for fi, k, d, sense, rhs in sib["rows"]:
        rows.append(([k * a + 0.0 for a in h["forms"][fi]] + list(d) + [0.0] * no, sense, rhs))
    return {"n1": n1, "n2": nc + no, "c": c, "c0": sib["c0"], "is_max": sib["is_max"], "rows": rows,
            "bounds": [tuple(h["xb"])] * n1 + [a["bounds"] for a in aux], "layout": "shared", "extreme": False,
            "aux_names": [a["name"] for a in aux]}


def shared_history(rng, rep, hseed=None):
    """ONE history: 2–3 sibling Problems over the SAME container object (and the same views, expression nodes,
    Constraint objects, scalar Variables), each with its own auxiliary scalars so that the container's columns sit
    at DIFFERENT places of layouts with (mostly) the SAME number of columns; then an interleaving of
        solve (any LP method) / public LinearProgramExtractor().extract / re-declare the objective of one Problem so
        that its objective-only scalars leave and others enter (same count, other positions) / flip the sense with
        the same objective object.
    Every solve is judged against the independently assembled LP of ITS model (verdict and objective value), every
    extraction against the abstract model, exactly."""
    from optyx.analysis import LinearProgramExtractor

    log = []

    def fail(what, sib, **more):
        m = sibling_model(h, sib)
        f = {"what": what, "family": "shared-layout", "hseed": hseed, "container": [h["kind"], h["base"], h["shape"]],
             "sibling": sib["tag"], "columns": so.names + m["aux_names"], "model": m, "history": list(log)}
        f.update(more)
        rep.oracle_failures.append(f)

    h = gen_shared_history(rng)
    so = SharedObjects(rng, h["kind"], h["base"], h["shape"], h["xb"])
    used = []
    sibs = h["sibs"]
    for i, sib in enumerate(sibs):
        sib["tag"] = f"S{i}"
    lazy = rng.random() < 0.4
    built = set()

    def ensure(sib):
        if sib["tag"] not in built:
            build_sibling(rng, h, so, sib, used)
            built.add(sib["tag"])
            log.append({"build": sib["tag"], "own scalars": [a["name"] for a in sib["con_aux"] + sib["obj_aux"]]})

    if not lazy:
        for sib in rng.sample(sibs, len(sibs)):
            ensure(sib)

    def extract(sib):
        m = sibling_model(h, sib)
        try:
            with warnings.catch_warnings():
                warnings.simplefilter("ignore")
                d = LinearProgramExtractor().extract(sib["P"])
            err = lpdata_vs_model(m, d, so.names + m["aux_names"])
        except Exception as ex:  # noqa: BLE001
            err = f"extract raised {type(ex).__name__}: {ex}"[:200]
        rep.evaluations += 1
        log.append({"extract": sib["tag"]})
        if err:
            fail("the LP extracted from a Problem that shares its vector / matrix with sibling Problems is not the "
                 "model that was written: " + err, sib)
            return False
        return True

    def solve(sib, method):
        m = sibling_model(h, sib)
        hm = method if method.startswith("highs") else "highs"
        rs, ro = reference(m, hm)
        with LinprogSpy() as spy:
            try:
                s = solve_one(sib["P"], method)
            except Exception as ex:  # noqa: BLE001
                fail(f"solve(method={method}) raised {type(ex).__name__}: {ex}"[:300], sib, method=method)
                return False
        rep.evaluations += 1
        log.append({"solve": sib["tag"], "method": method, "got": [s.status.name, s.objective_value]})
        if rs not in DEFINITE:
            rep.skipped["reference-" + rs] = rep.skipped.get("reference-" + rs, 0) + 1
            return True
        rep.histogram["shared-layout ref:" + rs] = rep.histogram.get("shared-layout ref:" + rs, 0) + 1
        if _same(s.status.name, s.objective_value, rs, ro):
            return True
        if {s.status.name, rs} == {"INFEASIBLE", "UNBOUNDED"} and \
                reference(dict(m, c=[0.0] * len(m["c"]), is_max=False, c0=0.0), hm)[0] == "INFEASIBLE":
            # an infeasible model whose objective also has an improving ray: which of the two verdicts HiGHS gives
            # depends on the column order; the exact extraction oracle judges this Problem instead
            rep.skipped["infeasible-with-ray"] = rep.skipped.get("infeasible-with-ray", 0) + 1
            return extract(sib)
        if gave_up_on_these_rows(spy):
            rep.skipped["solver-numerical-status"] = rep.skipped.get("solver-numerical-status", 0) + 1
            return True
        fail("a Problem that shares its vector / matrix (views, expression nodes, constraints) with sibling Problems "
             "of another column layout disagrees with the independently assembled LP of its own model", sib,
             method=method, optyx=[s.status.name, s.objective_value], reference=[rs, ro])
        return False

    def redeclare(sib):
        """the objective-only scalars leave, others enter (mostly the same count, other positions)"""
        old = sib["obj_aux"]
        pat = [rng.choice(["before", "after", "inside"]) for _ in old]
        if rng.random() < 0.2:
            pat = pat[:-1] if pat and rng.random() < 0.5 else pat + [rng.choice(["before", "after"])]
        if old and rng.random() < 0.8 and len(pat) == len(old):
            # deliberately the other side of the container for at least one scalar
            j = rng.randrange(len(old))
            pat[j] = {"before": "after", "after": "before", "inside": rng.choice(["before", "after"])}[old[j]["pos"]]
        taken = set(a["name"] for a in sib["con_aux"]) | set(a["name"] for a in old)
        sib["obj_aux"] = _new_aux(rng, h, so, pat, taken)
        _gen_objective(rng, h, sib)
        _write_objective(rng, h, so, sib, used)
        log.append({"re-declare objective": sib["tag"], "scalars leaving": [a["name"] for a in old],
                    "scalars entering": [a["name"] for a in sib["obj_aux"]]})

    def flip_sense(sib):
        sib["is_max"] = not sib["is_max"]
        P = sib["P"]
        (P.maximize if sib["is_max"] else P.minimize)(P.objective)
        log.append({"flip sense, same objective object": sib["tag"]})

    events = []
    for sib in sibs:
        events.append(("solve", sib))
        if rng.random() < 0.4:
            events.append(("extract", sib))
    for _ in range(rng.randint(2, 5)):
        events.append((rng.choice(["solve", "solve", "extract", "redeclare", "redeclare", "flip"]), rng.choice(sibs)))
    rng.shuffle(events)
    for ev, sib in events:
        ensure(sib)
        if ev == "solve":
            ok = solve(sib, rng.choice(METHODS))
        elif ev == "extract":
            ok = extract(sib)
        else:
            (redeclare if ev == "redeclare" else flip_sense)(sib)
            ok = solve(sib, rng.choice(METHODS)) if rng.random() < 0.7 else extract(sib)
        if not ok:
            return
    # at the end: every sibling once more, both observers
    for sib in rng.sample(sibs, len(sibs)):
        ensure(sib)
        if not (solve(sib, rng.choice(["auto", rng.choice(METHODS)])) and extract(sib)):
            return
    for st in used:
        rep.histogram["shared-layout style:" + st] = rep.histogram.get("shared-layout style:" + st, 0) + 1
    counts = sorted(len(s_["con_aux"]) + len(s_["obj_aux"]) for s_ in sibs)
    rep.histogram["shared-layout siblings with equal column counts"] = \
        rep.histogram.get("shared-layout siblings with equal column counts", 0) + (1 if len(set(counts)) < len(counts) else 0)
    rep.nontrivial.add(("shared-layout", hseed))


def shared_histories(rng, rep, n_hist):
    for _ in range(n_hist):
        hseed = rng.randrange(1 << 40)
        before = len(rep.oracle_failures)
        shared_history(core.Rng(hseed), rep, hseed)
        rep.histogram["shared-layout history"] = rep.histogram.get("shared-layout history", 0) + 1
        if len(rep.oracle_failures) > before:
            return                                  # one concrete input is enough


def run(ctx) -> core.Report:
    rng = ctx["rng"]
    thorough = ctx["tier"] == "thorough" or ctx["escalate"]
    rep = core.Report(rule="abstract LPs (1–4 vector + 0–2 scalar columns, 0–5 rows, all senses, mixed bounds, both "
                           "orientations, constant terms) written through a random mix of API forms; each solved by "
                           "every LP method twice; non-trivial = distinct model with at least one constraint row")
    lines, metas = [], []
    n = 1500 if thorough else 250
    for i in range(n):
        m = gen_model(rng)
        methods = METHODS if (thorough or i % 3 == 0) else [rng.choice(METHODS), "auto"]
        check_model(rng, m, rep, lines, metas, methods)
    compare_lean(rep, lines, metas)
    dtype_cover(rep)
    known_matrix_sum(rep)
    shared_histories(rng, rep, 900 if thorough else 150)
    # last: these solves pass solver options — if anything they pass outlives its call, nothing above is contaminated
    option_histories(rng, rep, 600 if thorough else 100)
    return rep


def _dtype_problem(dt, wname, k, flips, cover, A0, b0, c0v):
    from optyx import Problem, VectorVariable

    x = VectorVariable("x", 3, lb=0, ub=50)
    A = np.array(A0).astype(dt)
    c = np.array(c0v).astype(dt)
    Ax = A @ x
    lhs = {"plain": lambda: Ax, "neg": lambda: -Ax, "right4": lambda: Ax * 4, "div2": lambda: Ax / 2}.get(
        wname, lambda: k * Ax)()
    bk = np.array(b0) * k
    sense = ">=" if cover else "<="        # covering: A x >= b (minimise), packing: A x <= b (maximise)
    s_w = flip(sense) if flips else sense
    obj = c @ x if wname in ("plain", "right4", "div2") else ((k * (c @ x)) if abs(k) != 1 else -(c @ x))
    ksign = 1.0 if wname in ("plain", "right4", "div2") else float(k)
    is_max = (not cover) if ksign > 0 else cover
    P = Problem()
    (P.maximize if is_max else P.minimize)(obj)
    P.subject_to((lhs <= bk) if s_w == "<=" else (lhs >= bk))
    m = {"n1": 3, "n2": 0, "bounds": [(0.0, 50.0)] * 3, "c": [v * ksign for v in c0v], "c0": 0.0,
         "is_max": is_max, "rows": [(a, sense, r) for a, r in zip(A0, b0)], "layout": "vector",
         "extreme": False, "dtype_cover": [dt, wname, cover]}
    return P, x, m


def dtype_cover(rep):
    """numeric types × scalar wrappers, enumerated (not sampled): covering / packing LPs whose constraint matrix and
    cost vector are held in every integer / float dtype that represents them exactly, written as A@x, −(A@x), k·(A@x),
    (A@x)·k, (A@x)/k and c@x, k·(c@x), −(c@x) with k chosen so that k·A overflows the narrow dtypes.  Judged by
    the exact extraction oracle and by the solve differential."""
    from optyx.analysis import LinearProgramExtractor

    A0 = [[1.0, 2.0, 0.0], [3.0, 0.0, 1.0], [0.0, 1.0, 70.0]]
    b0 = [4.0, 6.0, 80.0]
    c0v = [2.0, 3.0, 100.0]
    dts = ["uint8", "int8", "uint16", "int16", "uint32", "int32", "uint64", "int64", "float16", "float32", "float64"]
    wraps = [("plain", 1, False), ("neg", -1, True), ("k2", 2, False), ("k50", 50, False), ("k1000", 1000, False),
             ("k70000", 70000, False), ("kneg3", -3, True), ("right4", 4, False), ("div2", 0.5, False)]
    for dt in dts:
        for wname, k, flips in wraps:
            for cover in (True, False):
                rep.evaluations += 1
                rep.histogram["dtype-cover"] = rep.histogram.get("dtype-cover", 0) + 1
                try:
                    with warnings.catch_warnings():
                        warnings.simplefilter("ignore")
                        P, x, m = _dtype_problem(dt, wname, k, flips, cover, A0, b0, c0v)
                        d = LinearProgramExtractor().extract(P)
                        err = lpdata_vs_model(m, d, [v.name for v in x])
                        s = P.solve(method="highs")
                except Exception as ex:  # noqa: BLE001
                    rep.oracle_failures.append({"what": f"dtype cover: {type(ex).__name__}: {ex}"[:300],
                                                "dtype_cover": [dt, wname, cover]})
                    continue
                if err:
                    rep.oracle_failures.append({"what": "dtype cover: the extracted LP is not the model that was written: " + err,
                                                "model": m})
                    continue
                rs, ro = reference(m)
                if not (s.status.name == rs and (rs != "OPTIMAL" or close_obj(s.objective_value, ro))):
                    rep.oracle_failures.append({"what": "dtype cover: optyx and the independently assembled LP disagree",
                                                "model": m, "optyx": [s.status.name, s.objective_value], "reference": [rs, ro]})
                else:
                    rep.nontrivial.add(("dtype", dt, wname, cover))


def known_matrix_sum(rep):
    """F26 (KNOWN_FINDINGS.json): a linear model written with MatrixVariable.sum() is not recognised as
    linear (degree of MatrixSum is None): `auto` solves it with an NLP method, explicit LP methods raise."""
    from optyx import MatrixVariable, Problem
    from optyx.core.errors import NonLinearError

    A = MatrixVariable("A", 2, 2, lb=0, ub=3)
    P = Problem().maximize(A.sum()).subject_to(A[0, :].sum() <= 4)
    try:
        with warnings.catch_warnings():
            warnings.simplefilter("ignore")
            s = P.solve(method="linprog")
        ok = s.status.name == "OPTIMAL" and abs(s.objective_value - 10.0) <= 1e-7 * 11
    except NonLinearError:
        ok = False
    rep.evaluations += 1
    if not ok:
        rep.oracle_failures.append({"kind": "matrix_sum_not_linear",
                                    "what": "maximize A.sum() s.t. A[0,:].sum() <= 4, 0 <= A <= 3 with method='linprog' "
                                            "raises NonLinearError / is not solved as an LP (reference: OPTIMAL, 10)"})


def search(ctx, rep):
    rng = core.Rng(ctx["seed"] + 104729)
    r2 = core.Report()
    shared_histories(rng, r2, 600)
    if r2.oracle_failures:
        return r2.oracle_failures[0]
    option_histories(rng, r2, 300)
    if r2.oracle_failures:
        return r2.oracle_failures[0]
    for i in range(2500):
        m = gen_model(rng)
        check_model(rng, m, r2, [], [], ["auto", rng.choice(METHODS)])
        if r2.oracle_failures:
            return r2.oracle_failures[0]
    return None


def replay(payload) -> bool:
    f = payload["failure"]
    if f.get("family") == "option-history":
        rep = core.Report()
        option_history(core.Rng(f["hseed"]), rep, f["hseed"])       # in a fresh process
        if not rep.oracle_failures:
            # not reproduced alone: the state left by the earlier histories of the failing process is part of the input
            for h in f.get("earlier_histories_of_the_process", []):
                option_history(core.Rng(h), core.Report(), h)
            option_history(core.Rng(f["hseed"]), rep, f["hseed"])
        if rep.oracle_failures:
            print({k: v for k, v in rep.oracle_failures[0].items() if k != "history"})
            return False
        return True
    if f.get("family") == "shared-layout":
        rep = core.Report()
        shared_history(core.Rng(f["hseed"]), rep, f["hseed"])       # in a fresh process
        if rep.oracle_failures:
            print({k: v for k, v in rep.oracle_failures[0].items() if k != "history"})
            return False
        return True
    if "dtype_cover" in f or "dtype_cover" in f.get("model", {}):
        rep = core.Report()
        dtype_cover(rep)          # the family is enumerated, not sampled: re-run it
        if rep.oracle_failures:
            print(rep.oracle_failures[0])
            return False
        return True
    m = f["model"]
    m["rows"] = [(list(a), s, float(r)) for a, s, r in m["rows"]]
    m["bounds"] = [tuple(b) for b in m["bounds"]]
    ok = True
    for seed in range(60):  # the writing style and the edit step are random: try several
        rep = core.Report()
        check_model(core.Rng(seed), m, rep, [], [], [f.get("method", "auto"), "auto"])
        if rep.oracle_failures:
            print(rep.oracle_failures[0])
            ok = False
            break
    return ok
