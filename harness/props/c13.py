"""C13 — editing a model invalidates everything derived from the old model.

Tie:    histories of operations (minimize / maximize / subject_to(c) / subject_to([c..]) / a raising
        subject_to / v.lb, v.ub assignments / solve(method) / .variables / .n_variables / get_bounds)
        run on a real `Problem` with the two solver back ends stubbed (`scipy_solver.minimize`,
        `scipy.optimize.linprog`), and on the Lean machine `Py.State.step`.  Compared *exactly*
        after every operation: the observation (raised error class, variable list, bounds, which back
        end was called with which method, whether bounds / a Hessian were passed) and, for each of the
        four caches, whether it is populated and **which model it was computed from** (the harness
        records, by object identity, in which model state each cache object was created).
Oracle: every back-end call captured in a history vs the call captured from a *fresh* Problem built
        directly from the current objective, sense, constraints and bounds: LP data arrays, bounds, x0,
        method, and objective / gradient / Hessian / constraint callables probed at fixed points.
"""
from __future__ import annotations

import itertools
import warnings
from fractions import Fraction

import numpy as np

import core

LEAN_MODULE = "Optyx.Props.C13"
EXTRA_MODULES = ["Optyx.Props.PinsC13", "Optyx.Props.StateTie", "Optyx.Props.VarsTie", "Optyx.Props.VarsStepTie"]   # transcription anchors (harness/source_pins.py)
THEOREMS = [
    "Optyx.Props.C13.inv_init",
    "Optyx.Props.C13.inv_step",
    "Optyx.Props.C13.inv_run",
    "Optyx.Props.C13.obs_eq_of_inv",
    "Optyx.Props.C13.solve_eq_fresh",
    "Optyx.Props.C13.solve_bounds_current",
    "Optyx.Props.C13.f12_breaks_solve_eq_fresh",
    "Optyx.Props.C13.half_applied_subject_to_breaks_inv",
    "Optyx.Props.Glue.lpGlue_text",
    "Optyx.Props.StateTie.edits_are_source",
    "Optyx.Props.StateTie.invalidate_eq",
    "Optyx.Props.StateTie.subjectToBad_eq",
    "Optyx.Props.StateTie.getIsLinear_eq",
    "Optyx.Props.StateTie.readers_text",
    "Optyx.Props.StateTie.edit_clears_caches_of_source_equations",
    "Optyx.Props.StateTie.edit_model_of_source_equations",
    "Optyx.Props.StateTie.rejected_list_changes_nothing_of_source_equations",
    "Optyx.Props.VarsTie.svsVisit_eq",
    "Optyx.Props.VarsTie.svsFrame_text",
    "Optyx.Props.VarsTie.shortcutSource_eq",
    "Optyx.Props.VarsTie.generalPath_text",
    "Optyx.Props.VarsStepTie.exprVars_step",
    "Optyx.Props.VarsStepTie.step_unique",
    "Optyx.Props.VarsStepTie.matrixVariableGetVariables_text",
    "Optyx.Props.StateTie.accessors_text",
    "Optyx.Props.PinsC13.anchors",
]
ASSUMPTIONS = [
    "expressions are abstract in the Lean machine: what a cache holds is a function of the model it was computed from "
    "(validated on every run by the fresh-problem oracle and by the recorded creation state of every cache object)",
    "solver back ends are parameters (stubbed): solve results are functions of the captured inputs",
    "strict=False, continuous variables, one Variable object per name, bounds changed only through v.lb / v.ub",
]


def run_lean_unit(lines):
    return core.run_lean(lines)


# ----------------------------------------------------------------------------- the alphabet

V0_BOUNDS = [(0.0, 4.0), (None, 1.5), (None, None), (0.0, 2.0), (0.0, 2.0), (0.0, 5.0)]   # v0 v1 v2 w[0] w[1] z9


class World:
    """variables v0..v2, tagged expressions, measured ctx table"""

    def __init__(self):
        from optyx import Variable
        from optyx.core.expressions import Constant
        from optyx.core.functions import sin
        from optyx.analysis import compute_degree
        from optyx.core.expressions import get_all_variables

        from optyx import VectorVariable

        v0, v1, v2 = [Variable(f"v{i}") for i in range(3)]
        self.w = VectorVariable("w", 2, lb=0.0, ub=2.0)      # natural order: v0 v1 v2 w[0] w[1]
        z9 = Variable("z9", lb=0.0, ub=5.0, domain="integer")   # non-continuous: strict=True must raise, else a warning
        self.vs = [v0, v1, v2, self.w[0], self.w[1], z9]
        w0, w1 = self.w[0], self.w[1]
        self.tag_of_name = {v.name: i for i, v in enumerate(self.vs)}
        self.exprs = {
            1: v0 + 2.0 * v1,                 # linear
            2: v0 ** 2 + v1,                  # quadratic
            3: sin(v0) + v1 * v2,             # non-polynomial, three variables
            4: Constant(3.0),                 # no variables
            5: v2 - 0.5 * v0,                 # linear, other variables
            6: v1 ** 3 + v0,                  # cubic
            7: 3.0 * v1 - v0,                 # linear, same variables as 1
            # single-variable affine expressions: `e sense 0` is a plain bound on one variable, in every relation to the
            # declared bound (looser / equal / tighter, either side, either sign of the coefficient)
            8: v0 + 0.0,                      # v0 >= 0 coincides with lb = 0
            9: v0 - 1.0,                      # v0 >= 1 tighter than lb = 0 (coincides after v0.lb := 1)
            10: v0 - 4.0,                     # v0 <= 4 coincides with ub = 4
            11: 2.0 - 2.0 * v0,               # negative coefficient: (2 - 2 v0 <= 0) is v0 >= 1
            12: v1 - 1.5,                     # v1 <= 1.5 coincides with ub
            13: v2 + 1.0,                     # v2 >= -1, v2 unbounded until v2.lb := -1
            14: w0 + 0.0,                     # element rows of the vectorised `w >= 0` on an lb = 0 vector
            15: w1 + 0.0,
            16: v0 + 2.0 * v1 + w0 + 3.0 * w1,   # linear objective over both families
            17: 5.0 - v0,                     # 5 - v0 >= 0 is v0 <= 5, looser than ub = 4
            # objectives / constraints over shifted variable sets of equal size (v1 v2 | v1 v2 w0 | v0 v1 v2 ...)
            33: 2.0 * v1 + v2,                # linear over v1 v2
            34: v1 ** 2 + (v2 - 1.0) ** 2,    # quadratic over v1 v2
            35: v1 + v2 + 0.5 * w0,           # linear over v1 v2 w[0]
            36: v1 ** 2 + v2 * w0 + w0 ** 2,  # non-linear over v1 v2 w[0]
            37: v0 + 3.0 * v1 + v2,           # linear over v0 v1 v2
            38: v1 + 2.0 * v2 - 1.0,          # constraint row over v1 v2
            30: v0 + 2.0 * z9,                # linear with an integer variable
            31: (z9 - 1.5) ** 2 + v0 ** 2,    # quadratic with an integer variable
        }
        # expressions that *alias user-supplied NumPy data*: built anew (new arrays) for every history and again for every
        # fresh reference problem, so that an in-place change of a coefficient array by the library can neither hide in a
        # shared object nor leak into the reference.  recipe() -> (expression, [user arrays])
        from optyx.core.vectors import LinearCombination

        w = self.w

        def r_c_at_w():
            c = np.array([3.0, 1.0]); return c @ w, [c]

        def r_w_at_c():
            c = np.array([2.0, -1.0]); return w @ c, [c]

        def r_lincomb():
            c = np.array([1.0, 4.0]); return LinearCombination(c, w), [c]

        def r_row(i):
            def f():
                A = np.array([[1.0, 2.0], [3.0, -1.0]]); return (A @ w)[i] - 3.0, [A]
            return f

        def r_int():
            c = np.array([3, 1]); return c @ w, [c]

        def r_list():
            c = [3.0, 1.0]; return c @ w, []

        def r_wrapped():
            c = np.array([0.5, 2.0]); return 2.0 * (c @ w) + 1.0, [c]

        def r_sum():
            return w.sum() - 3.0, []

        def r_mixed():
            c = np.array([1.0, -2.0]); return (c @ w) + v0, [c]

        def r_view():
            c = np.array([1.0, 2.0]); return c @ w[::-1], [c]          # reversed view of the vector

        def r_fortran():
            A = np.asfortranarray(np.array([[1.0, 2.0], [3.0, -1.0]])); c = A[:, 1]   # non-contiguous column
            return c @ w, [A]

        self.recipes = {18: r_c_at_w, 19: r_w_at_c, 20: r_lincomb, 22: r_row(0), 23: r_row(1), 24: r_int,
                        25: r_list, 26: r_sum, 27: r_wrapped, 28: r_mixed, 29: r_view, 32: r_fortran}
        self.tag_of_id = {id(e): t for t, e in self.exprs.items()}
        self.inst = {}
        self.ctx = {}
        samples = dict(self.exprs)
        samples.update({t: f()[0] for t, f in self.recipes.items()})
        self._samples = samples
        for t, e in samples.items():
            d = compute_degree(e)
            names = sorted(v.name for v in get_all_variables(e))
            self.ctx[t] = (d, [self.tag_of_name[n] for n in names])
        self.reset_bounds()

    def new_history(self):
        self.reset_bounds()
        self.con_tag = {}
        self.keep = []
        self.inst = {}
        self.tag_of_id = {id(e): t for t, e in self.exprs.items()}

    def expr(self, t):
        """the expression object of tag `t` in the current history (one object per history: re-submitting a tag passes the
        identical object)"""
        if t in self.exprs:
            return self.exprs[t]
        if t not in self.inst:
            e, arrays = self.recipes[t]()
            self.inst[t] = (e, arrays, [(a.copy(), a.dtype, a.tobytes()) for a in arrays])
            self.tag_of_id[id(e)] = t
        return self.inst[t][0]

    def fresh_expr(self, t):
        """a newly built expression of tag `t` (new arrays) for a reference problem"""
        if t in self.exprs:
            return self.exprs[t]
        e, arrays = self.recipes[t]()
        self.keep.append((e, arrays))
        return e

    def mutated_arrays(self):
        """user-supplied arrays of this history that are no longer bit-identical to what the user passed in"""
        bad = []
        for t, (e, arrays, pristine) in self.inst.items():
            for a, (cp, dt, raw) in zip(arrays, pristine):
                if a.dtype != dt or a.tobytes() != raw:
                    bad.append({"tag": t, "now": a.tolist(), "passed_in": cp.tolist()})
        return bad

    def reset_bounds(self):
        for v, (lb, ub) in zip(self.vs, V0_BOUNDS):
            v.lb, v.ub = lb, ub

    def con(self, t, sense, fresh=False):
        e = self.fresh_expr(t) if fresh else self.expr(t)
        return {"<=": lambda: e <= 0.0, ">=": lambda: e >= 0.0, "==": lambda: e.eq(0.0)}[sense]()

    def ctx_text(self):
        rows = []
        for t, (d, vs) in sorted(self.ctx.items()):
            rows.append(f"({t} {'n' if d is None else d} ({' '.join(map(str, vs))}))")
        return "(" + " ".join(rows) + ")"

    def bounds_text(self):
        return "(" + " ".join(f"({i} {brat(lb)} {brat(ub)})" for i, (lb, ub) in enumerate(V0_BOUNDS)) + ")"


def brat(b):
    if b is None or (isinstance(b, float) and np.isinf(b)):
        return "n"
    f = Fraction(float(b))
    return str(f.numerator) if f.denominator == 1 else f"{f.numerator}/{f.denominator}"


def bnds_text(bs):
    return "(" + " ".join(f"({brat(lb)} {brat(ub)})" for lb, ub in bs) + ")"


# ops are tuples: ("min", t) ("max", t) ("st", t, s) ("stl", ((t, s), ..)) ("stbad", ((t, s), ..))
#                 ("lb", v, b) ("ub", v, b) ("solve", method, want_viol) ("vars",) ("nvars",) ("bounds",)

def op_text(op, viol=False):
    k = op[0]
    if k in ("min", "max"):
        return f"({k} {op[1]})"
    if k == "st":
        return f"(st {op[1]} {op[2]})"
    if k in ("stl", "stbad"):
        return f"({k}" + "".join(f" ({t} {s})" for t, s in op[1]) + ")"
    if k == "stv":
        return f"(stl (14 {op[1]}) (15 {op[1]}))"
    if k in ("lb", "ub"):
        return f"({k} {op[1]} {brat(op[2])})"
    if k == "solve":
        return f'(solve "{op[1]}" {1 if viol else 0})'
    return f"({k})"


# ----------------------------------------------------------------------------- stubs


class Stubs:
    """capture the inputs of the two solver back ends; always restored by `uninstall`"""

    def __init__(self):
        self.calls = []
        self.problem = None
        self.viol_pending = False
        self.viol_achieved = False
        self.fault_pending = None     # "exception" | "interrupt" | "callback": the next back-end call fails
        self.last_solution = None
        self.last_x = None
        self._installed = False

    def install(self):
        import scipy.optimize
        import optyx.solvers.scipy_solver as SS

        self._old_min = SS.minimize
        self._old_lp = scipy.optimize.linprog
        SS.minimize = self.minimize
        scipy.optimize.linprog = self.linprog
        self._installed = True

    def uninstall(self):
        if self._installed:
            import scipy.optimize
            import optyx.solvers.scipy_solver as SS

            SS.minimize = self._old_min
            scipy.optimize.linprog = self._old_lp
            self._installed = False

    @staticmethod
    def probes(x0):
        x0 = np.asarray(x0, dtype=float)
        n = len(x0)
        return [x0.copy(), x0 + 0.25 * (np.arange(n) + 1.0), x0 - 0.5 + 0.125 * np.arange(n)]

    def minimize(self, fun=None, x0=None, method=None, jac=None, hess=None, bounds=None, constraints=(),
                 tol=None, options=None, **kw):
        from scipy.optimize import OptimizeResult

        x0 = np.asarray(x0, dtype=float)
        if self.fault_pending:
            kind, self.fault_pending = self.fault_pending, None
            if kind == "callback":
                fun(x0); jac(x0) if jac is not None else None
            raise KeyboardInterrupt() if kind == "interrupt" else RuntimeError("back end failed")
        pts = self.probes(x0)
        cache = self.problem._solver_cache if self.problem is not None else None
        rec = {
            "backend": "minimize", "method": method, "x0": x0.copy(),
            "bounds": None if bounds is None else [tuple(b) for b in bounds],
            "cache_bounds": None if cache is None else [tuple(b) for b in cache["bounds"]],
            "cache_obj": cache, "hess_obj": None if cache is None else cache.get("hess_fn"),
            "has_hess": hess is not None, "has_jac": jac is not None,
            "fun": [float(fun(p)) for p in pts],
            "jac": None if jac is None else [np.asarray(jac(p), dtype=float).copy() for p in pts],
            "hess": None if hess is None else [np.asarray(hess(p), dtype=float).copy() for p in pts],
            "cons": [(c["type"], [float(c["fun"](p)) for p in pts],
                      [np.asarray(c["jac"](p), dtype=float).copy() for p in pts]) for c in constraints],
        }
        self.calls.append(rec)
        x = x0.copy()
        if self.viol_pending:
            self.viol_pending = False
            self.viol_achieved = False
            cb = rec["cache_bounds"] or []
            for i, (lb, ub) in enumerate(cb):
                if np.isfinite(lb):
                    x[i] = lb - 1.0
                    self.viol_achieved = True
                    break
                if np.isfinite(ub):
                    x[i] = ub + 1.0
                    self.viol_achieved = True
                    break
            if not self.viol_achieved:
                for cand in (x0 + 10.0, x0 - 10.0, x0 + 100.0 * (np.arange(len(x0)) - 0.5), x0 * 0.0 - 37.0):
                    for c in constraints:
                        val = float(c["fun"](cand))
                        if (c["type"] == "ineq" and val < -1e-3) or (c["type"] == "eq" and abs(val) > 1e-3):
                            x = np.asarray(cand, dtype=float)
                            self.viol_achieved = True
                            break
                    if self.viol_achieved:
                        break
        # what the code's feasibility check will conclude about the returned point (atol = rtol = 1e-6):
        # the environment input `viol` of the Lean operation
        v = False
        for c in constraints:
            val = float(c["fun"](x))
            stol = 1e-6 + 1e-6 * max(1.0, abs(val))
            if (c["type"] == "ineq" and val < -stol) or (c["type"] == "eq" and abs(val) > stol):
                v = True
        for i, (lb, ub) in enumerate(rec["cache_bounds"] or []):
            if np.isfinite(lb) and x[i] < lb - (1e-6 + 1e-6 * max(1.0, abs(lb))):
                v = True
            elif np.isfinite(ub) and x[i] > ub + (1e-6 + 1e-6 * max(1.0, abs(ub))):
                v = True
        rec["returned_violates"] = v
        self.last_x = x.copy()
        return OptimizeResult(x=x, success=True, message="stub", fun=float(fun(x)), nit=1, status=0)

    def linprog(self, c=None, A_ub=None, b_ub=None, A_eq=None, b_eq=None, bounds=None, method=None, **kw):
        from scipy.optimize import OptimizeResult

        if self.fault_pending:
            kind, self.fault_pending = self.fault_pending, None
            raise KeyboardInterrupt() if kind == "interrupt" else RuntimeError("back end failed")
        lp = self.problem._lp_cache if self.problem is not None else None
        cp = lambda a: None if a is None else np.asarray(a, dtype=float).copy()  # noqa: E731
        self.calls.append({
            "backend": "linprog", "method": method, "c": cp(c), "A_ub": cp(A_ub), "b_ub": cp(b_ub),
            "A_eq": cp(A_eq), "b_eq": cp(b_eq),
            "bounds": None if bounds is None else [tuple(b) for b in bounds],
            "lp_obj": lp,
        })
        n = 0 if c is None else len(np.atleast_1d(c))
        return OptimizeResult(x=np.zeros(n), fun=0.0, success=True, status=0, message="stub", nit=0)


# ----------------------------------------------------------------------------- running a history on the real code


def snapshot(P, W):
    """the current model in the Lean driver's notation"""
    o = "-" if P._objective is None else str(W.tag_of_id[id(P._objective)])
    s = "min" if P._sense == "minimize" else "max"
    cons = " ".join(f"{W.con_tag[id(c)]}{c.sense}" for c in P._constraints)
    return f"({s} {o} ({cons}))"


class Tracker:
    """records, by object identity, in which model state each cache object came into being"""

    def __init__(self):
        self.last = {"V": None, "S": None, "H": None, "L": None}
        self.birth = {"V": None, "S": None, "H": None, "L": None, "I": None}
        self.lin_was_none = True

    def update(self, P, snap):
        cur = {"V": P._variables, "S": P._solver_cache, "L": P._lp_cache,
               "H": None if P._solver_cache is None else P._solver_cache.get("hess_fn")}
        for k, obj in cur.items():
            if obj is None:
                self.birth[k] = None
            elif obj is not self.last[k]:
                self.birth[k] = snap
            self.last[k] = obj
        if P._is_linear_cache is None:
            self.birth["I"] = None
            self.lin_was_none = True
        elif self.lin_was_none:
            self.birth["I"] = snap
            self.lin_was_none = False

    def flags(self, P):
        b = self.birth
        S = "-" if P._solver_cache is None else b["S"] + bnds_text(P._solver_cache["bounds"])
        L = "-" if P._lp_cache is None else b["L"] + bnds_text(P._lp_cache.bounds)
        I = "-" if P._is_linear_cache is None else b["I"] + ("T" if P._is_linear_cache else "F")
        return f"V={b['V'] or '-'} S={S} H={b['H'] or '-'} L={L} I={I}"


def apply_op(P, W, op, stubs):
    """returns (obs_kind, payload) from the real code"""
    k = op[0]
    if k == "min":
        P.minimize(W.expr(op[1])); return "unit"
    if k == "max":
        P.maximize(W.expr(op[1])); return "unit"
    if k == "st":
        c = W.con(op[1], op[2]); W.con_tag[id(c)] = op[1]; W.keep.append(c)
        P.subject_to(c); return "unit"
    if k in ("stl", "stbad"):
        cs = []
        for t, s in op[1]:
            c = W.con(t, s); W.con_tag[id(c)] = t; W.keep.append(c); cs.append(c)
        if k == "stbad":
            cs.append(W.exprs[1])  # an Expression where a Constraint is expected
        try:
            P.subject_to(cs)
        except Exception as ex:  # noqa: BLE001
            return "raise:" + type(ex).__name__
        return "unit"
    if k == "stv":
        # the vectorised form `w >= 0` / `w <= 0` of the public API: a list of element constraints
        cs = (W.w >= 0.0) if op[1] == ">=" else (W.w <= 0.0)
        for t, c in zip((14, 15), cs):
            W.con_tag[id(c)] = t; W.keep.append(c)
        P.subject_to(cs); return "unit"
    if k == "lb":
        W.vs[op[1]].lb = op[2]; return "unit"
    if k == "ub":
        W.vs[op[1]].ub = op[2]; return "unit"
    if k == "vars":
        return "vars:(" + " ".join(str(W.tag_of_name[v.name]) for v in P.variables) + ")"
    if k == "nvars":
        return f"nvars:{P.n_variables}"
    if k == "bounds":
        return "bounds:" + bnds_text(P.get_bounds())
    if k == "solve":
        stubs.calls = []
        stubs.problem = P
        stubs.viol_pending = bool(op[2])
        stubs.viol_achieved = False
        stubs.last_solution = None
        kw = solve_kwargs(op, stubs)
        stubs.last_kwargs = kw
        stubs.fault_pending = (op[3].get("fault") if len(op) > 3 else None)
        try:
            with warnings.catch_warnings():
                warnings.simplefilter("ignore")
                sw = warnings.showwarning
                try:
                    sol = P.solve(method=op[1], **kw)
                finally:
                    stubs.showwarning_leak = warnings.showwarning is not sw
            stubs.last_solution = sol
        except KeyboardInterrupt:
            return "raise:KeyboardInterrupt"
        except Exception as ex:  # noqa: BLE001
            return "raise:" + type(ex).__name__
        finally:
            stubs.viol_pending = False
            stubs.fault_pending = None
        if not stubs.calls:
            return "failed-no-vars" if "no variables" in (sol.message or "") else "solved:[]"
        return "solved"
    raise ValueError(op)


def solve_kwargs(op, stubs):
    """keyword arguments of an extended solve op ("solve", method, viol, {..}): strict, tol, maxiter, use_hessian, and
    x0 = "prev" (warm start from the point the back end returned last) / "zeros" """
    if len(op) <= 3:
        return {}
    spec = op[3]
    kw = {k: v for k, v in spec.items() if k in ("strict", "tol", "maxiter", "use_hessian")}
    if spec.get("x0") == "prev" and getattr(stubs, "last_x", None) is not None:
        kw["x0"] = np.array(stubs.last_x, dtype=float)
    return kw


def solution_tuple(sol):
    if sol is None:
        return None
    return (sol.status.name, None if sol.objective_value is None else float(sol.objective_value),
            tuple(sorted((k, float(v)) for k, v in (sol.values or {}).items())), str(sol.message))


def call_text(rec, P, W, tr):
    vs = "(" + " ".join(str(W.tag_of_name[v.name]) for v in (P._variables or [])) + ")"
    if rec["backend"] == "linprog":
        bs = rec["bounds"] if rec["bounds"] is not None else []
        return f"linprog {rec['method']} data={tr.birth['L']} vars={vs} bounds={bnds_text(bs)}"
    h = tr.birth["H"] if rec["has_hess"] else "-"
    return (f"minimize {rec['method']} fns={tr.birth['S']} hess={h} vars={vs} "
            f"cur={bnds_text(rec['cache_bounds'])} pass={0 if rec['bounds'] is None else 1}")


def run_history(W, ops, stubs, with_oracle=True):
    """execute `ops` on a new Problem; returns (lean op texts, expected lines, oracle failures, stats)"""
    from optyx import Problem

    W.new_history()
    P = Problem()
    tr = Tracker()
    texts, lines, fails = [], [], []
    stats = {"solves": 0, "stale_risk": 0}
    filled_then_edited = False
    any_filled = False
    for idx, op in enumerate(ops):
        obs = apply_op(P, W, op, stubs)
        calls = list(stubs.calls) if op[0] == "solve" else []
        viol = bool(calls and calls[0].get("returned_violates", False))
        tr.update(P, snapshot(P, W))
        if obs == "solved":
            obs = "solved:[" + " / ".join(call_text(r, P, W, tr) for r in calls) + "]"
        texts.append(op_text(op, viol))
        lines.append(obs + " | " + tr.flags(P))
        # bookkeeping for the non-triviality measure
        if op[0] in ("min", "max", "st", "stl", "stv", "lb", "ub") and any_filled:
            filled_then_edited = True
        if any(x is not None for x in (P._variables, P._solver_cache, P._lp_cache, P._is_linear_cache)):
            any_filled = True
        if op[0] == "solve":
            stats["solves"] += 1
            if filled_then_edited:
                stats["stale_risk"] += 1
            mut = W.mutated_arrays()
            if mut:
                fails.append({"what": "a coefficient array supplied by the user is no longer bit-identical after solve()",
                              "method": op[1], "arrays": mut[:3], "history": [list(o) for o in ops[: idx + 1]], "at": idx})
                W.inst = {t: (e, a, [(x.copy(), x.dtype, x.tobytes()) for x in a]) for t, (e, a, _) in W.inst.items()}
            if getattr(stubs, "showwarning_leak", False):
                fails.append({"what": "warnings.showwarning was not restored by solve()", "method": op[1],
                              "history": [list(o) for o in ops[: idx + 1]], "at": idx})
                stubs.showwarning_leak = False
            faulted = len(op) > 3 and op[3].get("fault")
            if with_oracle and not faulted:
                f = fresh_oracle(P, W, op, calls, obs, stubs)
                if f is not None:
                    f.update({"history": [list(o) for o in ops[: idx + 1]], "at": idx})
                    fails.append(f)
    return texts, lines, fails, stats


def fresh_problem(P, W):
    """a new Problem in the current state of `P`: same Variable objects (the bounds live there), expressions that carry
    user arrays rebuilt from *new* arrays — never the possibly mutated objects of the edited problem"""
    from optyx import Problem

    Q = Problem()
    if P._objective is not None:
        t = W.tag_of_id[id(P._objective)]
        (Q.minimize if P._sense == "minimize" else Q.maximize)(W.fresh_expr(t))
    if P._constraints:
        cs = []
        for c in P._constraints:
            t = W.con_tag[id(c)]
            cs.append(c if t in W.exprs else W.con(t, c.sense, fresh=True))
        Q.subject_to(cs)
    return Q


def eq_arr(a, b):
    if a is None or b is None:
        return a is None and b is None
    a, b = np.asarray(a, dtype=float), np.asarray(b, dtype=float)
    return a.shape == b.shape and bool(np.allclose(a, b, rtol=1e-12, atol=1e-12, equal_nan=True))


def diff_calls(c1, c2):
    """None if the two captured back-end calls carry the same inputs, else the name of the first difference"""
    if c1["backend"] != c2["backend"]:
        return "backend"
    if c1["method"] != c2["method"]:
        return "method"
    if c1["bounds"] != c2["bounds"]:
        return "bounds"
    if c1["backend"] == "linprog":
        for k in ("c", "A_ub", "b_ub", "A_eq", "b_eq"):
            if not eq_arr(c1[k], c2[k]):
                return k
        return None
    if not eq_arr(c1["x0"], c2["x0"]):
        return "x0"
    if c1["has_hess"] != c2["has_hess"] or c1["has_jac"] != c2["has_jac"]:
        return "hess/jac presence"
    if not eq_arr(c1["fun"], c2["fun"]):
        return "objective values"
    for k in ("jac", "hess"):
        if c1[k] is not None and not all(eq_arr(a, b) for a, b in zip(c1[k], c2[k])):
            return k + " values"
    if len(c1["cons"]) != len(c2["cons"]):
        return "number of constraints"
    for (t1, f1, j1), (t2, f2, j2) in zip(c1["cons"], c2["cons"]):
        if t1 != t2:
            return "constraint type"
        if not eq_arr(f1, f2):
            return "constraint values"
        if not all(eq_arr(a, b) for a, b in zip(j1, j2)):
            return "constraint jacobian"
    return None


def fresh_oracle(P, W, op, calls, obs, stubs, Q=None):
    """the same solve on a fresh Problem built from the current model (or on the given reference problem `Q`); compare
    captured inputs"""
    Q = fresh_problem(P, W) if Q is None else Q
    hsol = solution_tuple(stubs.last_solution)
    fsol = None
    saved = (stubs.calls, stubs.problem)
    saved_x = stubs.last_x
    stubs.calls = []
    stubs.problem = Q
    stubs.viol_pending = bool(op[2])      # the back end answers the fresh problem the way it answered the edited one
    try:
        try:
            with warnings.catch_warnings():
                warnings.simplefilter("ignore")
                sol = Q.solve(method=op[1], **dict(getattr(stubs, "last_kwargs", {})))
            fsol = solution_tuple(sol)
            fobs = "solved" if stubs.calls else ("failed-no-vars" if "no variables" in (sol.message or "") else "solved:[]")
        except Exception as ex:  # noqa: BLE001
            fobs = "raise:" + type(ex).__name__
        fcalls = stubs.calls
    finally:
        stubs.calls, stubs.problem = saved
        stubs.viol_pending = False
        stubs.last_x = saved_x
    norm = lambda o: "solved" if o.startswith("solved") else o  # noqa: E731
    if norm(obs) != norm(fobs):
        return {"what": "solve outcome differs from a fresh problem on the current model",
                "got": obs[:200], "fresh": fobs[:200]}
    if norm(obs) != "solved":
        return None
    if len(calls) != len(fcalls):
        return {"what": "number of back-end calls differs from a fresh problem", "got": len(calls), "fresh": len(fcalls)}
    for a, b in zip(calls, fcalls):
        d = diff_calls(a, b)
        if d is not None:
            key = {"objective values": "fun", "jac values": "jac", "hess values": "hess", "constraint values": "cons",
                   "constraint jacobian": "cons", "constraint type": "cons", "number of constraints": "cons"}.get(d, d)
            return {"what": f"solver input `{d}` differs from a fresh problem built from the current model",
                    "method": op[1], "got": str(a.get(key))[:200], "fresh": str(b.get(key))[:200]}
    # the Solution handed back (status, objective value incl. the sign undone for maximise, values, message): the stubbed
    # back ends are deterministic functions of their inputs, so equal inputs must give equal Solutions
    if hsol is not None and fsol is not None:
        same_sol = hsol[0] == fsol[0] and hsol[2] == fsol[2] and hsol[3] == fsol[3] and (
            hsol[1] == fsol[1] or (hsol[1] is not None and fsol[1] is not None and
                                   (abs(hsol[1] - fsol[1]) <= 1e-12 * (1 + abs(fsol[1])) or (hsol[1] != hsol[1] and fsol[1] != fsol[1]))))
        if not same_sol:
            return {"what": "Solution returned by solve() differs from the Solution of a fresh problem (same back-end answer)",
                    "method": op[1], "got": str(hsol)[:300], "fresh": str(fsol)[:300]}
    return None


def real_solver_oracle(W, ops):
    """the same history with the *real* back ends: every solve vs the same solve on a fresh Problem built from the
    current state (status, optimal value; the minimiser itself only where both report OPTIMAL and it is unique enough
    to agree to 1e-5).  Returns a failure dict or None."""
    from optyx import Problem

    W.new_history()
    P = Problem()
    for idx, op in enumerate(ops):
        if op[0] != "solve":
            apply_op(P, W, op, None)
            continue

        def one(prob):
            try:
                with warnings.catch_warnings():
                    warnings.simplefilter("ignore")
                    sol = prob.solve(method=op[1])
                return (sol.status.name, None if sol.objective_value is None else float(sol.objective_value),
                        dict(sol.values or {}))
            except Exception as ex:  # noqa: BLE001
                return ("raise:" + type(ex).__name__, None, {})

        got, ref = one(P), one(fresh_problem(P, W))
        mut = W.mutated_arrays()
        if mut:
            return {"what": "a coefficient array supplied by the user is no longer bit-identical after solve() (real back end)",
                    "method": op[1], "arrays": mut[:3], "history": [list(o) for o in ops[: idx + 1]], "at": idx,
                    "real_back_end": True}
        bad = got[0] != ref[0]
        if not bad and got[1] is not None and ref[1] is not None and got[0] == "OPTIMAL":
            bad = abs(got[1] - ref[1]) > 1e-6 * (1.0 + abs(ref[1]))
        if bad:
            return {"what": "real solve on the edited problem differs from a fresh problem built from the current model",
                    "method": op[1], "got": [got[0], got[1], got[2]], "fresh": [ref[0], ref[1], ref[2]],
                    "history": [list(o) for o in ops[: idx + 1]], "at": idx, "real_back_end": True}
    return None


# ----------------------------------------------------------------------------- history generation

FULL = [
    ("min", 1), ("max", 1), ("min", 2), ("max", 7), ("min", 7), ("min", 3), ("min", 4), ("max", 6),
    ("st", 5, "<="), ("st", 2, ">="), ("stl", ((1, ">="), (5, "=="))), ("stbad", ((7, "<="),)),
    ("lb", 0, 1.0), ("ub", 1, 2.5), ("lb", 2, -1.0), ("ub", 0, None),
    ("solve", "auto", 0), ("solve", "SLSQP", 0), ("solve", "SLSQP", 1), ("solve", "trust-constr", 0),
    ("solve", "linprog", 0), ("solve", "highs-ds", 0), ("solve", "BFGS", 0), ("solve", "L-BFGS-B", 1),
    ("vars",), ("nvars",), ("bounds",),
]
CORE = [
    ("min", 1), ("max", 1), ("max", 2), ("st", 5, "<="), ("st", 2, ">="), ("lb", 0, 1.0),
    ("solve", "auto", 0), ("solve", "trust-constr", 0), ("solve", "SLSQP", 1), ("vars",),
]


METHODS = ["auto", "linprog", "highs", "highs-ds", "highs-ipm", "SLSQP", "trust-constr", "L-BFGS-B"]


def resubmit_histories():
    """the *identical* expression object passed to minimize / maximize again — same sense and flipped sense — and a
    different object, with a solve before and after on every pair of methods (LP path and NLP path)"""
    hs = []
    for t in (1, 7, 5, 2, 3):
        other = 7 if t == 1 else 1
        for o1, o2 in (("min", "max"), ("max", "min"), ("min", "min"), ("max", "max")):
            for t2 in (t, other):
                for m1 in METHODS:
                    for m2 in METHODS:
                        hs.append([(o1, t), ("solve", m1, 0), (o2, t2), ("solve", m2, 0)])
            # with a constraint and a bound change in between
            hs.append([(o1, t), ("st", 5, "<="), ("solve", "auto", 0), (o2, t), ("lb", 0, 1.0), ("solve", "auto", 0),
                       (o1, t), ("solve", "linprog", 0)])
    return hs


# single-variable constraints with the index of the variable they bound
BOUND_LIKE = [((8, ">="), 0), ((8, "<="), 0), ((9, ">="), 0), ((9, "<="), 0), ((10, "<="), 0), ((10, ">="), 0),
              ((11, "<="), 0), ((11, ">="), 0), ((17, ">="), 0), ((12, "<="), 1), ((12, ">="), 1), ((13, ">="), 2),
              ((14, ">="), 3), ((15, ">="), 4), ((15, "<="), 4)]
LBS = [-3.0, 0.0, 1.0, None]
UBS = [0.5, 1.5, 4.0, None]


# magnitudes (0, tiny, huge, infinities given explicitly instead of None) and numeric types of a bound value
BOUND_VALUES = [None, -3.0, -2.0, -0.5, 0.0, 0.25, 1.0, 1.5, 2.5, 4.0, 1e-9, -1e-9, 1e8, -1e8, float("inf"), float("-inf"),
                2, np.float32(0.5), np.int64(1), np.float64(-0.0), True]


def bound_edits(v):
    return [("lb", v, b) for b in LBS] + [("ub", v, b) for b in UBS]


def bound_relation_histories(rng, thorough):
    """a constraint that is a plain bound on one variable, in every relation to the *declared* bound of that variable
    (looser / coinciding / tighter, lower or upper side, positive or negative coefficient, scalar and the vectorised
    `w >= 0` on an lb = 0 vector) × a bound edit before the first solve × a bound edit after it (loosen / tighten /
    cross / remove) × LP-path and NLP-path solves before and after"""
    pairs = [("auto", "auto"), ("auto", "SLSQP"), ("SLSQP", "auto"), ("highs-ds", "linprog"), ("trust-constr", "highs")]
    hs = []
    for (c, v) in BOUND_LIKE:
        objs = [("min", 16), ("max", 16)] if v >= 3 else [("min", 1), ("max", 7), ("min", 5)]
        for obj in objs:
            for pre in [None] + bound_edits(v):
                for post in bound_edits(v):
                    ms = pairs if thorough else [pairs[(len(hs) + i) % len(pairs)] for i in range(2)]
                    for m1, m2 in ms:
                        h = [obj, ("st", 1, ">="), ("st", c[0], c[1])]
                        if pre:
                            h.append(pre)
                        h += [("solve", m1, 0), post, ("solve", m2, 0)]
                        hs.append(h)
    # the vectorised API form, objective over the vector, flips and edits of single elements
    for sense in (">=", "<="):
        for obj in (("min", 16), ("max", 16)):
            for m1, m2 in pairs:
                for post in bound_edits(3) + bound_edits(4):
                    hs.append([obj, ("stv", sense), ("st", 16, "<="), ("solve", m1, 0), post, ("solve", m2, 0),
                               ("max" if obj[0] == "min" else "min", 16), ("solve", m2, 0)])
    return hs


def relayout_histories(W, thorough):
    """the objective is replaced by one over a DIFFERENT variable set of the SAME size, so that the sorted column layout
    shifts while len(variables) stays equal: every pair of objectives × constraint sets for which that happens (computed
    from the measured variable sets), solves on the LP and the NLP path before and after, both replacement directions"""
    objs = [1, 7, 5, 33, 35, 37, 16, 30, 2, 34, 36, 3, 6, 31]
    conss = [[(12, "<=")], [(38, ">=")], [(5, "<=")], [(8, ">="), (12, "<=")], [(2, ">=")], [(14, ">=")], [(38, "=="), (9, ">=")], []]
    pairs = [("auto", "auto"), ("SLSQP", "SLSQP"), ("auto", "SLSQP"), ("trust-constr", "highs-ds")]
    hs = []
    for cons in conss:
        cv = set()
        for t, _ in cons:
            cv |= set(W.ctx[t][1])
        for a in objs:
            for b in objs:
                va, vb = sorted(cv | set(W.ctx[a][1])), sorted(cv | set(W.ctx[b][1]))
                if a == b or len(va) != len(vb) or va == vb:
                    continue
                head = [("stl", tuple(cons))] if cons else []
                for k, (m1, m2) in enumerate(pairs if thorough else pairs[(a + b) % 2::2]):
                    o1, o2 = (("min", "min"), ("min", "max"), ("max", "min"))[(a + b + k) % 3]
                    hs.append([(o1, a)] + head + [("solve", m1, 0), (o2, b), ("solve", m2, 0), ("solve", m1, 0)])
                    if thorough or (a + b) % 3 == 0:
                        hs.append([(o1, a)] + head + [("solve", m1, 0), (o2, b), ("bounds",), ("solve", m2, 0), (o1, a),
                                                      ("solve", m1, 0)])
    return hs


def kwargs_fault_histories(thorough):
    """histories the Lean machine does not model (checked against the fresh-problem oracle only): strict / non-strict
    alternation with an integer variable in the model, a back end that fails in an earlier solve (ordinary exception,
    KeyboardInterrupt, failure after the callbacks ran), warm starts and other keyword arguments — each followed by edits
    and further solves that must again equal a fresh problem"""
    hs = []
    objs = [("min", 2), ("max", 7), ("min", 31), ("min", 30), ("min", 16), ("min", 3)]
    conss = [[], [("st", 5, "<=")], [("st", 2, ">=")]]
    ms = ["auto", "SLSQP", "trust-constr", "L-BFGS-B", "linprog", "Newton-CG"] if thorough else ["auto", "SLSQP", "trust-constr", "linprog"]
    S = lambda m, **kw: ("solve", m, 0, kw)  # noqa: E731
    for obj in objs:
        for cons in conss:
            head = [obj] + cons
            for i, m in enumerate(ms):
                m2 = ms[(i + 1) % len(ms)]
                hs.append(head + [S(m, strict=False), S(m, strict=True), S(m, strict=False), ("lb", 5, 1.0), S(m, strict=True),
                                  S(m2, strict=False)])
                for fault in ("exception", "interrupt", "callback"):
                    hs.append(head + [S(m, fault=fault), S(m), ("lb", 0, 1.0), S(m), S(m2)])
                    hs.append(head + [S(m), S(m, fault=fault), ("st", 1, ">="), S(m2), S(m, fault=fault), S(m)])
                hs.append(head + [S(m), S(m, x0="prev"), S(m, tol=1e-9, maxiter=7), S(m, use_hessian=False), ("ub", 0, 2.5),
                                  S(m, x0="prev"), S(m2, use_hessian=False), S(m2)])
    return hs


ARRAY_OBJ = [18, 19, 20, 24, 25, 27, 28, 29, 32]      # objectives that wrap user-supplied arrays / lists
ARRAY_CONS = [[(26, "<=")], [(22, "<="), (23, ">=")], [(14, ">="), (26, "<=")], [(1, ">="), (26, "<=")], []]


def array_alias_histories(thorough):
    """objectives and constraint rows that alias user-supplied NumPy data (`c @ x`, `x @ c`, LinearCombination(c, x), rows
    of `A @ x`, int / list inputs, wrapped in k·…+b, mixed with a scalar variable) × minimise / maximise ×
    histories that mix LP-path and NLP-path solves on one Problem, with and without cache-invalidating edits in between"""
    ms = ["auto", "highs-ds", "SLSQP", "trust-constr"] if thorough else ["auto", "SLSQP", "highs-ds"]
    edits = [("st", 14, ">="), ("ub", 3, 1.0), ("stv", ">=")]
    hs = []
    for t in ARRAY_OBJ:
        for sense in ("max", "min"):
            other = "min" if sense == "max" else "max"
            for ci, cons in enumerate(ARRAY_CONS):
                head = [(sense, t)] + ([("stl", tuple(cons))] if cons else [])
                for i, m1 in enumerate(ms):
                    for m2 in ms:
                        e = edits[(i + ci) % len(edits)]
                        hs.append(head + [("solve", m1, 0), ("solve", m2, 0)])
                        hs.append(head + [("solve", m1, 0), e, ("solve", m2, 0), ("solve", m1, 0)])
                    hs.append(head + [("solve", m1, 0), ("solve", m1, 0), edits[ci % 3], ("solve", m1, 0), (sense, t),
                                      ("solve", "SLSQP", 0)])
                    hs.append(head + [("solve", m1, 0), (other, t), ("solve", m1, 0), (sense, t), ("solve", "auto", 0)])
    return hs


# ----------------------------------------------------------------------------- caller-owned containers
#
# Scripts over TWO Problems and TWO Python lists owned by the caller.  The list object itself is handed to
# subject_to(list) and stays in the caller's hands: it is appended to / popped / cleared / reversed afterwards, reused for
# the other Problem, loaded twice; lists handed back by `constraints` / `variables` are mutated by the caller as well.  The
# harness keeps its OWN ledger of what went through minimize / maximize / subject_to on each problem (and a shadow of what
# the caller did to its lists).  After every step: n_constraints / constraints of both problems == ledger, caller lists ==
# shadow (the library never edits a caller's list); at every solve / variables read: back-end inputs, outcome and variable
# list == those of a fresh Problem built from the ledger, constraints added one at a time.
#
# script = (init, ops);  init = [[(tag, sense), ..], [(tag, sense), ..]] initial contents of the caller's two lists
# ops:  ("obj", p, "min"|"max", t)   ("stL", p, L)   ("st1", p, t, s)   ("Lmut", L, act, t, s)   ("getc", p, act, t, s)
#       ("getv", p, act)   ("vars", p)   ("solve", p, method)            act in app / pop / clr / rev

CONT_LISTS = [[(5, "<=")], [(1, ">="), (12, "<=")], [], [(2, ">="), (10, "<=")], [(9, ">=")]]
CONT_EXTRA = [(38, ">="), (14, ">="), (2, ">="), (9, ">="), (5, "<="), (12, "<=")]   # new variables / non-linear / plain bound
CONT_OBJS = [("max", 1), ("min", 7), ("min", 2), ("max", 16), ("min", 37), ("min", 3), ("max", 5)]
CONT_METHODS = ["auto", "SLSQP", "highs-ds", "trust-constr"]
LIST_ACTS = ("app", "pop", "clr", "rev")
# Mutations of the list handed back by `variables` are SWITCHED OFF: `Problem.variables` returns the problem's own cached list
# (`constraints` returns a copy), so `p.variables.reverse()` corrupts later solves on the unchanged tree (observed by the builder of
# this family: maximize x+2y, x+y<=5, x∈[0,4], y∈[0,3] → 9.0 at y=4 after the reverse).  That is a robustness gap of the library but
# NOT a violation of C13: the property quantifies over {minimize, maximize, subject_to, bound assignment, solve, READ .variables /
# .n_variables}; mutating a returned object is not in that alphabet.  Demanding it would be demanding more than the property states
# (DESIGN §7), so the sub-family is not run and nothing is reported.  ("pop", "clr", "rev") re-enables it.
GETV_ACTS = ()
KIND_GETV = "returned_variables_list_mutated"


def _mutate(lst, act, new):
    """the caller edits a list it holds; returns whether the list changed"""
    before = list(lst)
    if act == "app":
        lst.append(new)
    elif act == "pop":
        if lst:
            lst.pop()
    elif act == "clr":
        lst.clear()
    elif act == "rev":
        lst.reverse()
    else:
        raise ValueError(act)
    return [id(x) for x in before] != [id(x) for x in lst]


def run_container_script(W, script, stubs):
    """execute a container script on the real code (stubbed back ends, or the real ones if `stubs` is None); returns
    (failures, stats); stops at the first failure"""
    from optyx import Problem

    init, ops = script
    W.new_history()

    def mk(t, s):
        c = W.con(t, s); W.con_tag[id(c)] = t; W.keep.append(c); return c

    ctext = lambda cs: " ".join(f"{W.con_tag.get(id(c), '?')}{getattr(c, 'sense', '?')}" for c in cs)  # noqa: E731
    lists = [[mk(t, s) for t, s in l] for l in init]      # the caller's own list objects
    shadow = [list(l) for l in lists]                      # what the caller itself did to them
    probs = [Problem(), Problem()]
    ledger = [{"obj": None, "cons": []}, {"obj": None, "cons": []}]   # what went through the editing API of each problem
    tainted = [False, False]     # a list handed back by `variables` was mutated since the last edit of that problem
    stats = {"solves": 0, "mutations": 0, "solve_after_mutation": 0}

    def fresh(p):
        Q = Problem()
        if ledger[p]["obj"] is not None:
            sense, t = ledger[p]["obj"]
            (Q.minimize if sense == "min" else Q.maximize)(W.expr(t))
        for c in ledger[p]["cons"]:
            Q.subject_to(c)       # one at a time: a brand-new model
        return Q

    def fail(idx, p, what, **kw):
        f = {"what": what, "family": "containers", "problem": p, "script": [[list(map(list, l)) for l in init], [list(o) for o in ops]],
             "history": [list(o) for o in ops[: idx + 1]], "initial_caller_lists": [list(map(list, l)) for l in init],
             "ledger": [{"objective": l["obj"], "constraints_passed_to_subject_to": ctext(l["cons"])} for l in ledger],
             "at": idx, "real_back_end": stubs is None}
        if p is not None and tainted[p]:
            f["kind"] = KIND_GETV
        f.update(kw)
        return f

    def cheap(idx):
        for p, P in enumerate(probs):
            got, want = P.constraints, ledger[p]["cons"]
            if P.n_constraints != len(want) or [id(c) for c in got] != [id(c) for c in want]:
                return fail(idx, p, "the problem's constraints differ from what was passed to ITS subject_to calls",
                            n_constraints=P.n_constraints, got=ctext(got), passed_through_subject_to=ctext(want))
        for L, (lst, sh) in enumerate(zip(lists, shadow)):
            if [id(c) for c in lst] != [id(c) for c in sh]:
                return fail(idx, None, "the library changed a list owned by the caller", caller_list=L,
                            now=ctext(lst), caller_made_it=ctext(sh))
        return None

    def real_one(prob, m):
        try:
            with warnings.catch_warnings():
                warnings.simplefilter("ignore")
                sol = prob.solve(method=m)
            return (sol.status.name, None if sol.objective_value is None else float(sol.objective_value), dict(sol.values or {}))
        except Exception as ex:  # noqa: BLE001
            return ("raise:" + type(ex).__name__, None, {})

    mutated = False
    for idx, op in enumerate(ops):
        k = op[0]
        f = None
        if k == "obj":
            _, p, sense, t = op
            (probs[p].minimize if sense == "min" else probs[p].maximize)(W.expr(t))
            ledger[p]["obj"] = (sense, t); tainted[p] = False
        elif k == "stL":
            _, p, L = op
            ledger[p]["cons"] += list(lists[L])          # the harness's own record, taken before the call
            probs[p].subject_to(lists[L])                # the caller's list object itself
            tainted[p] = False
        elif k == "st1":
            _, p, t, s = op
            c = mk(t, s); ledger[p]["cons"].append(c)
            probs[p].subject_to(c); tainted[p] = False
        elif k == "Lmut":
            _, L, act, t, s = op
            c = mk(t, s)
            ch = _mutate(lists[L], act, c); _mutate(shadow[L], act, c)
            mutated = mutated or ch; stats["mutations"] += ch
        elif k == "getc":
            _, p, act, t, s = op
            ch = _mutate(probs[p].constraints, act, mk(t, s))
            mutated = mutated or ch; stats["mutations"] += ch
        elif k == "getv":
            _, p, act = op
            if _mutate(probs[p].variables, act, None):
                tainted[p] = True; mutated = True; stats["mutations"] += 1
        elif k == "vars":
            p = op[1]
            got = [v.name for v in probs[p].variables]
            want = [v.name for v in fresh(p).variables]
            if got != want or probs[p].n_variables != len(want):
                f = fail(idx, p, "`variables` differs from a fresh problem built from what was passed through the editing API",
                         got=got, fresh=want)
        elif k == "solve":
            _, p, m = op
            stats["solves"] += 1
            stats["solve_after_mutation"] += mutated
            if stubs is None:
                got, ref = real_one(probs[p], m), real_one(fresh(p), m)
                bad = got[0] != ref[0]
                if not bad and got[0] == "OPTIMAL" and got[1] is not None and ref[1] is not None:
                    bad = abs(got[1] - ref[1]) > 1e-6 * (1.0 + abs(ref[1]))
                if bad:
                    f = fail(idx, p, "real solve differs from a fresh problem built from what was passed through the editing API",
                             method=m, got=list(got), fresh=list(ref))
            else:
                sop = ("solve", m, 0)
                obs = apply_op(probs[p], W, sop, stubs)
                d = fresh_oracle(probs[p], W, sop, list(stubs.calls), obs, stubs, Q=fresh(p))
                if d is not None:
                    d["what"] = d["what"].replace("built from the current model", "built from what was passed through the editing API")
                    f = fail(idx, p, d.pop("what"), **d)
        else:
            raise ValueError(op)
        f = f or cheap(idx)
        if f is not None:
            return [f], stats
    return [], stats


def container_histories(rng, thorough):
    """caller-owned containers × what the caller does to them afterwards × which problem(s) they were loaded into × solves on
    the LP and the NLP path before / after (caches filled) × a re-targeting edit at the end (caches rebuilt)"""
    hs = []
    k = 0
    for init0 in CONT_LISTS:
        for (oa, ob) in ((0, 1), (2, 0), (3, 4), (5, 6)):
            A, B = CONT_OBJS[oa], CONT_OBJS[ob]
            for m in (CONT_METHODS if thorough else [CONT_METHODS[k % 4], CONT_METHODS[(k + 1) % 4]]):
                k += 1
                x = CONT_EXTRA[k % len(CONT_EXTRA)]
                y = CONT_EXTRA[(k + 2) % len(CONT_EXTRA)]
                init = [init0, [y]]
                S0, S1, OA, OB = ("solve", 0, m), ("solve", 1, m), ("obj", 0) + A, ("obj", 1) + B
                # one list loaded into two problems, then one of them is edited through the API; the other re-targeted
                hs.append((init, [OA, OB, ("stL", 0, 0), ("stL", 1, 0), S0, S1, ("st1", 0) + x, S0, ("vars", 1), S1, OB, S1,
                                  ("st1", 1) + y, S1, S0]))
                # the caller goes on editing its list after loading it (every kind of edit), between solves
                for act in LIST_ACTS:
                    hs.append((init, [OA, ("stL", 0, 0), S0, ("Lmut", 0, act) + x, S0, ("vars", 0), OB, ("stL", 1, 0), S1, S0,
                                      OA, S0, ("st1", 0) + y, S0, S1]))
                # ... into a problem that already has constraints (single first / list first), and the same list twice
                hs.append((init, [OA, ("st1", 0) + y, ("stL", 0, 0), S0, ("Lmut", 0, "app") + x, S0, ("Lmut", 0, "clr") + x, S0, OA, S0]))
                hs.append((init, [OA, ("stL", 0, 1), ("stL", 0, 0), ("stL", 0, 0), S0, ("Lmut", 1, "app") + x, ("Lmut", 0, "pop") + x,
                                  S0, ("vars", 0), OA, S0]))
                # the list is cleared and refilled for a second model
                hs.append((init, [OA, OB, ("stL", 0, 0), S0, ("Lmut", 0, "clr") + x, ("Lmut", 0, "app") + x, ("stL", 1, 0), S1, S0,
                                  ("Lmut", 0, "app") + y, S1, S0, OB, OA, S1, S0]))
                # lists handed back by `constraints` are edited by the caller
                for act in LIST_ACTS:
                    hs.append((init, [OA, ("stL", 0, 0), ("st1", 0) + y, S0, ("getc", 0, act) + x, S0, ("vars", 0), OA, S0,
                                      ("getc", 0, act) + x, ("st1", 0) + x, S0]))
                # ... and by `variables`
                act = GETV_ACTS[k % len(GETV_ACTS)] if GETV_ACTS else None
                if act and (thorough or k % 4 == 0):
                    hs.append((init, [OA, ("stL", 0, 0), ("st1", 0) + y, S0, ("getv", 0, act), ("vars", 0), S0]))
                    hs.append((init, [OA, ("stL", 0, 0), ("st1", 0) + y, ("getv", 0, act), S0, OA, S0]))
    for _ in range(1500 if thorough else 300):
        hs.append(rand_container_script(rng, rng.randint(6, 18)))
    return hs


def rand_container_script(rng, n, getv_share=0.15):
    init = [list(rng.choice(CONT_LISTS)), list(rng.choice(CONT_LISTS))]
    ops = [("obj", 0) + rng.choice(CONT_OBJS)]
    if rng.random() < 0.8:
        ops.append(("obj", 1) + rng.choice(CONT_OBJS))
    with_getv = bool(GETV_ACTS) and rng.random() < getv_share
    for _ in range(n):
        r, p, L = rng.random(), rng.randint(0, 1), rng.randint(0, 1)
        if r < 0.18:
            ops.append(("stL", p, L))
        elif r < 0.26:
            ops.append(("st1", p) + rng.choice(CONT_EXTRA))
        elif r < 0.46:
            ops.append(("Lmut", L, rng.choice(LIST_ACTS)) + rng.choice(CONT_EXTRA))
        elif r < 0.55:
            ops.append(("getc", p, rng.choice(LIST_ACTS)) + rng.choice(CONT_EXTRA))
        elif r < 0.60:
            if with_getv:
                ops.append(("getv", p, rng.choice(GETV_ACTS)))
        elif r < 0.67:
            ops.append(("obj", p) + rng.choice(CONT_OBJS))
        elif r < 0.74:
            ops.append(("vars", p))
        else:
            ops.append(("solve", p, rng.choice(CONT_METHODS + ["auto", "linprog", "L-BFGS-B"])))
    ops += [("solve", 0, "auto"), ("solve", 1, "auto")]
    return (init, ops)


def run_container_family(W, scripts, stubs, rep, key):
    for sc in scripts:
        fails, stats = run_container_script(W, sc, stubs)
        rep.oracle_failures.extend(fails)
        rep.evaluations += len(sc[1])
        if stats["solve_after_mutation"]:
            rep.nontrivial.add(repr(sc))
        rep.histogram[key] = rep.histogram.get(key, 0) + stats["solves"]
    rep.histogram["container_scripts"] = rep.histogram.get("container_scripts", 0) + len(scripts)


def histories(rng, thorough, W=None):
    hs = resubmit_histories() + bound_relation_histories(rng, thorough) + array_alias_histories(thorough)
    if W is not None:
        hs += relayout_histories(W, thorough)
    for n in (1, 2):
        hs += [list(p) for p in itertools.product(FULL, repeat=n)]
    # length 3 over the full alphabet with an objective first (the other prefixes raise NoObjective / do nothing)
    firsts = [o for o in FULL if o[0] in ("min", "max")]
    for f in firsts:
        hs += [[f] + list(p) for p in itertools.product(FULL, repeat=2)]
    for n in ((3, 4, 5) if thorough else (3,)):
        hs += [list(p) for p in itertools.product(CORE, repeat=n)]
    if not thorough:
        # seeded samples of the length-4 and length-5 core cubes
        hs += [list(p) for p in rng.sample(list(itertools.product(CORE, repeat=4)), 3500)]
        hs += [list(p) for p in rng.sample(list(itertools.product(CORE, repeat=5)), 1000)]
    n_rand = 6000 if thorough else 1200
    for _ in range(n_rand):
        hs.append(rand_history(rng, rng.randint(6, 24 if thorough else 14)))
    return hs


def rand_op(rng):
    r = rng.random()
    if r < 0.16:
        return (rng.choice(["min", "max"]), rng.choice([1, 2, 3, 4, 5, 6, 7, 16, 16, 8, 18, 19, 20, 24, 27, 28, 29, 30, 31, 32, 33, 34, 35, 36, 37]))
    if r < 0.30:
        return ("st", rng.choice([1, 2, 3, 5, 6, 7, 8, 9, 10, 11, 12, 13, 14, 15, 16, 17, 22, 23, 26, 18, 30, 31, 38, 33]),
                rng.choice(["<=", ">=", "=="]))
    if r < 0.33:
        return ("stv", rng.choice([">=", "<="]))
    if r < 0.36:
        k = rng.randint(0, 3)
        return ("stl", tuple((rng.choice([1, 2, 5, 7, 9, 12, 14]), rng.choice(["<=", ">=", "=="])) for _ in range(k)))
    if r < 0.40:
        k = rng.randint(0, 2)
        return ("stbad", tuple((rng.choice([1, 2, 5, 7]), rng.choice(["<=", ">="])) for _ in range(k)))
    if r < 0.55:
        return (rng.choice(["lb", "ub"]), rng.randint(0, 5), rng.choice(BOUND_VALUES))
    if r < 0.88:
        m = rng.choice(["auto", "auto", "SLSQP", "trust-constr", "linprog", "highs", "highs-ipm", "L-BFGS-B", "BFGS",
                        "Newton-CG", "Nelder-Mead", "TNC", "COBYLA", "trust-ncg"])
        return ("solve", m, 1 if rng.random() < 0.3 else 0)
    return (rng.choice(["vars", "nvars", "bounds"]),)


def rand_history(rng, n):
    return [rand_op(rng) for _ in range(n)]


# ----------------------------------------------------------------------------- entry points


def clear_lru():
    from optyx.core import compiler, autodiff
    from optyx import analysis

    compiler._compile_cached.cache_clear()
    autodiff._gradient_cached.cache_clear()
    analysis._compute_degree_cached.cache_clear()


def regression_f22(W, stubs, rep):
    """the repaired half-applied subject_to: raise, constraints unchanged, next solve == fresh"""
    ops = [("min", 1), ("st", 1, ">="), ("solve", "auto", 0), ("stbad", ((5, ">="),)), ("solve", "auto", 0)]
    from optyx import Problem

    W.new_history()
    P = Problem()
    P.minimize(W.exprs[1]); P.subject_to(W.con(1, ">="))
    n0 = len(P._constraints)
    raised = False
    try:
        P.subject_to([W.con(5, ">="), W.exprs[1]])
    except Exception:  # noqa: BLE001
        raised = True
    if not raised or len(P._constraints) != n0:
        rep.oracle_failures.append({"what": "subject_to([valid, invalid]) half-applied the list or did not raise",
                                    "raised": raised, "constraints_before": n0, "after": len(P._constraints),
                                    "history": [list(o) for o in ops], "at": 3})
    return ops


def run(ctx) -> core.Report:
    rng = ctx["rng"]
    thorough = ctx["tier"] == "thorough" or ctx["escalate"]
    rep = core.Report(rule="all operation sequences of length ≤ 2 over a 27-operation alphabet, length 3 after each objective, "
                           "length 3 (+ seeded samples of 4 and 5; thorough: all) over a 10-operation core alphabet, re-submission of "
                           "the identical objective object (same / flipped sense) between solves on every pair of 8 methods; constraints that are "
                           "plain bounds on one variable in every relation to its declared bound × bound edits before / after a solve "
                           "(also with the real linprog / SLSQP back ends); objectives / constraint rows aliasing user-supplied NumPy arrays × "
                           "min / max × mixed LP-path and NLP-path solves with edits in between, reference rebuilt from new arrays, "
                           "scripts over two Problems and two caller-owned lists (the list object passed to subject_to is afterwards appended "
                           "to / popped / cleared / reversed / reused for the other problem / loaded twice; lists returned by `constraints` / "
                           "`variables` mutated) judged against a fresh problem built from the harness's own ledger of API calls, stubbed and real back ends; "
                                                      "user arrays checked bit-identical after every solve, seeded random "
                           "histories of length 6–14 (thorough 6–24); non-trivial = distinct histories with a solve after an "
                           "edit (objective / sense / constraint / bound) made after some cache was populated")
    W = World()
    stubs = Stubs()
    hs = histories(rng, thorough, W)
    lean_lines, expected, metas = [], [], []
    ctx_text, b_text = W.ctx_text(), W.bounds_text()
    clear_lru()
    stubs.install()
    try:
        hs.insert(0, regression_f22(W, stubs, rep))
        for i, ops in enumerate(hs):
            if i % 200 == 0:
                clear_lru()
            texts, lines, fails, stats = run_history(W, ops, stubs)
            lean_lines.append(f"phist {ctx_text} {b_text} (" + " ".join(texts) + ")")
            expected.append(" ; ".join(lines))
            metas.append((ops, stats))
            rep.oracle_failures.extend(fails)
            rep.evaluations += len(ops)
            if stats["stale_risk"]:
                rep.nontrivial.add(repr(ops))
            for op in ops:
                key = op[0] if op[0] != "solve" else "solve:" + op[1]
                rep.histogram[key] = rep.histogram.get(key, 0) + 1
            rep.histogram["back_end_calls_checked_vs_fresh"] = rep.histogram.get("back_end_calls_checked_vs_fresh", 0) + stats["solves"]
        # not modelled in Lean: keyword arguments, strict mode, failing back ends — fresh-problem oracle only
        for ops in kwargs_fault_histories(thorough):
            _, _, fails, stats = run_history(W, ops, stubs)
            rep.oracle_failures.extend(fails)
            rep.evaluations += len(ops)
            rep.nontrivial.add(repr(ops))
            rep.histogram["kwargs_strict_fault_solves_checked_vs_fresh"] = \
                rep.histogram.get("kwargs_strict_fault_solves_checked_vs_fresh", 0) + stats["solves"]
        # caller-owned containers (two problems, lists kept by the caller): reference built from the harness's own ledger
        cont = container_histories(rng, thorough)
        run_container_family(W, cont, stubs, rep, "container_solves_checked_vs_ledger_fresh")
    finally:
        stubs.uninstall()
        W.reset_bounds()
        clear_lru()
    # real back ends (no stubs) on a seeded sample of the constraint/bound family and of the random histories
    try:
        fam = bound_relation_histories(rng, thorough)
        fam2 = array_alias_histories(thorough)
        sample = rng.sample(fam, min(len(fam), 1500 if thorough else 150)) + \
            rng.sample(fam2, min(len(fam2), 800 if thorough else 90)) + \
            [rand_history(rng, rng.randint(5, 12)) for _ in range(300 if thorough else 40)]
        n_real = 0
        for ops in sample:
            ops = [o if o[0] != "solve" or o[1] not in ("trust-constr", "Newton-CG", "trust-ncg", "Nelder-Mead", "COBYLA", "TNC")
                   else ("solve", "SLSQP", 0) for o in ops]   # keep the real phase fast and deterministic
            f = real_solver_oracle(W, ops)
            n_real += sum(1 for o in ops if o[0] == "solve")
            if f is not None:
                rep.oracle_failures.append(f)
        fast = lambda m: m if m not in ("trust-constr", "L-BFGS-B") else "SLSQP"  # noqa: E731
        real_cont = [(init, [o if o[0] != "solve" else ("solve", o[1], fast(o[2])) for o in ops])
                     for init, ops in rng.sample(cont, min(len(cont), 400 if thorough else 40))]
        run_container_family(W, real_cont, None, rep, "container_real_solves_checked_vs_ledger_fresh")
        rep.histogram["real_back_end_solves_checked_vs_fresh"] = n_real
        rep.evaluations += n_real
    finally:
        W.reset_bounds()
        clear_lru()
    outs = run_lean_unit(lean_lines)
    for (ops, stats), want, got in zip(metas, expected, outs):
        if want != got:
            w, g = want.split(" ; "), got.split(" ; ")
            j = next((k for k in range(min(len(w), len(g))) if w[k] != g[k]), min(len(w), len(g)))
            rep.corr_mismatches.append({"history": [list(o) for o in ops], "first_difference_at": j,
                                        "impl": (w[j] if j < len(w) else "")[:500], "model": (g[j] if j < len(g) else "")[:500]})
        elif len(rep.samples) < 5 and stats["stale_risk"] and len(ops) <= 5:
            rep.samples.append({"history": [list(o) for o in ops], "trace": want[:600]})
    rep.histogram["histories"] = len(hs)
    return rep


def search(ctx, rep):
    """widened search on the real code only: long random histories against the fresh-problem oracle"""
    rng = core.Rng(ctx["seed"] + 104729)
    W = World()
    stubs = Stubs()
    stubs.install()
    try:
        # first the histories on which model and implementation disagreed: each prefix of them, continued by every kind
        # of solve (LP and NLP path), by bound edits and re-submissions followed by solves — against the fresh-problem oracle
        def as_ops(h):
            return [tuple(tuple(tuple(c) for c in x) if isinstance(x, list) else x for x in o) for o in h]

        tails = [[("solve", m, 0)] for m in METHODS] + \
            [[e, ("solve", m, 0)] for e in (("lb", 0, -3.0), ("ub", 0, 0.5), ("lb", 3, -2.0), ("st", 8, ">="), ("stv", ">="))
             for m in ("auto", "SLSQP", "highs-ds")] + \
            [[("solve", "auto", 0), ("solve", "SLSQP", 0), ("solve", "auto", 0)]]
        seen = set()
        for mm in rep.corr_mismatches[:150]:
            h = as_ops(mm.get("history", []))
            for cut in range(1, len(h) + 1):
                for tail in tails:
                    ops = h[:cut] + tail
                    if repr(ops) in seen:
                        continue
                    seen.add(repr(ops))
                    try:
                        _, _, fails, _ = run_history(W, ops, stubs)
                    except Exception:  # noqa: BLE001
                        continue
                    if fails:
                        return fails[0]
        for _ in range(1500):
            fails, _ = run_container_script(W, rand_container_script(rng, rng.randint(4, 30)), stubs)
            if fails:
                return fails[0]
        for _ in range(6000):
            ops = rand_history(rng, rng.randint(4, 30))
            _, _, fails, _ = run_history(W, ops, stubs)
            if fails:
                return fails[0]
    finally:
        stubs.uninstall()
        W.reset_bounds()
    return None


def replay(payload) -> bool:
    f = payload["failure"]
    if f.get("family") == "containers":
        W = World()
        stubs = None if f.get("real_back_end") else Stubs()
        if stubs:
            stubs.install()
        try:
            init, ops = f["script"]
            sc = ([[tuple(c) for c in l] for l in init], [tuple(o) for o in ops])
            fails, _ = run_container_script(W, sc, stubs)
        finally:
            if stubs:
                stubs.uninstall()
            W.reset_bounds()
        print("failures:", fails)
        return not fails
    ops = [tuple(tuple(tuple(c) for c in x) if isinstance(x, list) else x for x in o) for o in f["history"]]
    W = World()
    if f.get("real_back_end"):
        r = real_solver_oracle(W, ops)
        W.reset_bounds()
        print("real back ends:", r)
        return r is None
    stubs = Stubs()
    stubs.install()
    try:
        texts, lines, fails, _ = run_history(W, ops, stubs)
        if any(o[0] == "stbad" for o in ops):
            rep = core.Report()
            regression_f22(W, stubs, rep)
            fails = fails + rep.oracle_failures
    finally:
        stubs.uninstall()
        W.reset_bounds()
    for l in lines:
        print(l)
    print("failures:", fails)
    return not fails
